//! C06 — Server transactions deliver the final response reliably
//!
//! What is generated (one server transaction of the application = the "foreground", Call-ID `c06-call`):
//!  * INVITE / non-INVITE x reliable / unreliable x final status x 0..2 provisionals x answer delay,
//!  * arrival instants of request retransmissions and of the ACK (+-1 ms around every timer edge, or random),
//!  * transient send faults on re-sends of a non-INVITE final response,
//!  * the shape of the top Via (plain, `rport`, `maddr`, NATed sent-by + `rport`): it decides where the response
//!    goes, which is not necessarily where the request came from,
//!  * WHERE each request retransmission and the ACK come from: the socket address of the first request, another
//!    port of that host, another host, or another transport object (NAT rebinding, a client that sends from an
//!    ephemeral port, a new connection). RFC 3261 17.2.3 matches by branch / sent-by / method only,
//!  * a To-tag added by the application to the final response (echoed by the ACK),
//!  * HOW the transaction is identified (RFC 3261 17.2.3): a branch with the magic cookie `z9hG4bK`, a branch
//!    without it (RFC 2543 client, any token), or no branch parameter at all. Without the cookie the request copies
//!    and the ACK are matched by Call-ID / CSeq number / From-tag / top Via (and the To-tag of the ACK against the one
//!    of the RESPONSE, which the INVITE did not carry) instead of by the branch,
//!  * an in-dialog request (re-INVITE / in-dialog OPTIONS): the request, its copies and the ACK already carry a
//!    To-tag, which the response keeps,
//!  * background load on the same endpoint: a burst of 1..~600 (thorough grid: 2048) OTHER requests (own branch and
//!    Call-ID) arriving while the foreground transaction is alive. They are requests no layer takes (the endpoint
//!    answers 481 itself, for an INVITE inside the receive path for up to 64*T1), INVITEs a layer rejects inline,
//!    requests a layer works on inline for 20 s, or a mixture; their 3xx-6xx may be ACKed 200 ms later or never.
//!
//! Oracle: `ref_tsx` timer arithmetic; the expected transmissions / call results / layer sightings of the
//! foreground transaction are a function of its own history only — neither the source address of a matching
//! message, nor the way it is matched (cookie branch or RFC 2543 fields), nor other transactions of the endpoint
//! change them. Every later message of the peer is built the way a peer builds it: request copies are byte-identical
//! to the first request, the ACK has the Request-URI / Call-ID / From / CSeq number / top Via sent-by of the INVITE
//! and the To header of the final response. The wire log is split by Call-ID; only "every
//! background message on the wire is a response" is asserted about the load.
//!
//! Not asserted: where the response is sent (C09), only that every re-send goes to the same place as the first
//! transmission; anything about the background transactions themselves; ties on timer instants; the window
//! between 64*T1 and the report of the timeout; timer I.

use crate::engine::*;
use crate::refmodel::ref_tsx::{self, T2, TIMEOUT};
use crate::world::*;
use parking_lot::Mutex;
use proptest::prelude::*;
use serde::{Deserialize, Serialize};
use sip_core::{Endpoint, IncomingRequest, Layer, MayTake};
use sip_types::Code;
use std::net::SocketAddr;
use std::sync::Arc;
use tokio::sync::mpsc;

#[derive(Serialize, Deserialize, Clone, Debug, Hash, Default)]
pub struct Case {
    pub invite: bool,
    pub reliable: bool,
    pub code: u16,
    pub provisionals: u8,
    /// when the application answers, ms after the request arrived
    pub respond_at: u64,
    /// arrival times of request retransmissions (ms after the first arrival)
    pub retrans: Vec<u64>,
    /// arrival time of the ACK (INVITE only)
    pub ack_at: Option<u64>,
    /// ACK for 2xx re-uses the INVITE's branch (some stacks do)
    pub ack_same_branch: bool,
    pub rng: u8,
    /// transient transport faults: the i-th *re-send* of the final response (0-based, in the order the
    /// transaction attempts them) fails with an io::Error. Applied to non-INVITE transactions on unreliable
    /// transports only (an INVITE transaction reports a failed re-send to the caller of `respond_failure`,
    /// which the statement does not speak about), only when no request copy is queued before the answer, and only
    /// without background load.
    #[serde(default)]
    pub faults: Vec<u8>,
    /// shape of the top Via of the request, its copies and the ACK: 0 plain, 1 `;rport`, 2 `;maddr=192.0.2.77`,
    /// 3 sent-by is a private address (10.9.9.9) + `;rport` (client behind a NAT)
    #[serde(default)]
    pub via: u8,
    /// where the i-th request retransmission comes from (missing = 0): 0 the socket address of the first request,
    /// 1 another port of that host, 2 another host, 3 another transport object of the endpoint (and another port)
    #[serde(default)]
    pub retrans_src: Vec<u8>,
    /// where the ACK comes from (same encoding)
    #[serde(default)]
    pub ack_src: u8,
    /// the application adds a To-tag to the final response; the ACK echoes it
    #[serde(default)]
    pub to_tag: bool,
    /// other requests arriving at the same endpoint while the foreground transaction is alive
    #[serde(default)]
    pub load: Option<Load>,
    /// branch parameter of the top Via of the request, its copies and the ACK: 0 with the magic cookie (RFC 3261
    /// matching by branch), 1 a token without the cookie, 2 no branch parameter (both: RFC 2543 matching by
    /// Call-ID / CSeq number / From-tag / To-tag / top Via, RFC 3261 17.2.3 second half)
    #[serde(default)]
    pub branch: u8,
    /// the request is an in-dialog one: it (and its copies and the ACK) carries a To-tag already, the response keeps
    /// it (`to_tag` is false then: an application does not re-tag a dialog)
    #[serde(default)]
    pub in_dialog: bool,
}

/// A burst of `n` background requests (each with its own branch and Call-ID) injected at `at` ms.
#[derive(Serialize, Deserialize, Clone, Debug, Hash, Default, PartialEq, Eq)]
pub struct Load {
    pub at: u64,
    pub n: u16,
    /// 0 INVITEs no layer takes (endpoint answers 481 and awaits the ACK inside the receive path),
    /// 1 OPTIONS no layer takes (481, returns at once), 2 INVITEs a layer rejects with 486 inline (awaits
    /// `respond_failure` in `Layer::receive`), 3 OPTIONS a layer works on inline for 20 s before answering 200,
    /// 4 mixture of the four by index
    pub kind: u8,
    /// the peer ACKs every background 3xx-6xx 200 ms after the burst (else never)
    pub acked: bool,
}

impl Load {
    fn kind_of(&self, i: usize) -> u8 {
        if self.kind >= 4 {
            (i % 4) as u8
        } else {
            self.kind
        }
    }
    /// how long (ms) the i-th background request keeps its receive task busy (by the RFC timers / the layer's
    /// own delay): used for class labels and non-triviality only, never for an expectation
    fn busy_ms(&self, i: usize) -> u64 {
        match self.kind_of(i) {
            0 | 2 => {
                if self.acked {
                    LOAD_ACK_DELAY
                } else {
                    TIMEOUT
                }
            }
            3 => LOAD_SLOW_MS,
            _ => 0,
        }
    }
    /// number of background requests still being worked on inside the receive path at instant `t`
    fn pending_at(&self, t: u64) -> usize {
        if t < self.at {
            return 0;
        }
        (0..self.n as usize).filter(|i| t < self.at + self.busy_ms(*i)).count()
    }
}

const LOAD_ACK_DELAY: u64 = 200;
const LOAD_SLOW_MS: u64 = 20_000;

fn src_of(case: &Case, i: usize) -> u8 {
    case.retrans_src.get(i).copied().unwrap_or(0)
}

fn faults_apply(case: &Case) -> bool {
    !case.invite
        && !case.reliable
        && !case.faults.is_empty()
        && case.retrans.iter().all(|t| *t > case.respond_at)
        // the fault plan counts the send calls of the whole world: only without background traffic
        && case.load.is_none()
}

/// Layer that records and hands every request to the test task
pub struct ChannelLayer {
    pub rec: Recorder,
    pub tx: mpsc::UnboundedSender<IncomingRequest>,
}

#[async_trait::async_trait]
impl Layer for ChannelLayer {
    fn name(&self) -> &'static str {
        "channel"
    }
    async fn receive(&self, _endpoint: &Endpoint, request: MayTake<'_, IncomingRequest>) {
        self.rec.note(0, &request);
        let _ = self.tx.send(request.take());
    }
}

/// The application of C06: takes the foreground call and hands it to the test task; background requests are
/// left alone (`bg-stray-*`), rejected inline (`bg-inline-*`) or worked on inline (`bg-slow-*`).
pub struct AppLayer {
    pub rec: Recorder,
    pub tx: mpsc::UnboundedSender<IncomingRequest>,
}

#[async_trait::async_trait]
impl Layer for AppLayer {
    fn name(&self) -> &'static str {
        "c06-app"
    }
    async fn receive(&self, endpoint: &Endpoint, request: MayTake<'_, IncomingRequest>) {
        let call_id = request.base_headers.call_id.0.to_string();
        if call_id == CALL_ID {
            self.rec.note(0, &request);
            let _ = self.tx.send(request.take());
        } else if call_id.starts_with("bg-inline-") {
            let mut req = request.take();
            if req.line.method == sip_types::Method::INVITE {
                let tsx = endpoint.create_server_inv_tsx(&mut req);
                let response = endpoint.create_response(&req, Code::from(486), None);
                let _ = tsx.respond_failure(response).await;
            }
        } else if call_id.starts_with("bg-slow-") {
            let mut req = request.take();
            if req.line.method != sip_types::Method::ACK {
                let tsx = endpoint.create_server_tsx(&mut req);
                tokio::time::sleep(std::time::Duration::from_millis(LOAD_SLOW_MS)).await;
                let response = endpoint.create_response(&req, Code::from(200), None);
                let _ = tsx.respond(response).await;
            }
        }
        // bg-stray-*: nobody wants it
    }
}

const CALL_ID: &str = "c06-call";

const FINALS: &[u16] = &[200, 302, 404, 486, 500, 603];

fn g_instants(respond_at: u64) -> Vec<u64> {
    let mut v: Vec<u64> = ref_tsx::server_inv_timer_g_schedule()
        .into_iter()
        .map(|g| respond_at + g)
        .collect();
    v.push(respond_at);
    v.push(respond_at + TIMEOUT);
    v
}

fn nudge(respond_at: u64, mut t: u64) -> u64 {
    let edges = g_instants(respond_at);
    t = t.max(1);
    while edges.contains(&t) {
        t += 1;
    }
    t
}

fn time_grid(respond_at: u64) -> Vec<u64> {
    let mut g = vec![1, respond_at.saturating_sub(1).max(1), respond_at + 1, respond_at + 250];
    for e in g_instants(respond_at) {
        g.push(e.saturating_sub(1).max(1));
        g.push(e + 1);
    }
    g.push(respond_at + TIMEOUT + T2 + 1);
    g.sort();
    g.dedup();
    g
}

fn src_sel() -> impl Strategy<Value = u8> {
    prop_oneof![3 => Just(0u8), 1 => Just(1u8), 1 => Just(2u8), 1 => Just(3u8)]
}

/// instants a burst of background requests is placed at: the start, the answer instant, and just before / on
/// (the burst is injected first) / well before every foreground arrival
fn load_instants(case: &Case) -> Vec<u64> {
    let mut v = vec![0, case.respond_at, case.respond_at + 1];
    for t in case.retrans.iter().copied().chain(case.ack_at) {
        v.push(t);
        v.push(t.saturating_sub(1));
        v.push(t.saturating_sub(50));
        v.push(t.saturating_sub(700));
    }
    v.sort();
    v.dedup();
    v
}

type LoadSel = (u16, u16, u64, bool, u8, bool);

fn load_sel(n: BoxedStrategy<u16>) -> impl Strategy<Value = LoadSel> {
    (
        n,
        any::<u16>(),
        0u64..3000,
        prop_oneof![4 => Just(false), 1 => Just(true)],
        prop_oneof![3 => Just(0u8), 1 => Just(1u8), 2 => Just(2u8), 2 => Just(3u8), 2 => Just(4u8)],
        prop_oneof![3 => Just(false), 1 => Just(true)],
    )
}

fn place_load(case: &Case, sel: LoadSel) -> Load {
    let (n, at_sel, at_rnd, use_rnd, kind, acked) = sel;
    let inst = load_instants(case);
    Load {
        at: if use_rnd { at_rnd } else { inst[pick_idx(at_sel, inst.len())] },
        n,
        kind,
        acked,
    }
}

fn base_strategy(load: BoxedStrategy<Option<LoadSel>>, force_event: bool) -> BoxedStrategy<Case> {
    (
        any::<bool>(),
        prop_oneof![3 => Just(false), 1 => Just(true)],
        any::<u16>(),
        0u8..3,
        prop_oneof![Just(0u64), Just(1u64), Just(100u64), 0u64..3000],
        prop::collection::vec((any::<u16>(), 0u64..40_000, any::<bool>()), 0..6),
        prop::option::of((any::<u16>(), 0u64..40_000, any::<bool>())),
        any::<bool>(),
        any::<u8>(),
        prop_oneof![3 => Just(vec![]), 2 => prop::collection::vec(0u8..5, 1..3)],
        (
            prop_oneof![2 => Just(0u8), 2 => Just(1u8), 1 => Just(2u8), 1 => Just(3u8)],
            prop::collection::vec(src_sel(), 6),
            src_sel(),
            any::<bool>(),
            load,
            prop_oneof![3 => Just(0u8), 1 => Just(1u8), 1 => Just(2u8)],
            prop_oneof![5 => Just(false), 1 => Just(true)],
        ),
    )
        .prop_map(
            move |(invite, mut reliable, csel, provisionals, respond_at, retr, ack, ack_same_branch, rng, mut faults, dims)| {
                let (via, mut retrans_src, ack_src, to_tag, load, branch, in_dialog) = dims;
                faults.sort();
                faults.dedup();
                let grid = time_grid(respond_at);
                let pick = |sel: u16, rnd: u64, use_rnd: bool| {
                    nudge(
                        respond_at,
                        if use_rnd { rnd } else { grid[pick_idx(sel, grid.len())] },
                    )
                };
                let mut retrans: Vec<u64> =
                    retr.into_iter().map(|(s, r, u)| pick(s, r, u)).collect();
                retrans.sort();
                retrans.dedup();
                let code = FINALS[pick_idx(csel, FINALS.len())];
                let mut ack_at = if invite {
                    ack.map(|(s, r, u)| pick(s, r, u).max(respond_at + 1))
                        .map(|t| nudge(respond_at, t))
                } else {
                    None
                };
                if let Some(a) = ack_at {
                    // keep ACK and retransmissions at distinct instants
                    let mut a2 = a;
                    while retrans.contains(&a2) || g_instants(respond_at).contains(&a2) {
                        a2 += 1;
                    }
                    ack_at = Some(a2);
                }
                if reliable {
                    // a reliable transport does not retransmit after the final response
                    retrans.retain(|t| *t < respond_at);
                }
                if force_event && retrans.is_empty() && ack_at.is_none() {
                    // a history without any later arrival cannot be disturbed by anything: give it one
                    if invite {
                        ack_at = Some(nudge(respond_at, respond_at + 100));
                    } else {
                        reliable = false;
                        retrans.push(nudge(respond_at, respond_at + 250));
                    }
                }
                retrans_src.truncate(retrans.len());
                while retrans_src.last() == Some(&0) {
                    retrans_src.pop();
                }
                let mut case = Case {
                    invite,
                    reliable,
                    code,
                    provisionals,
                    respond_at,
                    retrans,
                    ack_at,
                    ack_same_branch,
                    rng,
                    faults,
                    via,
                    retrans_src,
                    ack_src: if ack_at.is_some() { ack_src } else { 0 },
                    to_tag: to_tag && !in_dialog,
                    load: None,
                    branch,
                    in_dialog,
                };
                if let Some(sel) = load {
                    case.load = Some(place_load(&case, sel));
                }
                case
            },
        )
        .boxed()
}

/// the "random" sub-check: mostly no background load, sometimes a small burst
pub fn strategy() -> BoxedStrategy<Case> {
    base_strategy(
        prop_oneof![
            24 => Just(None),
            1 => load_sel((1u16..=12).boxed()).prop_map(Some),
        ]
        .boxed(),
        false,
    )
}

/// the "load" sub-check: (nearly) every case has a burst, sizes spread over three decades
/// (an Option, so that a failing case shrinks to one without burst when the burst has nothing to do with it)
pub fn load_strategy() -> BoxedStrategy<Case> {
    base_strategy(
        prop::option::weighted(
            0.98,
            load_sel(prop_oneof![1 => 1u16..10, 1 => 10u16..100, 2 => 100u16..=600].boxed()),
        )
        .boxed(),
        true,
    )
}

pub fn grid_cases(tier: Tier) -> Vec<Case> {
    let mut out = vec![];
    for invite in [false, true] {
        for reliable in [false, true] {
            for &code in &[200u16, 404, 603] {
                for respond_at in [0u64, 100] {
                    let grid = time_grid(respond_at);
                    // single retransmission at each grid instant
                    let mut patterns: Vec<Vec<u64>> = vec![vec![]];
                    for &t in &grid {
                        patterns.push(vec![nudge(respond_at, t)]);
                    }
                    if tier == Tier::Thorough {
                        for (i, &a) in grid.iter().enumerate() {
                            for &b in &grid[i + 1..] {
                                patterns.push(vec![nudge(respond_at, a), nudge(respond_at, b)]);
                            }
                        }
                    }
                    let acks: Vec<Option<u64>> = if invite {
                        let mut a = vec![None];
                        for &t in &grid {
                            if t > respond_at {
                                a.push(Some(nudge(respond_at, t)));
                            }
                        }
                        a
                    } else {
                        vec![None]
                    };
                    for p in &patterns {
                        for a in &acks {
                            if tier == Tier::Quick && !p.is_empty() && a.is_some() && p[0] % 3 != 0 {
                                // quick: thin out the retransmission x ACK product
                                continue;
                            }
                            let mut p = p.clone();
                            if reliable {
                                p.retain(|t| *t < respond_at);
                            }
                            let mut a = *a;
                            if let Some(at) = a {
                                let mut at = at;
                                while p.contains(&at) {
                                    at = nudge(respond_at, at + 1);
                                }
                                a = Some(at);
                            }
                            out.push(Case {
                                invite,
                                reliable,
                                code,
                                provisionals: (respond_at % 3) as u8,
                                respond_at,
                                retrans: p,
                                ack_at: a,
                                ack_same_branch: false,
                                rng: 0,
                                faults: vec![],
                                ..Default::default()
                            });
                        }
                    }
                }
            }
        }
    }
    // transient transport faults on re-sends of a non-INVITE final response
    for &code in &[200u16, 404] {
        for respond_at in [0u64, 100] {
            for provisionals in 0u8..2 {
                for faults in [vec![0u8], vec![1], vec![0, 1], vec![2], vec![0, 2]] {
                    for gap in [100u64, 7000] {
                        out.push(Case {
                            invite: false,
                            reliable: false,
                            code,
                            provisionals,
                            respond_at,
                            retrans: (1..=4).map(|i| nudge(respond_at, respond_at + i * gap)).collect(),
                            ack_at: None,
                            ack_same_branch: false,
                            rng: 0,
                            faults: faults.clone(),
                            ..Default::default()
                        });
                    }
                }
            }
        }
    }
    // where the later messages of the transaction come from x where the response went (Via shape)
    for reliable in [false, true] {
        for &code in &[200u16, 486] {
            for via in 0u8..4 {
                for src in 0u8..4 {
                    for respond_at in [0u64, 100] {
                        let to_tag = (via + src) % 2 == 1;
                        // INVITE: ACK soon after the answer / between two timer-G instants, alone or after a request copy
                        for ack_off in [100u64, 2 * T1 + 1] {
                            for with_copy in [false, true] {
                                let copy = !reliable && with_copy;
                                if with_copy && reliable {
                                    continue;
                                }
                                out.push(Case {
                                    invite: true,
                                    reliable,
                                    code,
                                    provisionals: 1,
                                    respond_at,
                                    retrans: if copy { vec![nudge(respond_at, respond_at + 50)] } else { vec![] },
                                    retrans_src: if copy && src != 0 { vec![src] } else { vec![] },
                                    ack_at: Some(nudge(respond_at, respond_at + ack_off)),
                                    ack_src: src,
                                    via,
                                    to_tag,
                                    ..Default::default()
                                });
                            }
                        }
                        // non-INVITE: copies of the request from that address, early and late in the 64*T1 window
                        if !reliable {
                            out.push(Case {
                                invite: false,
                                reliable,
                                code,
                                respond_at,
                                retrans: vec![
                                    nudge(respond_at, respond_at + 250),
                                    nudge(respond_at, respond_at + 7000),
                                    nudge(respond_at, respond_at + TIMEOUT - 2),
                                ],
                                retrans_src: vec![src, 0, src],
                                via,
                                to_tag,
                                ..Default::default()
                            });
                        }
                    }
                }
            }
        }
    }
    // how the later messages are matched to the transaction (no magic cookie: RFC 2543 fields) x which To-tag they carry
    for branch in 0u8..3 {
        for reliable in [false, true] {
            for &code in &[200u16, 302, 486] {
                // (the application tags the response, the request was tagged already)
                for (to_tag, in_dialog) in [(false, false), (true, false), (false, true)] {
                    if branch == 0 && !in_dialog {
                        continue; // enumerated above
                    }
                    for respond_at in [0u64, 100] {
                        for ack_off in [Some(100u64), Some(2 * T1 + 1), None] {
                            for with_copy in [false, true] {
                                if with_copy && reliable {
                                    continue;
                                }
                                out.push(Case {
                                    invite: true,
                                    reliable,
                                    code,
                                    provisionals: (respond_at % 3) as u8,
                                    respond_at,
                                    retrans: if with_copy { vec![nudge(respond_at, respond_at + 50)] } else { vec![] },
                                    ack_at: ack_off.map(|o| nudge(respond_at, respond_at + o)),
                                    ack_same_branch: with_copy,
                                    to_tag,
                                    in_dialog,
                                    branch,
                                    via: if with_copy { 1 } else { 0 },
                                    ..Default::default()
                                });
                            }
                        }
                        if !reliable {
                            out.push(Case {
                                invite: false,
                                reliable,
                                code,
                                respond_at,
                                retrans: vec![
                                    nudge(respond_at, respond_at + 250),
                                    nudge(respond_at, respond_at + 7000),
                                    nudge(respond_at, respond_at + TIMEOUT - 2),
                                    nudge(respond_at, respond_at + TIMEOUT + 2),
                                ],
                                to_tag,
                                in_dialog,
                                branch,
                                ..Default::default()
                            });
                        }
                    }
                }
            }
        }
    }
    // bursts of other requests while the foreground transaction waits for its ACK / absorbs request copies
    let sizes: &[u16] = if tier == Tier::Thorough { &[1, 10, 100, 250, 500, 1000, 2048] } else { &[1, 10, 100, 250, 500] };
    for &n in sizes {
        for kind in 0u8..5 {
            for acked in [false, true] {
                for shape in 0..3 {
                    let load = Some(Load { at: 10, n, kind, acked });
                    out.push(match shape {
                        0 | 1 => Case {
                            invite: true,
                            reliable: shape == 1,
                            code: 486,
                            ack_at: Some(100),
                            load,
                            ..Default::default()
                        },
                        _ => Case {
                            invite: false,
                            code: 200,
                            retrans: vec![501, 9000],
                            load,
                            ..Default::default()
                        },
                    });
                }
            }
        }
    }
    out.sort_by_key(|c| hash_of(c));
    out.dedup_by_key(|c| hash_of(c));
    out
}

#[derive(Debug, Clone)]
pub struct AppResult {
    pub t_ms: u64,
    pub what: String,
    pub ok: bool,
    pub msg: String,
}

pub struct Observed {
    /// messages of the foreground call on the wire
    pub wire: Vec<(Sent, Option<WireMsg>)>,
    /// messages of background calls on the wire: (total, of which not a response)
    pub bg_wire: (usize, usize),
    pub seen: Vec<Seen>,
    pub app: Vec<AppResult>,
    pub end_count: usize,
    pub failed_sends: usize,
    /// where the ACK was injected from
    pub ack_from: Option<SocketAddr>,
}

const BRANCH: &str = "z9hG4bKc06branch";
/// a branch as an RFC 2543 client may send it: any token, no magic cookie
const OLD_BRANCH: &str = "c06.old-branch.1";
/// To-tag of an in-dialog request
const DIALOG_TAG: &str = "c06dlgtag";
const PEER: &str = "192.0.2.9:5060";
const TO_TAG: &str = "c06uastag";

/// `branch`: None = the Via has no branch parameter
fn via_value(via: u8, branch: Option<&str>) -> String {
    let b = branch.map(|b| format!(";branch={b}")).unwrap_or_default();
    match via {
        1 => format!("SIP/2.0/UDP 192.0.2.9:5060;rport{b}"),
        2 => format!("SIP/2.0/UDP 192.0.2.9:5060;maddr=192.0.2.77{b}"),
        3 => format!("SIP/2.0/UDP 10.9.9.9:5060{b};rport"),
        _ => format!("SIP/2.0/UDP 192.0.2.9:5060{b}"),
    }
}

/// branch parameter of the foreground request (`ack2xx`: of an ACK for a 2xx that does not re-use it)
fn branch_of(kind: u8, ack2xx: bool) -> Option<String> {
    let base = match kind {
        0 => BRANCH,
        1 => OLD_BRANCH,
        _ => return None,
    };
    Some(if ack2xx { format!("{base}ack") } else { base.to_string() })
}

fn to_value(tag: Option<&str>) -> String {
    match tag {
        Some(t) => format!("<sip:uas@10.0.0.1>;tag={t}"),
        None => "<sip:uas@10.0.0.1>".to_string(),
    }
}

/// source address (and whether it arrives over the second transport object) of a later message
fn source(sel: u8) -> (SocketAddr, bool) {
    match sel {
        1 => ("192.0.2.9:49170".parse().unwrap(), false),
        2 => ("198.51.100.23:5060".parse().unwrap(), false),
        3 => ("192.0.2.9:40002".parse().unwrap(), true),
        _ => (PEER.parse().unwrap(), false),
    }
}

fn request_bytes(case: &Case) -> Vec<u8> {
    let m = if case.invite { "INVITE" } else { "OPTIONS" };
    request_text(
        m,
        "sip:uas@10.0.0.1",
        &[via_value(case.via, branch_of(case.branch, false).as_deref())],
        "<sip:peer@192.0.2.9>;tag=peerftag",
        &to_value(if case.in_dialog { Some(DIALOG_TAG) } else { None }),
        CALL_ID,
        11,
        m,
        &["Contact: <sip:peer@192.0.2.9>".to_string()],
        b"",
    )
}

/// the ACK: To-tag as in the final response (`seen_tag`: as read from the wire; when the response never reached the
/// wire, the tag the test knows it has), everything else as in the INVITE
fn ack_bytes(case: &Case, seen_tag: Option<Option<String>>) -> Vec<u8> {
    let same_branch = !(200..300).contains(&case.code) || case.ack_same_branch;
    let tag = seen_tag.unwrap_or_else(|| {
        if case.to_tag {
            Some(TO_TAG.to_string())
        } else if case.in_dialog {
            Some(DIALOG_TAG.to_string())
        } else {
            None
        }
    });
    let to = to_value(tag.as_deref());
    request_text(
        "ACK",
        "sip:uas@10.0.0.1",
        &[via_value(case.via, branch_of(case.branch, !same_branch).as_deref())],
        "<sip:peer@192.0.2.9>;tag=peerftag",
        &to,
        CALL_ID,
        11,
        "ACK",
        &[],
        b"",
    )
}

/// the i-th background request of a burst (or the ACK for its final response)
fn background_bytes(load: &Load, i: usize, ack: bool) -> Vec<u8> {
    let kind = load.kind_of(i);
    let method = if ack {
        "ACK"
    } else if kind == 0 || kind == 2 {
        "INVITE"
    } else {
        "OPTIONS"
    };
    let call = match kind {
        2 => format!("bg-inline-{i}"),
        3 => format!("bg-slow-{i}"),
        _ => format!("bg-stray-{i}"),
    };
    request_text(
        method,
        "sip:someone@10.0.0.1",
        &[format!("SIP/2.0/UDP 192.0.2.200:5060;branch=z9hG4bKbg{i}")],
        &format!("<sip:scanner@192.0.2.200>;tag=bg{i}"),
        "<sip:someone@10.0.0.1>",
        &call,
        1,
        method,
        &[],
        b"",
    )
}

fn contains(hay: &[u8], needle: &[u8]) -> bool {
    hay.windows(needle.len()).any(|w| w == needle)
}

fn tag_response(response: &mut sip_core::transport::OutgoingResponse) {
    let _ = response
        .msg
        .headers
        .edit(sip_types::Name::TO, |to: &mut sip_types::header::typed::FromTo| {
            to.tag = Some(TO_TAG.into());
        });
}

/// end of the observation (virtual ms)
fn horizon(case: &Case) -> u64 {
    case.retrans
        .iter()
        .copied()
        .chain(case.ack_at)
        .max()
        .unwrap_or(0)
        .max(case.respond_at + TIMEOUT + T2)
        + 2000
}

pub fn run(case: &Case) -> Observed {
    let case = case.clone();
    run_world(case.rng as u64, |clock| async move {
        let log = WireLog::new(clock);
        let (tp, _) = mock_datagram(&log, "UDP", false, case.reliable, "10.0.0.1:5060");
        // a second transport object of the same kind (another socket / another connection of the endpoint)
        let (tp2, _) = mock_datagram(&log, "UDP", false, case.reliable, "10.0.0.1:5070");
        let rec = Recorder::new(clock);
        let (tx, mut rx) = mpsc::unbounded_channel();
        let mut b = offline_builder();
        b.add_layer(AppLayer { rec: rec.clone(), tx });
        let endpoint = b.build();
        let peer: SocketAddr = PEER.parse().unwrap();
        let bg_peer: SocketAddr = "192.0.2.200:5060".parse().unwrap();
        let app: Arc<Mutex<Vec<AppResult>>> = Default::default();

        if faults_apply(&case) {
            // send calls so far: the provisionals and the final response itself
            log.fail_calls(case.faults.iter().map(|i| case.provisionals as usize + 1 + *i as usize));
        }
        let req_bytes = request_bytes(&case);
        inject(&endpoint, &tp, peer, &req_bytes);
        settle().await;

        let mut held: Vec<IncomingRequest> = vec![];
        if let Ok(mut req) = rx.try_recv() {
            let endpoint2 = endpoint.clone();
            let app2 = app.clone();
            let case2 = case.clone();
            tokio::spawn(async move {
                let log_res = |what: &str, r: Result<(), String>| {
                    app2.lock().push(AppResult {
                        t_ms: clock.now_ms(),
                        what: what.to_string(),
                        ok: r.is_ok(),
                        msg: r.err().unwrap_or_default(),
                    })
                };
                if case2.invite {
                    let mut tsx = endpoint2.create_server_inv_tsx(&mut req);
                    for i in 0..case2.provisionals {
                        let mut r = endpoint2.create_response(
                            &req,
                            Code::from(if i == 0 { 100 } else { 180 }),
                            None,
                        );
                        let res = tsx.respond_provisional(&mut r).await;
                        log_res("provisional", res.map_err(|e| e.to_string()));
                    }
                    clock.until(case2.respond_at).await;
                    let mut response = endpoint2.create_response(&req, Code::from(case2.code), None);
                    if case2.to_tag {
                        tag_response(&mut response);
                    }
                    if (200..300).contains(&case2.code) {
                        let res = tsx.respond_success(response).await;
                        match res {
                            Ok(accepted) => {
                                log_res("final", Ok(()));
                                // the TU keeps the Accepted state alive
                                std::future::pending::<()>().await;
                                drop(accepted);
                            }
                            Err(e) => log_res("final", Err(e.to_string())),
                        }
                    } else {
                        let res = tsx.respond_failure(response).await;
                        log_res("final", res.map_err(|e| e.to_string()));
                    }
                } else {
                    let mut tsx = endpoint2.create_server_tsx(&mut req);
                    for i in 0..case2.provisionals {
                        let mut r = endpoint2.create_response(
                            &req,
                            Code::from(if i == 0 { 100 } else { 180 }),
                            None,
                        );
                        let res = tsx.respond_provisional(&mut r).await;
                        log_res("provisional", res.map_err(|e| e.to_string()));
                    }
                    clock.until(case2.respond_at).await;
                    let mut response = endpoint2.create_response(&req, Code::from(case2.code), None);
                    if case2.to_tag {
                        tag_response(&mut response);
                    }
                    let res = tsx.respond(response).await;
                    log_res("final", res.map_err(|e| e.to_string()));
                }
                drop(req);
            });
        }
        settle().await;

        // (time, order within the instant, kind, index): a burst goes first within its instant
        let mut events: Vec<(u64, u8, u8, usize)> =
            case.retrans.iter().enumerate().map(|(i, t)| (*t, 2u8, 0u8, i)).collect();
        if let Some(a) = case.ack_at {
            events.push((a, 2, 1, 0));
        }
        if let Some(l) = &case.load {
            events.push((l.at, 0, 2, 0));
            if l.acked {
                events.push((l.at + LOAD_ACK_DELAY, 1, 3, 0));
            }
        }
        events.sort();
        let mut ack_from = None;
        for (t, _, kind, idx) in events {
            clock.until(t).await;
            match kind {
                0 => {
                    let (src, other_tp) = source(src_of(&case, idx));
                    inject(&endpoint, if other_tp { &tp2 } else { &tp }, src, &req_bytes);
                }
                1 => {
                    // the peer echoes the To-tag of the final response it got
                    let seen_tag = log
                        .snapshot()
                        .iter()
                        .filter(|s| contains(&s.bytes, CALL_ID.as_bytes()))
                        .filter_map(|s| WireMsg::parse(&s.bytes))
                        .find(|m| m.status() == Some(case.code))
                        .map(|m| m.to_tag().map(|t| t.to_string()));
                    let ack = ack_bytes(&case, seen_tag);
                    let (src, other_tp) = source(case.ack_src);
                    ack_from = Some(src);
                    inject(&endpoint, if other_tp { &tp2 } else { &tp }, src, &ack);
                }
                _ => {
                    let l = case.load.as_ref().unwrap();
                    for i in 0..l.n as usize {
                        let k = l.kind_of(i);
                        if kind == 3 && !(k == 0 || k == 2) {
                            continue;
                        }
                        inject(&endpoint, &tp, bg_peer, &background_bytes(l, i, kind == 3));
                    }
                }
            }
            settle().await;
            // later arrivals that open a new transaction are taken and held by the test (never answered)
            while let Ok(r) = rx.try_recv() {
                if r.line.method == sip_types::Method::ACK {
                    drop(r); // an application consumes an ACK, it does not keep it
                } else {
                    held.push(r);
                }
            }
        }
        clock.until(horizon(&case)).await;
        settle().await;
        drop(held);
        settle().await;
        let end_count = endpoint.verif_counts().0;
        let app_out = app.lock().clone();
        let mut wire = vec![];
        let mut bg_wire = (0usize, 0usize);
        for s in log.snapshot() {
            if contains(&s.bytes, CALL_ID.as_bytes()) {
                let m = WireMsg::parse(&s.bytes);
                wire.push((s, m));
            } else {
                bg_wire.0 += 1;
                if !s.bytes.starts_with(b"SIP/2.0 ") || !contains(&s.bytes, b"bg-") {
                    bg_wire.1 += 1;
                }
            }
        }
        Observed {
            wire,
            bg_wire,
            seen: rec.snapshot(),
            app: app_out,
            end_count,
            failed_sends: log.failed_sends().len(),
            ack_from,
        }
    })
}

pub fn check(case: &Case, out: &mut CaseOut) {
    let obs = run(case);
    let kind = if case.invite { "invite" } else { "non-invite" };
    let success = (200..300).contains(&case.code);
    let ra = case.respond_at;

    out.class(kind);
    out.class(if case.reliable { "reliable" } else { "unreliable" });
    out.class(if success { "2xx" } else { "3xx-6xx" });

    // circumstances of the history that must not matter; they qualify the signature of what failed
    let first_dest = obs
        .wire
        .iter()
        .find(|(_, m)| m.as_ref().and_then(|m| m.status()) == Some(case.code))
        .map(|(s, _)| s.dest);
    let ack_elsewhere = case.ack_at.is_some()
        && (case.ack_src == 3
            || match (obs.ack_from, first_dest) {
                (Some(a), Some(d)) => a != d,
                _ => case.ack_src != 0 || case.via == 2,
            });
    let copy_elsewhere = (0..case.retrans.len()).any(|i| src_of(case, i) != 0);
    // suffix for a failure whose first discrepancy is at `first_bad` ms: a circumstance is named only when it can
    // have to do with it (the ACK / the request copy concerned came from elsewhere; the burst was there before)
    // (`matched`: the failure is about a later message of the peer, ACK or request copy, i.e. about matching)
    let qual4 = |ack: bool, copy: bool, matched: bool, first_bad: u64| -> String {
        format!(
            "{}{}{}{}",
            if ack && ack_elsewhere { "+ack-other-addr" } else { "" },
            if copy { "+copy-other-addr" } else { "" },
            if matched && case.branch != 0 { "+no-cookie-branch" } else { "" },
            if case.load.as_ref().map_or(false, |l| l.n > 0 && l.at <= first_bad) { "+load" } else { "" }
        )
    };
    let qual = |ack: bool, copy: bool, first_bad: u64| qual4(ack, copy, ack || copy, first_bad);
    let copy_src_at = |t: u64| case.retrans.iter().position(|r| *r == t).map_or(0, |i| src_of(case, i));
    if obs.bg_wire.1 > 0 {
        out.fail(
            "c06.wire/background-unexpected-message",
            format!("{} of {} messages of the background calls are not responses", obs.bg_wire.1, obs.bg_wire.0),
        );
    }

    // wire: responses by status
    let mut prov_sends = vec![];
    let mut final_sends: Vec<&Sent> = vec![];
    let mut other = 0;
    for (s, m) in &obs.wire {
        match m.as_ref().and_then(|m| m.status()) {
            Some(c) if c < 200 => prov_sends.push(s.t_ms),
            Some(c) if c == case.code => final_sends.push(s),
            _ => other += 1,
        }
    }
    let final_times: Vec<u64> = final_sends.iter().map(|s| s.t_ms).collect();
    out.note = Some(format!(
        "final_sends@{final_times:?} provisional_sends@{prov_sends:?} app={:?} layer_seen={:?}",
        obs.app
            .iter()
            .map(|a| format!("{}@{}:{}", a.what, a.t_ms, if a.ok { "ok".into() } else { a.msg.clone() }))
            .collect::<Vec<_>>(),
        obs.seen.iter().map(|s| format!("{}@{}", s.method, s.t_ms)).collect::<Vec<_>>()
    ));
    if other > 0 {
        out.fail(format!("c06.wire/{kind}-unexpected-message"), format!("{other} unexpected messages on the wire"));
    }

    // provisionals: once per call (at t=0)
    if prov_sends.len() != case.provisionals as usize || prov_sends.iter().any(|t| *t != 0) {
        out.fail(
            format!("c06.provisional/{kind}"),
            format!("{} provisional calls at 0 ms produced sends at {prov_sends:?}", case.provisionals),
        );
    }

    // expected transmissions of the final response
    let queued_before: usize = case.retrans.iter().filter(|t| **t < ra).count();
    let end_of_life = if case.invite && !success {
        match case.ack_at {
            Some(a) if a < ra + TIMEOUT => a,
            _ => ra + TIMEOUT,
        }
    } else {
        ra + TIMEOUT
    };
    let mut want: Vec<u64> = vec![ra];
    if !case.reliable {
        if case.invite && !success {
            for g in ref_tsx::server_inv_timer_g_schedule() {
                if ra + g < end_of_life {
                    want.push(ra + g);
                }
            }
            want.extend(case.retrans.iter().copied().filter(|t| *t > ra && *t < end_of_life));
        } else if !case.invite {
            want.extend(case.retrans.iter().copied().filter(|t| *t > ra && *t < end_of_life));
        }
        // INVITE 2xx: retransmission is the TU's job (Accepted), none by the transaction
    }
    want.sort();
    if faults_apply(case) {
        // the re-sends hit by a transient transport fault never reach the wire; every other one still must
        let mut i = 0usize;
        let mut kept = vec![];
        for (k, t) in want.iter().enumerate() {
            if k == 0 {
                kept.push(*t);
                continue;
            }
            if !case.faults.contains(&(i as u8)) {
                kept.push(*t);
            }
            i += 1;
        }
        let hit = want.len() - kept.len();
        want = kept;
        if obs.failed_sends != hit {
            out.fail("c06.harness/fault-plan-mismatch", format!("{} sends failed, plan expected {hit}", obs.failed_sends));
        }
        if hit > 0 {
            out.class("re-send hit by a transient transport fault");
        }
    }
    // retransmissions that arrived before the final response may (queued in the transaction) trigger
    // extra copies at the instant of the final: tolerated, 0..=queued_before extra at `ra`
    let mut got = final_times.clone();
    let mut extra_at_ra = 0;
    while got.iter().filter(|t| **t == ra).count() > 1 && extra_at_ra < queued_before {
        let i = got.iter().position(|t| *t == ra).unwrap();
        got.remove(i);
        extra_at_ra += 1;
    }
    got.sort();
    // INVITE 3xx-6xx without ACK: between 64*T1 and the moment the timeout is reported (<= 64*T1+T2 later)
    // the transaction object may still exist; what happens to a request copy arriving there is not asserted
    let fuzzy = |t: u64| {
        case.invite && !success && !case.reliable && t > ra + TIMEOUT && t <= ra + TIMEOUT + T2
            && case.ack_at.map_or(true, |a| a > ra + TIMEOUT)
    };
    got.retain(|t| !(fuzzy(*t) && case.retrans.contains(t)));
    if got != want {
        let locus = if !got.contains(&ra) {
            "first-transmission-not-immediate"
        } else if case.reliable {
            "reliable-retransmits"
        } else if got.iter().any(|t| *t >= end_of_life && *t > ra) {
            "sent-after-end"
        } else {
            "retransmission-schedule"
        };
        // symmetric difference of expected and observed instants
        let mut extra = got.clone();
        let mut missing = vec![];
        for t in &want {
            match extra.iter().position(|g| g == t) {
                Some(i) => {
                    extra.remove(i);
                }
                None => missing.push(*t),
            }
        }
        let first_bad = extra.iter().chain(missing.iter()).copied().min().unwrap_or(ra);
        let after_ack = case.invite && !success && case.ack_at == Some(end_of_life) && extra.iter().any(|t| *t >= end_of_life);
        let copy_unanswered = missing.iter().any(|t| copy_src_at(*t) != 0);
        let about_copy = missing.iter().chain(extra.iter()).any(|t| case.retrans.contains(t));
        let q = qual4(after_ack, copy_unanswered, after_ack || about_copy, first_bad);
        out.fail(
            format!("c06.final/{kind}-{locus}{q}"),
            format!(
                "final response transmissions expected at {want:?}, observed {final_times:?} (respond_at={ra}, end={end_of_life}, request copies from {:?}, ACK from {:?}, response sent to {first_dest:?}, background {:?})",
                (0..case.retrans.len()).map(|i| source(src_of(case, i)).0).collect::<Vec<_>>(),
                obs.ack_from,
                case.load
            ),
        );
    }
    if let Some(first) = final_sends.first() {
        if final_sends.iter().any(|s| s.bytes != first.bytes || s.dest != first.dest) {
            out.fail(format!("c06.identical/{kind}"), "a retransmitted response differs from the first transmission");
        }
    }

    // result of the respond call
    let fin: Vec<&AppResult> = obs.app.iter().filter(|a| a.what == "final").collect();
    if case.invite && !success {
        let acked = case.ack_at.filter(|a| *a < ra + TIMEOUT);
        match (acked, fin.first()) {
            (Some(a), Some(r)) => {
                if !(r.ok && r.t_ms == a) {
                    out.fail(
                        format!("c06.result/invite-failure-acked{}", qual(true, false, a)),
                        format!(
                            "ACK at {a} ms from {:?} (response went to {first_dest:?}, background {:?}): respond_failure returned ok={} at {} ms ({})",
                            obs.ack_from, case.load, r.ok, r.t_ms, r.msg
                        ),
                    );
                }
            }
            (Some(a), None) => out.fail(
                format!("c06.result/invite-failure-acked{}", qual(true, false, a)),
                format!(
                    "ACK at {a} ms from {:?} (response went to {first_dest:?}, background {:?}) but respond_failure never returned",
                    obs.ack_from, case.load
                ),
            ),
            (None, Some(_)) if case.ack_at.map_or(false, |a| fuzzy(a)) => {}
            (None, Some(r)) => {
                let lo = ra + TIMEOUT;
                let hi = ra + TIMEOUT + T2;
                if case.reliable {
                    // reliable without ACK: only "no success without ACK" is asserted
                    if r.ok && case.ack_at.map_or(true, |a| r.t_ms != a) {
                        out.fail("c06.result/invite-failure-reliable", format!("respond_failure returned Ok at {} ms without ACK", r.t_ms));
                    }
                } else if r.ok || !r.msg.contains("timed out") || r.t_ms < lo || r.t_ms > hi {
                    out.fail(
                        "c06.result/invite-failure-timeout",
                        format!("no ACK: expected RequestTimedOut within [{lo},{hi}] ms, got ok={} at {} ms ({})", r.ok, r.t_ms, r.msg),
                    );
                }
            }
            (None, None) => {
                if !case.reliable {
                    out.fail("c06.result/invite-failure-timeout", "no ACK: respond_failure never returned");
                }
            }
        }
    } else {
        match fin.first() {
            Some(r) if r.ok && r.t_ms == ra => {}
            Some(r) => out.fail(
                format!("c06.result/{kind}-final"),
                format!("respond returned ok={} at {} ms ({}), expected Ok at {ra}", r.ok, r.t_ms, r.msg),
            ),
            None => out.fail(format!("c06.result/{kind}-final"), "respond never returned"),
        }
    }

    // what the layers saw
    let method = if case.invite { "INVITE" } else { "OPTIONS" };
    let seen_req: Vec<u64> = obs.seen.iter().filter(|s| s.method == method).map(|s| s.t_ms).collect();
    let seen_ack: Vec<u64> = obs.seen.iter().filter(|s| s.method == "ACK").map(|s| s.t_ms).collect();
    let mut want_seen = vec![0u64];
    if !case.invite && !case.reliable {
        // transaction is gone 64*T1 after the final response: the same request starts a new one
        if let Some(t) = case.retrans.iter().copied().find(|t| *t > ra + TIMEOUT) {
            want_seen.push(t);
            // (the test holds that second request without answering, so later copies are absorbed again)
        }
    }
    let mut seen_req = seen_req;
    if case.invite && !success {
        // after the transaction ended (ACK, or timeout) the same request starts a new transaction;
        // RFC timer I (T4 after the ACK) and the fuzzy timeout window are not asserted
        let end = match case.ack_at {
            Some(a) if a < ra + TIMEOUT => a,
            _ => ra + TIMEOUT,
        };
        let unasserted = |t: u64| {
            (case.ack_at == Some(end) && t > end && t <= end + crate::refmodel::ref_tsx::T4) || fuzzy(t)
        };
        let first_new = case.retrans.iter().copied().find(|t| *t > end && !case.reliable);
        match first_new {
            Some(t) if unasserted(t) => {
                // either absorbed or shown: accept what was observed for this and later copies
                want_seen = seen_req.clone();
                if seen_req.first() != Some(&0) {
                    want_seen = vec![0];
                }
            }
            Some(t) => want_seen.push(t),
            None => {}
        }
        seen_req.dedup();
    }
    if seen_req != want_seen {
        // first instant at which the two lists differ
        let first_bad = seen_req
            .iter()
            .zip(want_seen.iter())
            .find(|(a, b)| a != b)
            .map(|(a, b)| *a.min(b))
            .or_else(|| seen_req.get(want_seen.len()).copied())
            .or_else(|| want_seen.get(seen_req.len()).copied())
            .unwrap_or(0);
        let q_all = qual4(false, copy_src_at(first_bad) != 0, case.retrans.contains(&first_bad), first_bad);
        out.fail(
            if seen_req.len() > want_seen.len() {
                format!("c06.layers/{kind}-retransmission-shown-again{q_all}")
            } else {
                format!("c06.layers/{kind}-not-shown-after-end{q_all}")
            },
            format!("request shown to layers at {seen_req:?}, expected {want_seen:?}"),
        );
    }
    let want_ack: Vec<u64> = match case.ack_at {
        Some(a) if success => vec![a],
        Some(a) if !case.reliable && a > ra + TIMEOUT => vec![a], // transaction timed out before: stray ACK reaches the layers
        _ => vec![],
    };
    let ack_after_end = !success && case.ack_at.map_or(false, |a| a > ra + TIMEOUT);
    if case.invite && !ack_after_end && seen_ack != want_ack && !(case.reliable && !success && case.ack_at.map_or(false, |a| a > ra + TIMEOUT)) {
        out.fail(
            if success {
                format!("c06.layers/ack-for-2xx-not-surfaced{}", qual(true, false, case.ack_at.unwrap_or(0)))
            } else {
                format!("c06.layers/ack-for-failure-surfaced{}", qual(true, false, case.ack_at.unwrap_or(0)))
            },
            format!("ACK shown to layers at {seen_ack:?}, expected {want_ack:?}"),
        );
    }

    // non-triviality
    let timer_retrans = want.len() > 1 || obs.failed_sends > 0;
    let ack_near_edge = case.ack_at.map_or(false, |a| g_instants(ra).iter().any(|e| a.abs_diff(*e) <= 1));
    if !case.retrans.is_empty() {
        out.class("request-retransmission");
    }
    if timer_retrans {
        out.class("response-retransmission-expected");
    }
    if ack_near_edge {
        out.class("ack-within-1ms-of-G/H-edge");
    }
    if case.ack_at.is_none() && case.invite && !success {
        out.class("ack-lost");
    }
    match case.via {
        1 => out.class("via:rport"),
        2 => out.class("via:maddr (response does not go to the source of the request)"),
        3 => out.class("via:private sent-by + rport (NAT)"),
        _ => {}
    }
    if case.to_tag {
        out.class("to-tag added by the application");
    }
    match case.branch {
        0 => {}
        1 => out.class("branch without the magic cookie (RFC 2543 matching)"),
        _ => out.class("no branch parameter (RFC 2543 matching)"),
    }
    if case.in_dialog {
        out.class("in-dialog request (To-tag in the request)");
    }
    // the later messages the transaction has to recognise without a cookie branch
    let old_ack_failure = case.branch != 0 && !success && case.ack_at.map_or(false, |a| a < ra + TIMEOUT);
    let old_copy = case.branch != 0 && case.retrans.iter().any(|t| *t > ra && *t < end_of_life);
    if old_ack_failure {
        out.class(if case.to_tag {
            "RFC 2543 matching: ACK for 3xx-6xx with a To-tag the INVITE did not have"
        } else if case.in_dialog {
            "RFC 2543 matching: ACK for 3xx-6xx, To-tag as in the INVITE"
        } else {
            "RFC 2543 matching: ACK for 3xx-6xx, no To-tag"
        });
    }
    if case.branch != 0 && success && case.ack_at.is_some() {
        out.class("RFC 2543 matching: ACK for 2xx");
    }
    if old_copy {
        out.class("RFC 2543 matching: request copy after the final response");
    }
    if ack_elsewhere {
        out.class("ack does not come from the address the response went to");
        if !success {
            out.class(if case.reliable {
                "ack for 3xx-6xx from elsewhere, reliable"
            } else {
                "ack for 3xx-6xx from elsewhere, unreliable"
            });
        }
    }
    if case.ack_at.is_some() && case.ack_src == 3 {
        out.class("ack over another transport object");
    }
    if copy_elsewhere {
        out.class("request copy from another address / transport");
    }
    // background requests still inside the receive path when a foreground message arrives
    let mut pending_max = 0usize;
    if let Some(l) = &case.load {
        out.class(match l.n {
            0..=9 => "load:1-9",
            10..=99 => "load:10-99",
            100..=299 => "load:100-299",
            _ => "load:300+",
        });
        out.class(match l.kind {
            0 => "load kind: INVITEs nobody takes",
            1 => "load kind: OPTIONS nobody takes",
            2 => "load kind: INVITEs rejected inline by a layer",
            3 => "load kind: slow inline layer",
            _ => "load kind: mixture",
        });
        for t in case.retrans.iter().copied().chain(case.ack_at) {
            // arrivals that the foreground transaction is still expected to react to
            if t > ra && t <= end_of_life {
                pending_max = pending_max.max(l.pending_at(t));
            }
        }
        match pending_max {
            0 => {}
            1..=99 => out.class("foreground arrival while 1-99 background requests are in the receive path"),
            _ => out.class("foreground arrival while 100+ background requests are in the receive path"),
        }
        // every background request is answered at least once (481 / 486 / 200; the slow ones after 20 s) unless the
        // run ends before: shows that the burst did what the generator claims (a label, not an assertion)
        let due = (0..l.n as usize)
            .filter(|i| l.at + if l.kind_of(*i) == 3 { LOAD_SLOW_MS } else { 0 } < horizon(case))
            .count();
        out.class(if obs.bg_wire.0 >= due {
            "load: every background request answered"
        } else {
            "load: background requests left unanswered"
        });
    }
    let elsewhere_matters = (ack_elsewhere && !success) || copy_elsewhere;
    if !case.retrans.is_empty() || timer_retrans || ack_near_edge || elsewhere_matters || pending_max > 0 || old_ack_failure {
        out.nontrivial(case);
    }
    let _ = obs.end_count;
}

pub fn property() -> Property {
    Property {
        fuzz: vec![],
        id: "C06",
        rule: "cases = (INVITE|non-INVITE) x (reliable|unreliable) x final status x 0..2 provisionals x answer delay x arrival instants of request retransmissions and of the ACK (grid = +-1 ms around every timer-G instant, the answer instant and 64*T1; random otherwise) x transient send faults on chosen re-sends of a non-INVITE final response x top-Via shape (plain, rport, maddr, private sent-by + rport) x source of every request copy and of the ACK (same socket address, other port, other host, other transport object) x To-tag added by the application (the ACK echoes the To-tag of the response on the wire) x in-dialog request (To-tag in the request) x transaction identification (cookie branch | branch without cookie | no branch: RFC 2543 matching) x a burst of 1..600 (thorough grid: 2048) other requests on the same endpoint (nobody takes them / rejected inline by a layer / worked on inline for 20 s / mixture; their failures ACKed after 200 ms or never) placed at, just before or well before a foreground arrival, under a paused clock. Non-trivial = at least one request retransmission, or at least one timer retransmission expected, or an ACK within 1 ms of a G/H edge, or an ACK for a 3xx-6xx / a request copy that does not come from the address the response went to, or an ACK for a 3xx-6xx that has to be matched without a cookie branch, or a foreground arrival while background requests are inside the receive path; distinct by hash of the case.",
        assumptions: vec![
            "timers run on tokio's paused clock (hook H2); mock transport sends complete instantly; transient send faults are injected only into re-sends of a non-INVITE final response and only without background load",
            "arrivals exactly on a timer instant are excluded (tie is a don't-care)",
            "request retransmissions that arrive before the final response may produce extra copies at the answer instant (tolerated: statement silent)",
            "no request retransmissions are generated after the final response on reliable transports",
            "without the magic cookie a message belongs to the transaction by the second half of RFC 3261 17.2.3; the generated peer keeps Request-URI, Call-ID, From, CSeq number and the whole top Via equal in the request, its copies and the ACK, and gives the ACK the To header of the final response, so it matches under every reading of that rule; messages that differ in one of those fields are not generated",
            "a message belongs to the transaction by RFC 3261 17.2.3 (branch, sent-by, method): its source address / the transport object it arrives over is free; the destination of the response is not asserted (C09), only that re-sends go where the first transmission went",
            "background requests have their own branch and Call-ID; nothing is asserted about them except that what they put on the wire are responses; a signature suffix (+ack-other-addr, +copy-other-addr, +no-cookie-branch, +load) names the circumstances of the failing case, the shrunk replay keeps only those that are needed",
        ],
        explanation: "grid sub-check enumerates single (thorough: pairs of) retransmission instants x ACK instants over the edge grid, Via shape x source of ACK / request copies x reliability, transaction identification (cookie / no cookie / no branch) x who put the To-tag (nobody / application / the dialog) x status x ACK instant (or none) x request copy, and bursts of 1..500 (thorough 2048) x kind x ACKed-or-not against three foreground histories; random sub-check samples longer patterns with all dimensions mixed (small bursts in 4% of the cases); load sub-check samples the same space with a burst in every case (sizes 1-9, 10-99, 100-600) and at least one later foreground arrival",
        subs: vec![
            enum_sub("grid", grid_cases, check),
            prop_sub("random", strategy, 6000, 60000, check),
            prop_sub("load", load_strategy, 60, 1200, check),
        ],
    }
}
