//! C02 — No network input can panic or hang the receive path
//!
//! Sub-checks (all sampled; the oracle everywhere is the engine's panic capture over every task of the case's world
//! plus "valid traffic after the hostile input is still answered"; `hostile` and `uac_session_life` additionally run
//! under the spin guard: no task may be polled again and again while virtual time stands still = "never loop forever"):
//! * `hostile` — one hostile input (structured mutations of valid messages / byte mutations / noise) through the
//!   datagram parser, every typed decoder, the stream decoder and the whole receive path of a UAS endpoint
//!   (DialogLayer + InviteLayer + an application), outside a dialog or inside the dialog of a call set up before
//!   (established / before the ACK / INVITE still pending). Varied besides the input: the transport that carries the
//!   case (datagram, or a connection = reliable transport, in random segments; an in-dialog case may run its whole call
//!   over the connection), what the application does with an INVITE / re-INVITE (accept; accept both; reject at once
//!   with a 3xx-6xx; ring then reject through `Acceptor`; not interested = the endpoint's own 481), and what the peer
//!   does with a 3xx-6xx to its INVITE (ACK after 50 ms / 700 ms / 5 s / 33 s, or never), how long a `send` of the
//!   datagram transport stays pending (0 / 1 / 7 / 20 / 60 ms of virtual time: other tasks run while a response is being
//!   written), and whether the peer sends the very same datagram again (retransmission / duplicate / replay): 0..3
//!   more copies, each at a timer edge of the transaction the input may have started (same instant, T1 and its
//!   doublings, T4, 63..65*T1, 64*T1 = end of the window in which a completed server transaction absorbs
//!   retransmissions, 64*T1+T4) displaced by -1 / 0 / +1 ms or by -70..+130 ms (a few send durations, so that a copy
//!   is handled ACROSS the edge: it arrives before, its answer is on its way when the timer fires). The structured inputs include
//!   SIP URIs in rare grammar-derived forms (RFC 3261 25.1: user, user:password, %XX escapes in every component that
//!   admits them, IPv6 hosts, ports, uri-parameters, headers) in the request line, From / To / Contact / Route /
//!   Record-Route, escapes and quoted strings in header parameters, and a CANCEL of the pending INVITE. The world then
//!   runs 40 s, or (`long_life`) 1900 s so that the 1800 s session timer of the set-up call expires and the session
//!   ends itself.
//! * `uac_hostile_responses` — hostile header values in the responses to an INVITE sent through `Initiator`
//!   (C13's world; the application is handed early dialogs / sessions and does nothing with them).
//! * `uac_session_life` — the same UAC side, but the application USES what it was handed: every `Session` (directly
//!   from a 2xx or through its early dialog) is driven with the default handling of each event while the values the
//!   peer put into the 2xx take effect. Generated: history shape (2xx first / 18x then 2xx of the same fork / two
//!   forks / failure), a `Session-Expires` line = name spelling x delta (0, 1..22, 30..91, 1800, u32::MAX-10.., not a
//!   u32) x parameter shape (none, refresher=uac|uas, empty / unknown / other-case value, other parameters only,
//!   twice, odd syntax) with or without `Require: timer` / `Supported`, further hostile headers; how `Initiator` is
//!   configured (timer support, Session-Expires asked for); what the peer does with the requests ezk sends inside the
//!   dialog when the timer fires (silence or a delayed response, possibly hostile); requests of the peer inside the
//!   dialog (BYE / re-INVITE / UPDATE / others, CSeq up to u32::MAX+1, hostile headers, ACK or not); whether the
//!   application answers a re-INVITE, how many events it handles, whether and when it hangs up; 0.9 s .. 1900 s of
//!   virtual time. Not asserted: which event the application gets, what goes over the wire, when (C13 / C17).
//!
//! Not asserted anywhere: that a hostile message is answered, with what, or what the application is told.

use super::c03::{decode_stream, hex_bytes};
use crate::engine::*;
use crate::world::stream::*;
use crate::world::*;
use proptest::prelude::*;
use serde::{Deserialize, Serialize};
use sip_core::transport::{parse_complete, CompleteItem};
use sip_core::{Endpoint, IncomingRequest, Layer, LayerKey, MayTake};
use sip_types::header::typed::*;
use sip_types::uri::sip::SipUri;
use sip_types::uri::NameAddr;
use sip_types::{Code, Headers, Method, Name};
use sip_ua::dialog::{Dialog, DialogLayer};
use sip_ua::invite::acceptor::Acceptor;
use sip_ua::invite::session::Event as SessionEvent;
use sip_ua::invite::InviteLayer;
use std::collections::BTreeMap;
use std::net::SocketAddr;

#[derive(Serialize, Deserialize, Clone, Debug, Hash)]
pub struct Case {
    #[serde(with = "hex_bytes")]
    pub bytes: Vec<u8>,
    /// which hostile features the generator put in (for the evidence histogram)
    pub labels: Vec<String>,
    /// deliver over a stream connection with these cut selectors (None = one datagram)
    pub stream_cuts: Option<Vec<u16>>,
    /// first establish a call, then deliver the input inside that dialog ("sometag" is replaced by the dialog's tag)
    #[serde(default)]
    pub in_dialog: bool,
    /// with in_dialog: deliver while the INVITE is still pending (application waits for the PRACK of its
    /// reliable 183) instead of after the call is established
    #[serde(default)]
    pub early: bool,
    /// with in_dialog (and not early): deliver after the application sent its 200 but before the peer's ACK
    #[serde(default)]
    pub before_ack: bool,
    /// with in_dialog: the world runs 1900 s of virtual time instead of 40 s after the input, so the session timer the
    /// application armed for the call (1800 s, peer refreshes) expires and the session ends itself with a BYE
    #[serde(default)]
    pub long_life: bool,
    /// what the application does with an INVITE / a re-INVITE (index into `APP_POLICIES`; 0 = accept every INVITE and
    /// let go of re-INVITEs, the only behaviour before this field existed)
    #[serde(default)]
    pub app: u8,
    /// the peer acknowledges every 3xx-6xx final response to an INVITE this many ms after the hostile input was
    /// delivered (None = never: a hostile or vanished peer)
    #[serde(default)]
    pub peer_ack_ms: Option<u64>,
    /// every `send` of the datagram transport stays pending this many ms of virtual time after the bytes went out
    /// (a socket whose buffer is full, a slow interface); 0 = instantaneous, the only behaviour before this field existed
    #[serde(default)]
    pub send_ms: u64,
    /// datagram delivery only: the peer sends the very same datagram again this many ms after the first copy (a
    /// retransmission, a packet duplicated by the network, an attacker repeating itself); 0 = a second copy at the same
    /// instant, before the first one was looked at
    #[serde(default)]
    pub retransmit_ms: Vec<u64>,
    pub rng: u8,
}

/// instants (ms after the input) at which the timers of the transaction the input may have started change its state
/// (RFC 3261 17.2: T1 and its doublings up to T2 = timer G / E, T4, 64*T1 = timers H / J / the absorbing window of a
/// completed server transaction, 64*T1 + T4); the peer's retransmissions are generated around them
const RETRANSMIT_EDGES: &[u64] = &[0, 0, T1, 2 * T1, 4 * T1, T2 + T1, T4, 16 * T1, 32 * T1, 63 * T1, 64 * T1, 64 * T1, 64 * T1, 64 * T1, 65 * T1, 64 * T1 + T4];
/// send latencies of the datagram transport
const SEND_MS: &[u64] = &[1, 7, 20, 20, 60];

// ---------------------------------------------------------------------------------------------
// structured hostile messages

type H = Vec<(String, String)>;

fn base(kind: u8) -> (String, H, Vec<u8>) {
    let via = ("Via".to_string(), "SIP/2.0/UDP 192.0.2.9:5060;branch=z9hG4bKhostile1;rport".to_string());
    let from = ("From".to_string(), "\"Mallory\" <sip:mallory@192.0.2.9>;tag=mt".to_string());
    let to = ("To".to_string(), "<sip:ezk@10.0.0.1>".to_string());
    let cid = ("Call-ID".to_string(), "c02-call".to_string());
    let contact = ("Contact".to_string(), "<sip:mallory@192.0.2.9>".to_string());
    let mf = ("Max-Forwards".to_string(), "70".to_string());
    let dialog_to = ("To".to_string(), "<sip:ezk@10.0.0.1>;tag=sometag".to_string());
    match kind % 10 {
        9 => (
            // CANCEL of the INVITE that sets up the call of the in-dialog modes (answered 481 when there is no such INVITE)
            "CANCEL sip:ezk@10.0.0.1 SIP/2.0".into(),
            vec![("Via".to_string(), "SIP/2.0/UDP 192.0.2.9:5060;branch=z9hG4bKsetupcall".to_string()), mf, from, to, cid, ("CSeq".into(), "1 CANCEL".into()), ("Content-Length".into(), "0".into())],
            vec![],
        ),
        5 => (
            "INVITE sip:ezk@10.0.0.1 SIP/2.0".into(),
            vec![via, mf, from, dialog_to, cid, ("CSeq".into(), "2 INVITE".into()), contact, ("Supported".into(), "timer".into()), ("Session-Expires".into(), "90;refresher=uac".into()), ("Content-Length".into(), "0".into())],
            vec![],
        ),
        6 => (
            "PRACK sip:ezk@10.0.0.1 SIP/2.0".into(),
            vec![via, mf, from, dialog_to, cid, ("CSeq".into(), "2 PRACK".into()), ("RAck".into(), "1 1 INVITE".into()), ("Content-Length".into(), "0".into())],
            vec![],
        ),
        7 => (
            "ACK sip:ezk@10.0.0.1 SIP/2.0".into(),
            vec![via, mf, from, dialog_to, cid, ("CSeq".into(), "1 ACK".into()), ("Content-Length".into(), "0".into())],
            vec![],
        ),
        8 => (
            "UPDATE sip:ezk@10.0.0.1 SIP/2.0".into(),
            vec![via, mf, from, dialog_to, cid, ("CSeq".into(), "2 UPDATE".into()), contact, ("Session-Expires".into(), "1800;refresher=uas".into()), ("Content-Length".into(), "0".into())],
            vec![],
        ),
        0 => (
            "INVITE sip:ezk@10.0.0.1 SIP/2.0".into(),
            vec![via, mf, from, to, cid, ("CSeq".into(), "1 INVITE".into()), contact, ("Supported".into(), "timer, 100rel".into()), ("Session-Expires".into(), "1800".into()), ("Min-SE".into(), "90".into()), ("Content-Type".into(), "application/sdp".into()), ("Content-Length".into(), "4".into())],
            b"v=0\n".to_vec(),
        ),
        1 => (
            "OPTIONS sip:ezk@10.0.0.1 SIP/2.0".into(),
            vec![via, mf, from, to, cid, ("CSeq".into(), "2 OPTIONS".into()), ("Accept".into(), "application/sdp".into()), ("Content-Length".into(), "0".into())],
            vec![],
        ),
        2 => (
            "BYE sip:ezk@10.0.0.1 SIP/2.0".into(),
            vec![via, mf, from, dialog_to, cid, ("CSeq".into(), "2 BYE".into()), ("Content-Length".into(), "0".into())],
            vec![],
        ),
        3 => (
            "SIP/2.0 200 OK".into(),
            vec![("Via".into(), "SIP/2.0/UDP 10.0.0.1:5060;branch=z9hG4bKnobody".into()), from, ("To".into(), "<sip:ezk@10.0.0.1>;tag=x".into()), cid, ("CSeq".into(), "4 INVITE".into()), contact, ("Require".into(), "timer".into()), ("Session-Expires".into(), "90;refresher=uas".into()), ("RSeq".into(), "1".into()), ("Content-Length".into(), "0".into())],
            vec![],
        ),
        _ => (
            "REGISTER sip:registrar.example.com SIP/2.0".into(),
            vec![via, mf, from, to, cid, ("CSeq".into(), "5 REGISTER".into()), contact, ("Expires".into(), "3600".into()), ("Authorization".into(), "Digest username=\"bob\", realm=\"r\", nonce=\"n\", uri=\"sip:r\", response=\"abc\"".into()), ("Content-Length".into(), "0".into())],
            vec![],
        ),
    }
}

const NUMS: &[&str] = &["0", "1", "2", "3", "9", "10", "11", "4294967294", "4294967295", "4294967296", "18446744073709551615", "18446744073709551616", "-1", "", "x", "1e9", " 7 ", "00000000000000000000000000000001"];
const CLENS: &[&str] = &["18446744073709551615", "9223372036854775808", "4294967296", "65536", "65535", "-1", "", "abc", "0x10", "5", "3", "0", " 4 ", "4, 4"];
const VIAS: &[&str] = &["x", "", "SIP/2.0/UDP", "SIP/2.0/UDP 192.0.2.9;rport", "SIP/2.0/UDP 192.0.2.9;rport=99999999", "SIP/2.0/UDP 192.0.2.9;branch", "SIP/2.0/UDP 192.0.2.9;branch=abc", "SIP/2.0/UDP [::1", "SIP/2.0/UDP 192.0.2.9:99999", "SIP/2.0/UDP 192.0.2.9;maddr=[::;received=", ",", "SIP/2.0/UDP a;branch=z9hG4bKa, ,", "SIP / 2.0 / UDP first.example.com: 4000;ttl=16;maddr=224.2.0.1 ;branch=z9hG4bKa7c6a8dlze.1"];
const ADDRS: &[&str] = &["<sip:a@b>", "sip:a@b", "\"unbalanced <sip:a@b>;tag=1", "<sip:a@b", "", "sip:", "<sip:a@b>;tag=1;tag=2", "<sip:a@b>;tag", "\"\" <sip:a@b>;tag=e", "<sip:a@[::1]:x>;tag=1", "<sips:%41@b:65536>", "<tel:+1>;tag=t", "*", "<sip:a@b>;tag=%ff", "<sip:a@b?x=%>;tag=1", "<sip:a@b;=;;>;tag=1"];
const AUTHS: &[&str] = &["Digest qop=\",\"", "Digest realm=\"\", nonce=\"\", qop=\"\", algorithm=", "Digest", "Digest ,,,", "Basic", "", "Digest realm=\"a, nonce=b", "Digest username*=UTF-8''%, realm=\"r\"", "Digest nc=zzzzzzzz, cnonce=\"\", qop=auth-int, response=\"\""];

/// size of the mutation catalogue of `mutate`
const MUTATIONS: u8 = 30;

/// independent component choices out of one selector (a fixed integer hash: the choice is a pure function of the case)
fn mix(s: u16, k: u32) -> usize {
    let mut x = (s as u32 ^ 0x9e37_79b9).wrapping_mul(0x85eb_ca6b) ^ k.wrapping_mul(0xc2b2_ae35);
    x ^= x >> 15;
    x = x.wrapping_mul(0x2c1b_3c6d);
    x ^= x >> 12;
    x = x.wrapping_mul(0x297a_2d39);
    x ^= x >> 15;
    x as usize
}

// The components of a SIP URI after RFC 3261 25.1 (`sip:user:password@host:port;uri-parameters?headers`), each list
// = the plain form, every character class the grammar allows there, `escaped` (%XX) octets that decode to ASCII, to a
// reserved character, to valid and to invalid UTF-8 and to NUL, plus a few spellings just outside the grammar.
const URI_SCHEMES: &[&str] = &["sip:", "sip:", "sip:", "sips:", "SIP:", "Sips:"];
const URI_USERS: &[&str] = &[
    "alice", "alice", "bob", "a%6Cice", "%61", "al%C3%A9", "j%40son", "a%3Ab", "+1-212-555-0101", "1234;phone-context=example.com", "a&b=c+d$e,f;g?h/i", "-_.!~*'()", "%00", "%FF", "%25", "%c3%28", "a%2", "",
];
/// (password, has a well-formed escape)
const URI_PASSWORDS: &[(&str, bool)] = &[
    ("secret", false), ("", false), ("&=+$,", false), ("-_.!~*'()", false), ("1234", false),
    ("pa%73sword", true), ("%70", true), ("p%C3%A9", true), ("%FF", true), ("%00", true), ("%25%32%35", true), ("a%3Ab", true), ("%40", true), ("x%c3", true), ("secret%2", false), ("%", false),
];
const URI_HOSTS: &[&str] = &["192.0.2.9", "10.0.0.1", "b", "example.com.", "EXAMPLE.com", "a-b.c-d.example", "[2001:db8::1]", "[::ffff:192.0.2.9]"];
const URI_PORTS: &[&str] = &["", "", "", ":5060", ":0", ":65535", ":65536", ":"];
/// (uri-parameters, has an escape)
const URI_PARAMS: &[(&str, bool)] = &[
    ("", false), ("", false), ("", false), (";transport=tcp", false), (";user=phone", false), (";method=INVITE;ttl=255;maddr=224.2.0.1", false), (";lr", false), (";lr=;lr", false),
    (";[]/:&+$=[]/:&+$", false), (";a;b;c=d;transport=udp;lr", false), (";maddr=[::1]", false), (";=", false),
    (";transport=%74cp", true), (";x%41=y%42", true), (";%C3%A9=%C3%A9", true), (";p=%FF", true), (";p=%00", true), (";%6Cr", true), (";p=%", false),
];
/// (headers, has an escape)
const URI_HEADERS: &[(&str, bool)] = &[
    ("", false), ("", false), ("", false), ("", false), ("?a=", false), ("?priority=urgent&a=b", false), ("?[]/?:+$=[]/?:+$", false), ("?a", false), ("?=&=", false),
    ("?subject=a%20b", true), ("?to=alice%40atlanta.com&priority=urgent", true), ("?%41=%42", true), ("?x=%FF", true), ("?x=%C3%A9&x=%C3%A9", true), ("?Replaces=abc%3Bfrom-tag%3D1%3Bto-tag%3D2", true), ("?x=%00", true),
];

/// one URI = an independent choice per component; returns the text and the class labels of its shape
fn uri_form(s: u16, k: u32) -> (String, Vec<&'static str>) {
    let mut classes = vec![];
    let scheme = URI_SCHEMES[mix(s, k * 8 + 1) % URI_SCHEMES.len()];
    let host = URI_HOSTS[mix(s, k * 8 + 2) % URI_HOSTS.len()];
    let port = URI_PORTS[mix(s, k * 8 + 3) % URI_PORTS.len()];
    let (params, params_escaped) = URI_PARAMS[mix(s, k * 8 + 4) % URI_PARAMS.len()];
    let (headers, headers_escaped) = URI_HEADERS[mix(s, k * 8 + 5) % URI_HEADERS.len()];
    // userinfo: none (1/8), user only (3/8), user and password (4/8)
    let userinfo = match mix(s, k * 8 + 6) % 8 {
        0 => String::new(),
        n => {
            let user = URI_USERS[mix(s, k * 8 + 7) % URI_USERS.len()];
            if user.contains('%') {
                classes.push("uri:escape-in-user");
            }
            if n < 4 {
                format!("{user}@")
            } else {
                let (password, escaped) = URI_PASSWORDS[mix(s, k * 8 + 8) % URI_PASSWORDS.len()];
                classes.push(if escaped { "uri:password-with-escape" } else { "uri:password-without-escape" });
                format!("{user}:{password}@")
            }
        }
    };
    if params_escaped {
        classes.push("uri:escape-in-uri-parameter");
    }
    if headers_escaped {
        classes.push("uri:escape-in-uri-header");
    }
    if host.starts_with('[') {
        classes.push("uri:ipv6-host");
    }
    (format!("{scheme}{userinfo}{host}{port}{params}{headers}"), classes)
}

fn set(h: &mut H, name: &str, value: &str) {
    if let Some(e) = h.iter_mut().find(|(n, _)| n.eq_ignore_ascii_case(name)) {
        e.1 = value.to_string();
    } else {
        let at = h.len().saturating_sub(1);
        h.insert(at, (name.to_string(), value.to_string()));
    }
}

/// apply mutation `m` (selector `s`) to the message; returns its label
fn mutate(m: u8, s: u16, start: &mut String, h: &mut H, body: &mut Vec<u8>, raw_tail: &mut Vec<u8>, extra: &mut Vec<String>) -> String {
    let pick = |list: &[&str]| list[pick_idx(s, list.len())].to_string();
    match m % MUTATIONS {
        0 => {
            set(h, "Content-Length", &pick(CLENS));
            "content-length".into()
        }
        1 => {
            h.push(("l".into(), pick(CLENS)));
            "content-length-duplicate-compact".into()
        }
        2 => {
            let v = pick(NUMS);
            let m = h.iter().find(|(n, _)| n == "CSeq").and_then(|(_, v)| v.split(' ').nth(1).map(str::to_string)).unwrap_or("INVITE".into());
            set(h, "CSeq", &format!("{v} {m}"));
            "cseq-number".into()
        }
        3 => {
            set(h, "CSeq", &pick(&["1", "INVITE", "", "1 ", " 1 INVITE", "1 INVITE x", "1\tINVITE", "1 invite", "1 %"]));
            "cseq-shape".into()
        }
        4 => {
            set(h, "Session-Expires", &format!("{}{}", pick(NUMS), pick(&["", ";refresher=uac", ";refresher=uas", ";refresher=", ";refresher=x", ";;"])));
            "session-expires".into()
        }
        5 => {
            set(h, "Min-SE", &pick(NUMS));
            "min-se".into()
        }
        6 => {
            set(h, "Expires", &pick(NUMS));
            set(h, "Min-Expires", &pick(NUMS));
            "expires".into()
        }
        7 => {
            set(h, "Max-Forwards", &pick(NUMS));
            "max-forwards".into()
        }
        8 => {
            set(h, "RSeq", &pick(NUMS));
            set(h, "RAck", &format!("{} {} INVITE", pick(NUMS), pick(NUMS)));
            "rseq-rack".into()
        }
        9 => {
            set(h, "Via", &pick(VIAS));
            "via".into()
        }
        10 => {
            h.retain(|(n, _)| !n.eq_ignore_ascii_case("via"));
            "via-missing".into()
        }
        11 => {
            let v = h.iter().find(|(n, _)| n == "Via").map(|x| x.1.clone()).unwrap_or_default();
            for _ in 0..20 {
                h.insert(0, ("Via".into(), v.clone()));
            }
            "via-x20".into()
        }
        12 => {
            set(h, if s % 2 == 0 { "From" } else { "To" }, &pick(ADDRS));
            "from-to".into()
        }
        13 => {
            let which = ["Call-ID", "From", "To", "CSeq"][pick_idx(s, 4)];
            h.retain(|(n, _)| n != which);
            "base-header-missing".into()
        }
        14 => {
            set(h, "Contact", &pick(ADDRS));
            "contact".into()
        }
        15 => {
            let n = ["Authorization", "WWW-Authenticate", "Proxy-Authenticate", "Proxy-Authorization"][(s % 4) as usize];
            set(h, n, &pick(AUTHS));
            "auth".into()
        }
        16 => {
            let mut v = "Digest realm=\"r\"".to_string();
            for i in 0..50 {
                v.push_str(&format!(", p{i}=\"{}\"", if i % 7 == 0 { "" } else { "v" }));
            }
            set(h, "WWW-Authenticate", &v);
            "auth-50-params".into()
        }
        17 => {
            // invalid UTF-8 in a header value or in the start line (marker replaced below)
            if s % 2 == 0 {
                set(h, "Subject", "\u{fffd}BADUTF8");
            } else {
                start.push_str("\u{fffd}BADUTF8");
            }
            "invalid-utf8".into()
        }
        18 => {
            *start = pick(&["", " ", "INVITE", "INVITE sip:a", "SIP/2.0", "SIP/2.0 99999 x", "SIP/2.0 abc", "INVITE sip:a SIP/3.0", "INVITE  sip:a@b  SIP/2.0", "\u{0}\u{1}", "INVITE sip:%@% SIP/2.0", "SIP/2.0 200", "INVITE sip:a@b:70000 SIP/2.0"]);
            "start-line".into()
        }
        19 => {
            // obs-fold
            set(h, "Subject", "a\r\n b\r\n\tc");
            set(h, "CSeq", &h.iter().find(|(n, _)| n == "CSeq").map(|x| x.1.replace(' ', "\r\n ")).unwrap_or_default());
            "obs-fold".into()
        }
        20 => {
            // head padded to the 4096 limit +- 2
            let cur: usize = start.len() + 2 + h.iter().map(|(n, v)| n.len() + v.len() + 4).sum::<usize>() + 2;
            let target = 4094 + (s % 5) as usize;
            if target > cur + 10 {
                set(h, "X-Pad", &"p".repeat(target - cur - 9));
            }
            "head-4096+-2".into()
        }
        21 => {
            *raw_tail = match s % 6 {
                0 => b"\r\n\nX".to_vec(),
                1 => b"\n\n".to_vec(),
                2 => b"\r".to_vec(),
                3 => b"\r\n\r".to_vec(),
                4 => b"".to_vec(),
                _ => b"\n\r\n".to_vec(),
            };
            "head-terminator".into()
        }
        22 => {
            set(h, "Supported", &pick(&[",,,", "", "timer,,100rel", " ", "timer 100rel", "\"timer\""]));
            set(h, "Require", &pick(&["100rel", "timer", ",", "", "x"]));
            "option-tags".into()
        }
        23 => {
            body.extend_from_slice(&vec![b'b'; (s % 300) as usize]);
            "body-length-mismatch".into()
        }
        26 => {
            // the message claims the top-Via branch of the transaction that set up the call (still alive for 64*T1
            // after its 2xx), with a CSeq method and a request-line method that agree with it or not
            set(h, "Via", "SIP/2.0/UDP 192.0.2.9:5060;branch=z9hG4bKsetupcall");
            let cseq_num = if s % 3 == 0 { "2" } else { "1" };
            match (s / 3) % 4 {
                0 => {}
                1 => set(h, "CSeq", &format!("{cseq_num} INVITE")),
                2 => set(h, "CSeq", &format!("{cseq_num} ACK")),
                _ => set(h, "CSeq", &format!("{cseq_num} {}", ["OPTIONS", "BYE", "CANCEL", "PRACK", "FOO"][((s / 12) % 5) as usize])),
            }
            if (s / 60) % 2 == 1 && !start.starts_with("SIP/") {
                let method = ["OPTIONS", "BYE", "FOO", "ACK", "CANCEL", "PRACK", "INVITE", "UPDATE"][((s / 120) % 8) as usize];
                if let Some(rest) = start.splitn(2, ' ').nth(1) {
                    *start = format!("{method} {rest}");
                }
            }
            "branch-of-live-transaction".into()
        }
        27 | 28 => {
            // a SIP URI in a grammar-derived rare form at one of the places the receive path reads URIs from
            let (uri, mut classes) = uri_form(s, (m / MUTATIONS) as u32 + if m % MUTATIONS == 28 { 16 } else { 0 });
            let place = mix(s, 90 + (m / MUTATIONS) as u32) % 8;
            let wrap = |uri: &str, k: usize| match k % 4 {
                0 | 1 => format!("<{uri}>"),
                2 => format!("\"Display \\\"Q\\\" Name\" <{uri}>"),
                _ => uri.to_string(),
            };
            let in_header = |h: &mut H, name: &str, value: String| {
                // keep the header parameters (tags) of the value that is replaced
                let tail = h.iter().find(|(n, _)| n.eq_ignore_ascii_case(name)).and_then(|(_, v)| v.rfind('>').map(|i| v[i + 1..].to_string())).unwrap_or_default();
                set(h, name, &format!("{value}{tail}"));
            };
            match place {
                0 | 1 | 2 if !start.starts_with("SIP/") && start.split(' ').count() == 3 => {
                    let parts: Vec<String> = start.split(' ').map(str::to_string).collect();
                    *start = format!("{} {uri} {}", parts[0], parts[2]);
                    classes.push("uri@request-line");
                }
                0 | 3 => {
                    in_header(h, "From", wrap(&uri, mix(s, 91)));
                    classes.push("uri@from-to");
                }
                1 | 4 => {
                    in_header(h, "To", wrap(&uri, mix(s, 91)));
                    classes.push("uri@from-to");
                }
                2 | 5 => {
                    in_header(h, "Contact", wrap(&uri, mix(s, 91)));
                    classes.push("uri@contact");
                }
                6 => {
                    set(h, "Route", &format!("<{uri}>, <sip:p2.example.com;lr>"));
                    classes.push("uri@route");
                }
                _ => {
                    set(h, "Record-Route", &format!("<sip:p1.example.com;lr>,<{uri}>"));
                    classes.push("uri@route");
                }
            }
            extra.extend(classes.into_iter().map(str::to_string));
            "uri-form".into()
        }
        29 => {
            // escapes, quoted strings and quoted pairs in header parameters and display names
            match mix(s, 95) % 6 {
                0 => set(h, "From", &format!("\"{}\" <sip:mallory@192.0.2.9>;tag={}", pick(&["a\\\"b", "\\\\", "%41", "\u{e9}\\\u{e9}", "", "a\\"]), ["mt", "m%74", "%6Dt", "mt;x=\"q\\\"q\"", "mt;%78=%79", "%ff", "%"][mix(s, 96) % 7])),
                1 => set(h, "Via", &format!("SIP/2.0/UDP 192.0.2.9:5060;branch=z9hG4bKhost%69le1{}", pick(&[";rport", ";x-info=\"a b\"", ";x=\"\\\"\"", ";%72port", ";received=192.0.2.9;rport=%35", ";ttl=%31", ";maddr=%5B::1%5D", ";x=%"]))),
                2 => set(h, "Call-ID", &pick(&["c02%2Dcall", "a%40b@c%2e", "%", "%%%", "%00", "a@[::1]", "\"c02-call\""])),
                3 => set(h, "Contact", &format!("<sip:mallory@192.0.2.9>{}", pick(&[";expires=%31", ";q=0.%35", ";+sip.instance=\"<urn:uuid:00000000-0000-1000-8000-000A95A0E128>\"", ";expires=\"5\"", ";x=\"\\\\\"", ";%65xpires=5", ";q=%", ";expires=5;expires=%35"]))),
                4 => set(h, "Content-Type", &pick(&["application/sdp;charset=\"utf\\-8\"", "application/sdp;%63harset=x", "multipart/mixed;boundary=\"a\\\"b\"", "a%2Fb/c", "application/sdp;x=%", "application/sdp;x=\"\""])),
                _ => set(h, "To", &format!("<sip:ezk@10.0.0.1>;tag={}", pick(&["some%74ag", "sometag;x=%41", "sometag;x=\"%41\"", "%73ometag", "sometag%", "sometag;%"]))),
            }
            "escapes-in-header-parameters".into()
        }
        _ => {
            // a long malformed value of a header the receive path decodes, with one multi-byte UTF-8 character at
            // any byte offset 0..150 (error paths that cut, quote or index into the offending text)
            let filler = (s % 150) as usize;
            let ch = ['\u{e9}', '\u{20ac}', '\u{1f600}', '\u{a0}'][((s / 150) % 4) as usize];
            let which = ["CSeq", "From", "To", "Call-ID", "Via", "Contact", "Max-Forwards", "Expires", "Session-Expires", "Content-Type", "RAck", "Supported"][((s / 600) % 12) as usize];
            let lead = if m % MUTATIONS == 25 { "" } else { match which { "CSeq" => "7 ", "From" | "To" | "Contact" => "<sip:a@b>;tag=", "Via" => "SIP/2.0/UDP 192.0.2.9;branch=", _ => "" } };
            let value = format!("{lead}{}{ch} OPTIONS;x=\"{ch}", "q".repeat(filler));
            set(h, which, &value);
            "long-non-ascii-malformed-value".into()
        }
    }
}

fn render(start: &str, h: &H, body: &[u8], lf_only: bool, lead: u8, raw_tail: &[u8]) -> Vec<u8> {
    let nl: &[u8] = if lf_only { b"\n" } else { b"\r\n" };
    let mut out = vec![];
    for _ in 0..lead {
        out.extend_from_slice(b"\r\n");
    }
    out.extend_from_slice(start.as_bytes());
    out.extend_from_slice(nl);
    for (n, v) in h {
        out.extend_from_slice(n.as_bytes());
        out.extend_from_slice(b": ");
        out.extend_from_slice(v.as_bytes());
        out.extend_from_slice(nl);
    }
    if raw_tail.is_empty() {
        out.extend_from_slice(nl);
    } else {
        // replace the blank line by the hostile terminator (last header line's newline is already there)
        let l = out.len() - nl.len();
        out.truncate(l);
        out.extend_from_slice(raw_tail);
    }
    out.extend_from_slice(body);
    // invalid UTF-8 marker
    let marker = "\u{fffd}BADUTF8".as_bytes();
    while let Some(pos) = out.windows(marker.len()).position(|w| w == marker) {
        out.splice(pos..pos + marker.len(), [0xff, 0xfe, 0xc3, 0x28]);
    }
    out
}

/// `dialog`: prefer the templates that address the dialog of the set-up call (BYE, re-INVITE, PRACK, ACK, UPDATE) or
/// its INVITE (CANCEL)
fn structured(dialog: bool) -> BoxedStrategy<(Vec<u8>, Vec<String>)> {
    (
        if dialog { prop_oneof![1 => any::<u8>(), 6 => prop_oneof![Just(2u8), Just(5u8), Just(6u8), Just(7u8), Just(8u8), Just(9u8)]].boxed() } else { any::<u8>().boxed() },
        prop::collection::vec((any::<u8>(), any::<u16>()), 1..4),
        prop::bool::weighted(0.1),
        prop_oneof![6 => Just(0u8), 1 => Just(1u8), 1 => Just(2u8), 1 => Just(4u8)],
        prop::option::weighted(0.1, any::<u16>()),
    )
        .prop_map(|(kind, muts, lf_only, lead, truncate)| {
            let (mut start, mut h, mut body) = base(kind);
            let mut raw_tail = vec![];
            let mut labels = vec![];
            for (m, s) in muts {
                let mut extra = vec![];
                labels.push(mutate(m, s, &mut start, &mut h, &mut body, &mut raw_tail, &mut extra));
                labels.extend(extra);
            }
            if lf_only {
                labels.push("lf-only".into());
            }
            if lead > 0 {
                labels.push("leading-crlf".into());
            }
            let mut bytes = render(&start, &h, &body, lf_only, lead, &raw_tail);
            if let Some(t) = truncate {
                let at = pick_idx(t, bytes.len().max(1));
                bytes.truncate(at);
                labels.push("truncated".into());
            }
            labels.sort();
            labels.dedup();
            (bytes, labels)
        })
        .boxed()
}

fn byte_mutated() -> BoxedStrategy<(Vec<u8>, Vec<String>)> {
    (any::<u8>(), prop::collection::vec((0u8..4, any::<u16>(), any::<u8>()), 1..6))
        .prop_map(|(kind, edits)| {
            let (start, h, body) = base(kind);
            let mut bytes = render(&start, &h, &body, false, 0, &[]);
            for (op, pos, val) in edits {
                if bytes.is_empty() {
                    break;
                }
                let i = pick_idx(pos, bytes.len());
                match op {
                    0 => bytes[i] ^= 1 << (val % 8),
                    1 => {
                        bytes.remove(i);
                    }
                    2 => bytes.insert(i, val),
                    _ => {
                        let j = (i + 1 + (val as usize % 40)).min(bytes.len());
                        let chunk: Vec<u8> = bytes[i..j].to_vec();
                        bytes.splice(i..i, chunk);
                    }
                }
            }
            (bytes, vec!["byte-mutated".to_string()])
        })
        .boxed()
}

fn random_bytes() -> BoxedStrategy<(Vec<u8>, Vec<String>)> {
    prop_oneof![
        prop::collection::vec(any::<u8>(), 0..300).prop_map(|b| (b, vec!["random-bytes".to_string()])),
        "[ -~\r\n]{0,400}".prop_map(|s| (s.into_bytes(), vec!["random-ascii".to_string()])),
        "(INVITE|SIP/2.0|OPTIONS|l|Via|v|CSeq|Content-Length|:|;|,|<|>|\"|%|@|sip:|\r\n|\r|\n| |[0-9]{1,20}|[a-z]{1,5}){0,60}".prop_map(|s| (s.into_bytes(), vec!["random-tokens".to_string()])),
    ]
    .boxed()
}

pub fn strategy() -> BoxedStrategy<Case> {
    prop::bool::weighted(0.4)
        .prop_flat_map(|in_dialog| {
            (
                prop_oneof![6 => structured(in_dialog), 2 => byte_mutated(), 2 => random_bytes()],
                prop::option::weighted(0.35, prop::collection::vec(any::<u16>(), 0..6)),
                Just(in_dialog),
                prop::bool::weighted(0.4),
                any::<u8>(),
                prop::bool::weighted(0.2),
                (
                    // the application: half of the cases the one that accepts everything, else one of the others
                    prop_oneof![6 => Just(0u8), 6 => 1u8..APP_POLICIES.len() as u8],
                    // the peer's ACK for a 3xx-6xx: never / well within T1 / after T1 / late / after timer H
                    prop_oneof![4 => Just(None), 2 => Just(Some(50u64)), 2 => Just(Some(700u64)), 1 => Just(Some(5_000u64)), 1 => Just(Some(33_000u64))],
                    // an in-dialog case keeps its stream delivery (the whole call then runs over the connection)
                    prop::bool::weighted(0.6),
                    // the datagram transport: half of the cases instantaneous sends, else a send latency
                    prop_oneof![1 => Just(0u64), 1 => any::<u16>().prop_map(|s| SEND_MS[pick_idx(s, SEND_MS.len())])],
                    // the peer's retransmissions / duplicates of the input: a timer edge of the transaction, and a
                    // distance to it = 1 ms before / after, or anywhere within a few send durations around it
                    prop_oneof![
                        1 => Just(vec![]),
                        1 => prop::collection::vec((any::<u16>(), prop_oneof![1 => Just(-1i64), 1 => Just(1i64), 1 => Just(0i64), 6 => -70i64..=130]), 1..4),
                    ],
                ),
            )
        })
        .prop_map(|((bytes, labels), stream_cuts, in_dialog, early, rng, long_life, (app, peer_ack_ms, dialog_over_stream, send_ms, retransmits))| {
            let stream_cuts = if in_dialog && !dialog_over_stream { None } else { stream_cuts };
            let mut retransmit_ms: Vec<u64> = if stream_cuts.is_some() {
                // a connection delivers every byte once
                vec![]
            } else {
                retransmits.into_iter().map(|(e, d)| (RETRANSMIT_EDGES[pick_idx(e, RETRANSMIT_EDGES.len())] as i64 + d).max(0) as u64).collect()
            };
            retransmit_ms.sort();
            Case { bytes, labels, stream_cuts, in_dialog, early: early && in_dialog, before_ack: in_dialog && !early && rng % 2 == 1, long_life: long_life && in_dialog, app, peer_ack_ms, send_ms, retransmit_ms, rng }
        })
        .boxed()
}

// ---------------------------------------------------------------------------------------------
// world: an endpoint with the full UA stack and an application with one of a few INVITE policies

#[derive(Clone, Copy, Debug)]
enum OnInvite {
    /// 180, reliable 183 when the peer supports 100rel, 200; the session is driven for 4 events
    Accept,
    /// a 3xx-6xx at once through the INVITE server transaction
    Reject(u16),
    /// dialog + `Acceptor`, 180, then the failure through `Acceptor::respond_failure`
    RingThenReject(u16),
    /// the layer does not take the request: the endpoint answers 481 itself
    NotInterested,
}

#[derive(Clone, Copy, Debug)]
enum OnReInvite {
    /// the application drops the event without answering
    LetGo,
    Accept,
    Reject(u16),
}

/// (a new INVITE, a re-INVITE inside the session, class). The INVITE that sets up the call of the in-dialog modes is
/// accepted under every policy (there would be no dialog otherwise).
const APP_POLICIES: &[(OnInvite, OnReInvite, &str)] = &[
    (OnInvite::Accept, OnReInvite::LetGo, "application:accepts-INVITE(lets go of a re-INVITE)"),
    (OnInvite::Accept, OnReInvite::Accept, "application:accepts-INVITE-and-re-INVITE"),
    (OnInvite::Reject(486), OnReInvite::Reject(488), "application:rejects-INVITE-at-once(3xx-6xx)"),
    (OnInvite::Reject(603), OnReInvite::Reject(603), "application:rejects-INVITE-at-once(3xx-6xx)"),
    (OnInvite::Reject(302), OnReInvite::Reject(500), "application:rejects-INVITE-at-once(3xx-6xx)"),
    (OnInvite::RingThenReject(480), OnReInvite::Reject(491), "application:rings-then-rejects-INVITE"),
    (OnInvite::NotInterested, OnReInvite::LetGo, "application:not-interested(endpoint answers 481)"),
];

fn app_policy(app: u8) -> (OnInvite, OnReInvite, &'static str) {
    APP_POLICIES[(app as usize).min(APP_POLICIES.len() - 1)]
}

const SETUP_BRANCH: &str = "z9hG4bKsetupcall";

struct App {
    dialog_layer: LayerKey<DialogLayer>,
    invite_layer: LayerKey<InviteLayer>,
    on_invite: OnInvite,
    on_reinvite: OnReInvite,
}

#[async_trait::async_trait]
impl Layer for App {
    fn name(&self) -> &'static str {
        "c02-application"
    }
    async fn receive(&self, endpoint: &Endpoint, request: MayTake<'_, IncomingRequest>) {
        if request.line.method != Method::INVITE {
            return;
        }
        let on_invite = if request.tsx_key.branch().to_string() == SETUP_BRANCH { OnInvite::Accept } else { self.on_invite };
        let on_reinvite = self.on_reinvite;
        let code = match on_invite {
            OnInvite::NotInterested => return,
            OnInvite::Reject(code) => {
                let mut invite = request.take();
                let response = endpoint.create_response(&invite, Code::from(code), None);
                let tsx = endpoint.create_server_inv_tsx(&mut invite);
                tokio::spawn(async move {
                    let _ = tsx.respond_failure(response).await;
                });
                return;
            }
            OnInvite::RingThenReject(code) => Some(code),
            OnInvite::Accept => None,
        };
        let invite = request.take();
        let contact: SipUri = "sip:ezk@10.0.0.1".parse().unwrap();
        let Ok(dialog) = Dialog::new_server(endpoint.clone(), self.dialog_layer, &invite, Contact::new(NameAddr::uri(contact))) else { return };
        let Ok(mut acceptor) = Acceptor::new(dialog, self.invite_layer, invite) else { return };
        tokio::spawn(async move {
            if let Ok(r) = acceptor.create_response(Code::from(180), None).await {
                let _ = acceptor.respond_provisional(r).await;
            }
            if let Some(code) = code {
                if let Ok(r) = acceptor.create_response(Code::from(code), None).await {
                    let _ = acceptor.respond_failure(r).await;
                }
                return;
            }
            if acceptor.peer_supports_100rel() {
                if let Ok(r) = acceptor.create_response(Code::from(183), None).await {
                    let _ = acceptor.respond_provisional_reliable(r).await;
                }
            }
            let Ok(r) = acceptor.create_response(Code::OK, None).await else { return };
            if let Ok((mut session, _ack)) = acceptor.respond_success(r).await {
                for _ in 0..4 {
                    match session.drive().await {
                        Ok(SessionEvent::Bye(e)) => {
                            let _ = e.process_default().await;
                        }
                        Ok(SessionEvent::RefreshNeeded(e)) => {
                            let _ = e.process_default().await;
                        }
                        Ok(SessionEvent::ReInviteReceived(e)) => match on_reinvite {
                            OnReInvite::LetGo => {}
                            OnReInvite::Accept => {
                                if let Ok(r) = e.session.dialog.create_response(&e.invite, Code::OK, None) {
                                    let _ = e.respond_success(r).await;
                                }
                            }
                            OnReInvite::Reject(code) => {
                                if let Ok(r) = e.session.dialog.create_response(&e.invite, Code::from(code), None) {
                                    let _ = e.transaction.respond_failure(r).await;
                                }
                            }
                        },
                        Ok(SessionEvent::Terminated) | Err(_) => break,
                    }
                }
            }
        });
    }
}

// ---------------------------------------------------------------------------------------------
// spin guard: "never loop forever" inside the single-threaded world
//
// A task that loops without ever waiting for something that lies in the future (a deadline in the past that is never
// moved, a channel that is polled again at once) is woken again the moment it yields (tokio's cooperative budget makes
// it yield), the runtime never goes idle and the paused clock can never advance: virtual time stands still while the
// task is polled again and again. The guard counts the task polls of the runtime per virtual instant (runtime hook
// `on_before_task_poll`; the count is a pure function of the case) and ends the world when one instant has seen more
// than `SPIN_LIMIT` of them. The busiest instants of a sound run have a few hundred polls (class
// "busiest-instant:..."), the limit is fifty times that.

const SPIN_LIMIT: u64 = 5_000;

#[derive(Default)]
struct GuardState {
    instant: Option<tokio::time::Instant>,
    polls: u64,
    busiest: u64,
    tripped: bool,
    waker: Option<std::task::Waker>,
}

/// what the guard saw: the largest number of task polls at one virtual instant, and when it tripped
#[derive(Clone, Copy, Debug, Default)]
struct Guard {
    busiest: u64,
    tripped_at_ms: Option<u64>,
}

/// `run_world` with the spin guard; None = the world was ended by the guard
fn run_world_guarded<F, Fut, R>(rng_seed: u64, f: F) -> (Option<R>, Guard)
where
    F: FnOnce(Clock) -> Fut,
    Fut: std::future::Future<Output = R>,
{
    use std::sync::Arc;
    use std::task::Poll;
    let state: Arc<parking_lot::Mutex<GuardState>> = Default::default();
    let hook = state.clone();
    let rt = tokio::runtime::Builder::new_current_thread()
        .enable_time()
        .start_paused(true)
        .rng_seed(tokio::runtime::RngSeed::from_bytes(&rng_seed.to_le_bytes()))
        .on_before_task_poll(move |_| {
            let now = tokio::time::Instant::now();
            let wake = {
                let mut g = hook.lock();
                if g.instant != Some(now) {
                    g.instant = Some(now);
                    g.polls = 0;
                }
                g.polls += 1;
                g.busiest = g.busiest.max(g.polls);
                if g.polls > SPIN_LIMIT && !g.tripped {
                    g.tripped = true;
                    g.waker.take()
                } else {
                    None
                }
            };
            if let Some(w) = wake {
                w.wake();
            }
        })
        .build()
        .expect("runtime");
    let mut tripped_at_ms = None;
    let r = rt.block_on(async {
        let clock = Clock { start: tokio::time::Instant::now() };
        let world = f(clock);
        tokio::pin!(world);
        std::future::poll_fn(|cx| {
            {
                let mut g = state.lock();
                if g.tripped {
                    tripped_at_ms = Some(clock.now_ms());
                    return Poll::Ready(None);
                }
                g.waker = Some(cx.waker().clone());
            }
            world.as_mut().poll(cx).map(Some)
        })
        .await
    });
    // dropping the runtime drops every task still alive (the spinning one included)
    drop(rt);
    let busiest = state.lock().busiest;
    (r, Guard { busiest, tripped_at_ms })
}

fn guard_classes(g: &Guard, out: &mut CaseOut) {
    out.class(match g.busiest {
        0..=99 => "busiest-instant:<100-task-polls",
        100..=999 => "busiest-instant:100..999-task-polls",
        1000..=9999 => "busiest-instant:1000..9999-task-polls",
        _ => "busiest-instant:>=10000-task-polls",
    });
}

async fn deliver(endpoint: &Endpoint, tp: &sip_core::transport::TpHandle, src: SocketAddr, conn: &mut Option<PeerConn>, bytes: &[u8]) {
    match conn {
        Some(c) => {
            c.write(bytes).await;
        }
        None => {
            inject(endpoint, tp, src, bytes);
        }
    }
    settle().await;
}

/// the ACKs a well-behaved peer owes for the 3xx-6xx final responses to its INVITEs seen on the wire so far
/// (RFC 3261 17.1.1.3: same top Via / branch, To of the response); returns (transport id, destination of the response, ACK)
fn failure_acks(log: &WireLog, acked: &mut std::collections::BTreeSet<(String, String)>) -> Vec<(u32, SocketAddr, Vec<u8>)> {
    let mut out = vec![];
    for (sent, m) in log.parsed() {
        let Some(m) = m else { continue };
        let (Some(code), Some((num, method)), Some(via)) = (m.status(), m.cseq(), m.top_via()) else { continue };
        if code < 300 || method != "INVITE" {
            continue;
        }
        if !acked.insert((m.via_branch().unwrap_or_default(), m.call_id().unwrap_or("").to_string())) {
            continue;
        }
        let ack = request_text("ACK", "sip:ezk@10.0.0.1", &[via], m.header("from").unwrap_or(""), m.header("to").unwrap_or(""), m.call_id().unwrap_or(""), num, "ACK", &[], b"");
        out.push((sent.tp, sent.dest, ack));
    }
    out
}

fn probe_options(n: u32, transport: &str) -> Vec<u8> {
    request_text(
        "OPTIONS",
        "sip:ezk@10.0.0.1",
        &[format!("SIP/2.0/{transport} 192.0.2.77:5060;branch=z9hG4bKprobe{n}")],
        "<sip:probe@192.0.2.77>;tag=pr",
        "<sip:ezk@10.0.0.1>",
        &format!("c02-probe-{n}"),
        1,
        "OPTIONS",
        &[],
        b"",
    )
}

/// push every header value of a parsed message through every typed decoder
fn decode_everything(headers: &Headers) {
    let values: Vec<String> = headers.iter().map(|(_, v)| v.to_string()).collect();
    macro_rules! all {
        ($v:expr, $( $t:ty => $n:expr ),* ) => {{
            $(
                let mut h = Headers::new();
                h.insert($n, $v.as_str());
                let _ = h.get::<$t>($n);
                let _ = h.get::<Vec<$t>>($n);
            )*
        }};
    }
    for v in &values {
        all!(v,
            Via => Name::VIA, FromTo => Name::FROM, Contact => Name::CONTACT, Routing => Name::ROUTE, CSeq => Name::CSEQ,
            RAck => Name::RACK, RSeq => Name::RSEQ, CallID => Name::CALL_ID, MaxForwards => Name::MAX_FORWARDS,
            Expires => Name::EXPIRES, MinExpires => Name::MIN_EXPIRES, MinSe => Name::MIN_SE, SessionExpires => Name::SESSION_EXPIRES,
            ContentLength => Name::CONTENT_LENGTH, ContentType => Name::CONTENT_TYPE, Event => Name::EVENT, Accept => Name::ACCEPT,
            Allow => Name::ALLOW, AllowEvents => Name::ALLOW_EVENTS, Supported => Name::SUPPORTED, Require => Name::REQUIRE,
            Replaces => Name::REPLACES, RetryAfter => Name::RETRY_AFTER, SubscriptionState => Name::SUBSCRIPTION_STATE,
            AuthChallenge => Name::WWW_AUTHENTICATE, AuthResponse => Name::AUTHORIZATION
        );
    }
}

/// Run one pure parsing stage. A panic inside it becomes a failure of the case here (the case ends after the first
/// stage that panicked, the receive path would only run into the same panic).
/// A panic raised in ezk's own code keeps the engine's signature `panic/<file>:<line>`. A panic raised below ezk (a
/// dependency or std, e.g. the pointer-range assertions of `Bytes::slice_ref` behind `BytesStr::from_parse`) has a
/// location that depends on the dependency's version and, for the pointer assertions, on the heap layout of the run:
/// its signature names the stage and the crate instead.
fn stage<R>(name: &'static str, out: &mut CaseOut, f: impl FnOnce() -> R) -> Option<R> {
    match std::panic::catch_unwind(std::panic::AssertUnwindSafe(f)) {
        Ok(r) => Some(r),
        Err(_) => {
            for p in crate::engine::panic_hook::take() {
                let first = p.location.split('/').next().unwrap_or("");
                let registry_crate = first.rsplit_once('-').filter(|(_, v)| v.starts_with(|c: char| c.is_ascii_digit())).map(|(n, _)| n);
                let below_ezk = registry_crate.or(if first == "library" { Some("std") } else { None });
                match below_ezk {
                    Some(krate) => out.fail(format!("c02.panic/{name}-panics-inside-{krate}"), format!("{name}: panic: {} at {}", p.message, p.location)),
                    None => out.fail(format!("panic/{}", p.location), format!("panic: {} at {}", p.message, p.location)),
                }
            }
            None
        }
    }
}

/// Panics of the tasks of a world (the receive path proper: transaction, dialog and session tasks). A panic raised in
/// ezk's own code keeps the engine's signature `panic/<file>:<line>`. A panic raised below ezk (std or a dependency,
/// e.g. `Duration - Duration`, `Instant + Duration`, a slice index inside `bytes`) is located in a line of the
/// toolchain's / the dependency's sources that says nothing about what broke and changes with its version: its
/// signature names the crate and the constant part of the panic message instead (text up to the first ':', no digits).
fn world_panics(out: &mut CaseOut) {
    for p in crate::engine::panic_hook::take() {
        let first = p.location.split('/').next().unwrap_or("");
        let registry_crate = first.rsplit_once('-').filter(|(_, v)| v.starts_with(|c: char| c.is_ascii_digit())).map(|(n, _)| n);
        let below_ezk = registry_crate.or(if first == "library" { Some("std") } else { None });
        match below_ezk {
            Some(krate) => {
                let text = p.message.split(':').next().unwrap_or("");
                let words: Vec<&str> = text.split(|c: char| !c.is_ascii_alphabetic()).filter(|w| !w.is_empty()).take(8).collect();
                out.fail(format!("c02.panic/receive-path-task-panics-inside-{krate}({})", words.join("-")), format!("a task of the endpoint panicked: {} at {}", p.message, p.location));
            }
            None => out.fail(format!("panic/{}", p.location), format!("panic: {} at {}", p.message, p.location)),
        }
    }
}

/// every label the generators of `hostile` put into a case
const HOSTILE_LABELS: &[&str] = &[
    "content-length", "content-length-duplicate-compact", "cseq-number", "cseq-shape", "session-expires", "min-se", "expires", "max-forwards", "rseq-rack", "via", "via-missing",
    "via-x20", "from-to", "base-header-missing", "contact", "auth", "auth-50-params", "invalid-utf8", "start-line", "obs-fold", "head-4096+-2", "head-terminator", "option-tags",
    "body-length-mismatch", "long-non-ascii-malformed-value", "branch-of-live-transaction", "lf-only", "leading-crlf", "truncated", "byte-mutated", "random-bytes", "random-ascii",
    "random-tokens", "uri-form", "uri@request-line", "uri@from-to", "uri@contact", "uri@route", "uri:escape-in-user", "uri:password-with-escape", "uri:password-without-escape",
    "uri:escape-in-uri-parameter", "uri:escape-in-uri-header", "uri:ipv6-host", "escapes-in-header-parameters",
];

pub fn check(case: &Case, out: &mut CaseOut) {
    for l in &case.labels {
        // labels are a fixed vocabulary
        if let Some(s) = HOSTILE_LABELS.iter().find(|s| **s == l.as_str()) {
            out.class(s);
        }
    }
    out.class(if case.stream_cuts.is_some() { "as-stream" } else { "as-datagram" });
    if case.in_dialog {
        out.class(if case.early {
            "inside-early-dialog(pending INVITE)"
        } else if case.before_ack {
            "inside-dialog-before-the-ACK"
        } else {
            "inside-established-dialog"
        });
        if case.long_life {
            out.class("world-outlives-the-session-timer(1900 s)");
        }
    }

    // 1. pure parsers: datagram parser + every typed decoder; stream decoder under the segmentation
    let mut reached_headers = false;
    let mut pure_stage_panicked = false;
    match stage("datagram-parser", out, || parse_complete(Default::default(), &case.bytes)) {
        Some(Ok(CompleteItem::Sip { headers, .. })) => {
            reached_headers = true;
            pure_stage_panicked |= stage("typed-header-decoder", out, || decode_everything(&headers)).is_none();
        }
        Some(_) => {}
        None => pure_stage_panicked = true,
    }
    let total = case.bytes.len();
    let cuts: Vec<usize> = case
        .stream_cuts
        .clone()
        .unwrap_or_default()
        .into_iter()
        .map(|s| 1 + pick_idx(s, total.saturating_sub(1).max(1)))
        .collect();
    // (the stream decoder hands the head to the same message parser: a panic found above is not reported twice)
    if !pure_stage_panicked {
        match stage("stream-decoder", out, || decode_stream(&case.bytes, &cuts)) {
            Some((decoded, _err)) => {
                if !decoded.is_empty() {
                    reached_headers = true;
                }
            }
            None => pure_stage_panicked = true,
        }
    }
    if reached_headers && !case.labels.iter().all(|l| l.starts_with("random")) {
        // distinct by the input and the scenario it is delivered in
        out.nontrivial(&(&case.bytes, case.stream_cuts.is_some(), case.in_dialog, case.early, case.before_ack, case.app, case.peer_ack_ms, case.send_ms, &case.retransmit_ms));
        out.class("reached-header-decoding");
    }

    // the receive path would run into the same panic (inline in the datagram receive loop / in the task that decodes
    // the header): it is reported once, by the stage that isolates it
    if pure_stage_panicked {
        return;
    }

    // 2. the whole path + liveness: after the hostile input a valid request must still be answered
    let c = case.clone();
    let (on_invite, on_reinvite, app_class) = app_policy(case.app);
    out.class(app_class);
    if case.stream_cuts.is_none() {
        out.class(match case.send_ms {
            0 => "datagram-send:instantaneous",
            1..=9 => "datagram-send:takes-1..9-ms",
            _ => "datagram-send:takes-20..60-ms",
        });
        if case.retransmit_ms.is_empty() {
            out.class("input-sent-once");
        }
        for ms in &case.retransmit_ms {
            out.class(match *ms {
                0 => "input-sent-again:at-the-same-instant",
                ms if ms + 200 < 64 * T1 => "input-sent-again:within-64*T1",
                ms if ms <= 64 * T1 + 200 => "input-sent-again:around-64*T1(+-200-ms)",
                _ => "input-sent-again:after-64*T1",
            });
            if case.send_ms > 0 && *ms > 64 * T1 && *ms < 64 * T1 + case.send_ms {
                out.class("input-sent-again:within-one-send-duration-after-64*T1");
            }
        }
    }
    out.class(match case.peer_ack_ms {
        None => "peer-never-ACKs-a-failure-response",
        Some(ms) if ms < T1 => "peer-ACKs-a-failure-response-within-T1",
        Some(_) => "peer-ACKs-a-failure-response-after-T1-or-later",
    });
    let (world, guard) = run_world_guarded(case.rng as u64, |clock| async move {
        let log = WireLog::new(clock);
        let (tp, _) = mock_datagram_slow(&log, "UDP", false, false, "10.0.0.1:5060", c.send_ms);
        let (lb, dialer) = mock_listener::<false>(clock, &log, "10.0.0.1:5060");
        let mut b = offline_builder();
        b.add_unmanaged_transport(tp.clone());
        let dl = b.add_layer(DialogLayer::default());
        let il = b.add_layer(InviteLayer::default());
        b.add_layer(App { dialog_layer: dl, invite_layer: il, on_invite, on_reinvite });
        use sip_core::transport::streaming::StreamingListenerBuilder;
        lb.spawn(&mut b, "10.0.0.1:5060").await.unwrap();
        let endpoint = b.build();
        settle().await;
        let src: SocketAddr = "192.0.2.9:5060".parse().unwrap();
        let probe_src: SocketAddr = "192.0.2.77:5060".parse().unwrap();
        // the peer's connection (stream delivery): everything the peer sends in this case goes over it
        let mut conn: Option<PeerConn> = None;
        if c.stream_cuts.is_some() {
            conn = Some(dialer.dial("192.0.2.9:40404"));
            settle().await;
        }
        let via_transport = if conn.is_some() { "TCP" } else { "UDP" };

        let mut bytes = c.bytes.clone();
        let mut late_ack: Option<Vec<u8>> = None;
        let mut setup_answered = false;
        if c.in_dialog {
            // a plain call first: INVITE (no 100rel), 200 from the application, ACK
            let setup = request_text(
                "INVITE", "sip:ezk@10.0.0.1", &[format!("SIP/2.0/{via_transport} 192.0.2.9:5060;branch={SETUP_BRANCH}")],
                "\"Mallory\" <sip:mallory@192.0.2.9>;tag=mt", "<sip:ezk@10.0.0.1>", "c02-call", 1, "INVITE",
                &["Contact: <sip:mallory@192.0.2.9>".into(), if c.early { "Supported: timer, 100rel".into() } else { "Supported: timer".into() }], b"");
            deliver(&endpoint, &tp, src, &mut conn, &setup).await;
            let want = if c.early { 183 } else { 200 };
            let find_tag = || log.parsed().iter().filter_map(|(_, m)| m.as_ref()).find(|m| m.status() == Some(want)).and_then(|m| m.to_tag());
            let mut tag = find_tag();
            // a transport with send latency: the application's responses go out one send duration after the other
            for _ in 0..8 {
                if tag.is_some() || c.send_ms == 0 {
                    break;
                }
                clock.advance(c.send_ms).await;
                settle().await;
                tag = find_tag();
            }
            setup_answered = tag.is_some();
            if let (Some(tag), true) = (&tag, c.early) {
                // the peer knows RSeq from the 183: a PRACK template "RAck: 1 1 INVITE" gets the real numbers half of the time
                let rseq = log.parsed().iter().filter_map(|(_, m)| m.as_ref()).find(|m| m.status() == Some(183)).and_then(|m| m.header("rseq").map(str::to_string));
                if let (Some(r), true) = (rseq, c.rng % 2 == 0) {
                    let needle = b"RAck: 1 1 INVITE";
                    if let Some(pos) = bytes.windows(needle.len()).position(|w| w == needle) {
                        bytes.splice(pos..pos + needle.len(), format!("RAck: {} 1 INVITE", r.trim()).bytes());
                    }
                }
                let needle = b"sometag";
                while let Some(pos) = bytes.windows(needle.len()).position(|w| w == needle) {
                    bytes.splice(pos..pos + needle.len(), tag.bytes());
                }
            }
            if let (Some(tag), false) = (tag, c.early) {
                let ack = request_text(
                    "ACK", "sip:ezk@10.0.0.1", &[format!("SIP/2.0/{via_transport} 192.0.2.9:5060;branch=z9hG4bKsetupack")],
                    "<sip:mallory@192.0.2.9>;tag=mt", &format!("<sip:ezk@10.0.0.1>;tag={tag}"), "c02-call", 1, "ACK", &[], b"");
                if c.before_ack {
                    late_ack = Some(ack);
                } else {
                    deliver(&endpoint, &tp, src, &mut conn, &ack).await;
                }
                // put the real tag into the hostile message
                let needle = b"sometag";
                while let Some(pos) = bytes.windows(needle.len()).position(|w| w == needle) {
                    bytes.splice(pos..pos + needle.len(), tag.bytes());
                }
            }
        }
        // the hostile input: one datagram, or the segments of a stream
        match (&c.stream_cuts, &mut conn) {
            (Some(selectors), Some(conn)) => {
                let total = bytes.len();
                let mut cuts: Vec<usize> = selectors.iter().map(|s| 1 + pick_idx(*s, total.saturating_sub(1).max(1))).collect();
                cuts.sort();
                cuts.dedup();
                let mut prev = 0;
                for cut in cuts.into_iter().chain([total]) {
                    if cut > prev && cut <= total {
                        conn.write(&bytes[prev..cut]).await;
                        settle().await;
                        prev = cut;
                    }
                }
            }
            _ => {
                inject(&endpoint, &tp, src, &bytes);
                // copies that arrive at the same instant: handed over before the first one was looked at
                for _ in c.retransmit_ms.iter().filter(|ms| **ms == 0) {
                    inject(&endpoint, &tp, src, &bytes);
                }
                settle().await;
            }
        }
        // what the peer does afterwards: the ACK of the set-up call when that is still owed (700 ms later), the ACKs
        // for the 3xx-6xx final responses it got to its INVITEs (`peer_ack_ms`, or never), the same datagram again
        // (`retransmit_ms`)
        let t0 = clock.now_ms();
        let mut timeline: Vec<(u64, u8)> = vec![];
        let had_late_ack = late_ack.is_some();
        if had_late_ack {
            timeline.push((700, 0));
        }
        if let Some(ms) = c.peer_ack_ms {
            timeline.push((ms, 1));
        }
        if conn.is_none() {
            timeline.extend(c.retransmit_ms.iter().filter(|ms| **ms > 0).map(|ms| (*ms, 2)));
        }
        timeline.sort();
        let mut acked = Default::default();
        let mut failure_acks_sent = 0u32;
        for (at, what) in timeline {
            clock.until(t0 + at).await;
            if what == 2 {
                inject(&endpoint, &tp, src, &bytes);
                settle().await;
            } else if what == 0 {
                if let Some(ack) = late_ack.take() {
                    deliver(&endpoint, &tp, src, &mut conn, &ack).await;
                }
            } else {
                for (tp_id, dest, ack) in failure_acks(&log, &mut acked) {
                    if tp_id >= 0x1_0000 {
                        if conn.as_ref().map_or(false, |c| c.id == tp_id) {
                            deliver(&endpoint, &tp, dest, &mut conn, &ack).await;
                            failure_acks_sent += 1;
                        }
                    } else {
                        inject(&endpoint, &tp, dest, &ack);
                        settle().await;
                        failure_acks_sent += 1;
                    }
                }
            }
        }
        // let timers of whatever the input started run for a while (retransmissions, session timers); the long life
        // reaches past the expiry of the 1800 s session timer of the set-up call (BYE by ezk, unanswered)
        let end = t0 + if had_late_ack { 700 } else { 0 } + if c.long_life { 1_900_000 } else { 40_000 };
        clock.until(end).await;
        settle().await;

        // datagram probe
        inject(&endpoint, &tp, probe_src, &probe_options(1, "UDP"));
        settle().await;
        // stream probe on a fresh connection
        let mut fresh = dialer.dial("192.0.2.77:40405");
        settle().await;
        fresh.write(&probe_options(2, "TCP")).await;
        settle().await;
        let wire = log.parsed();
        let answered = |branch: &str| wire.iter().any(|(_, m)| m.as_ref().map_or(false, |m| !m.is_request() && m.via_branch().as_deref() == Some(branch)));
        // 3xx-6xx final responses of ezk to an INVITE, by the kind of transport they went over
        let mut failures = (0u32, 0u32);
        for (s, m) in &wire {
            if let Some(m) = m {
                if m.status().map_or(false, |c| c >= 300) && m.cseq().map_or(false, |(_, method)| method == "INVITE") {
                    if s.tp >= 0x1_0000 {
                        failures.1 += 1;
                    } else {
                        failures.0 += 1;
                    }
                }
            }
        }
        // responses of ezk that carry the top-Via branch of the input, over the datagram transport: how often the
        // same one (status, CSeq) went out, and how long after the first time
        let mut answers_to_input = (0u32, 0u64);
        if let Some(branch) = WireMsg::parse(&bytes).filter(|m| m.is_request()).and_then(|m| m.via_branch()) {
            let mut first: BTreeMap<(u16, String), (u32, u64)> = BTreeMap::new();
            for (s, m) in &wire {
                let Some(m) = m else { continue };
                if s.tp < 0x1_0000 && !m.is_request() && m.via_branch().as_deref() == Some(branch.as_str()) {
                    let e = first.entry((m.status().unwrap_or(0), m.header("cseq").unwrap_or("").to_string())).or_insert((0, s.t_ms));
                    e.0 += 1;
                    answers_to_input.0 = answers_to_input.0.max(e.0);
                    answers_to_input.1 = answers_to_input.1.max(s.t_ms - e.1);
                }
            }
        }
        // the peer's connection stays open until here
        drop(conn);
        World { answered_dgram: answered("z9hG4bKprobe1"), answered_stream: answered("z9hG4bKprobe2"), wire_len: wire.len(), failures, failure_acks_sent, answers_to_input, setup_answered }
    });
    world_panics(out);
    guard_classes(&guard, out);
    if let Some(t) = guard.tripped_at_ms {
        out.fail(
            "c02.hang/task-polled-forever-while-time-stands-still",
            format!("after the hostile input a task of the endpoint never waits again: more than {SPIN_LIMIT} task polls at virtual time {t} ms, the runtime never goes idle (busy loop; with a paused clock time cannot advance, with a real clock one core is burnt)"),
        );
    }
    let Some(world) = world else { return };
    out.note = Some(format!("{} messages on the wire", world.wire_len));
    if world.failures.0 > 0 {
        out.class("INVITE-answered-3xx-6xx-over-datagram-transport");
    }
    if world.failures.1 > 0 {
        out.class("INVITE-answered-3xx-6xx-over-reliable-connection");
        if case.peer_ack_ms.map_or(true, |ms| ms > T1) {
            out.class("INVITE-answered-3xx-6xx-over-reliable-connection,no-ACK-within-T1");
        }
    }
    if world.failure_acks_sent > 0 {
        out.class("peer-ACKed-a-failure-response");
    }
    if case.in_dialog {
        out.class(match (world.setup_answered, case.stream_cuts.is_none() && case.send_ms > 0) {
            (true, true) => "set-up-call-answered(datagram transport with send latency)",
            (true, false) => "set-up-call-answered",
            (false, _) => "set-up-call-not-answered",
        });
    }
    if world.answers_to_input.0 > 1 {
        out.class("a-response-to-the-input-went-out-more-than-once");
        if !case.retransmit_ms.is_empty() && world.answers_to_input.1 > 64 * T1 {
            out.class("a-response-to-the-input-went-out-again-later-than-64*T1-after-the-first-time");
        }
    }
    if !world.answered_dgram {
        out.fail("c02.liveness/datagram-transport-silent", "a valid OPTIONS sent after the hostile input over the datagram transport got no response");
    }
    if !world.answered_stream {
        out.fail("c02.liveness/stream-listener-silent", "a valid OPTIONS on a fresh connection after the hostile input got no response");
    }
}

/// what the world of `check` reports
struct World {
    answered_dgram: bool,
    answered_stream: bool,
    wire_len: usize,
    /// 3xx-6xx final responses to an INVITE over (the datagram transport, a connection)
    failures: (u32, u32),
    failure_acks_sent: u32,
    /// (how often the most repeated response to the input went out over the datagram transport, ms between the first
    /// and the last time one response went out)
    answers_to_input: (u32, u64),
    /// in-dialog modes: the application's 200 (183 for `early`) to the INVITE that sets up the call was seen
    setup_answered: bool,
}

// ---------------------------------------------------------------------------------------------
// hostile responses to an INVITE sent through Initiator (UAC side of the invite layer)

const HOSTILE_RESP_HEADERS: &[&str] = &[
    "Session-Expires: 0", "Session-Expires: 1;refresher=uac", "Session-Expires: 9;refresher=uas", "Session-Expires: 4294967295;refresher=uac",
    "Session-Expires: 4294967295;refresher=uas", "Session-Expires: 4294967296", "Session-Expires: -1", "Session-Expires: x", "Session-Expires: 90;refresher=",
    "Require: 100rel", "RSeq: 4294967295", "RSeq: 4294967296", "RSeq: x", "Require: timer", "Require: ,,,",
    "Supported: timer, 100rel", "Supported: ,", "Contact: *", "Contact: <sip:", "Contact: x", "Contact: <sip:a@b>;expires=4294967296",
    "Record-Route: x", "Record-Route: <sip:p;lr>, ", "Record-Route: <sip:p;lr>,,<sip:q;lr>", "Min-SE: 4294967295",
    "To: <sip:bob@192.0.2.1>;tag=%41;tag=x", "CSeq: 4294967296 INVITE", "Content-Length: 18446744073709551615", "Via: x",
];

fn uac_strategy() -> BoxedStrategy<super::c13::Case> {
    use super::c13::{Case as C, RespEv};
    let ev = (
        prop_oneof![Just(1u64), Just(20u64), Just(600u64)],
        prop_oneof![Just(100u16), Just(180u16), Just(183u16), Just(200u16), Just(200u16), Just(486u16)],
        prop_oneof![1 => Just(None), 6 => (0u8..2).prop_map(Some)],
        prop::bool::weighted(0.8),
        0u8..3,
        any::<bool>(),
        prop::collection::vec(any::<u16>(), 0..4),
    )
        .prop_map(|(gap, code, tag, contact, record_routes, rseq, hs)| RespEv {
            gap,
            code,
            tag,
            contact,
            record_routes,
            supported_timer: true,
            supported_100rel: true,
            rseq,
            session_expires: None,
            extra: hs.into_iter().map(|h| HOSTILE_RESP_HEADERS[pick_idx(h, HOSTILE_RESP_HEADERS.len())].to_string()).collect(),
        });
    (prop::collection::vec(ev, 1..6), any::<u8>()).prop_map(|(responses, rng)| C { responses, rng }).boxed()
}

fn check_uac(case: &super::c13::Case, out: &mut CaseOut) {
    // the oracle here is the engine's panic capture; what the application is told is C13's subject
    let obs = super::c13::run(case);
    out.note = Some(format!("{} events", obs.events.len()));
    if obs.invite.is_none() {
        out.fail("c02.uac/invite-not-sent", "INVITE not sent");
    }
    let hostile = case.responses.iter().map(|r| r.extra.len()).sum::<usize>();
    if hostile > 0 {
        out.class("hostile-header-in-response");
        out.nontrivial(case);
    }
    for r in &case.responses {
        for h in &r.extra {
            if h.starts_with("Session-Expires") && (200..300).contains(&r.code) {
                out.class("hostile-session-expires-in-2xx");
            }
            if h.starts_with("RSeq") || h.starts_with("Require: 100rel") {
                out.class("hostile-rseq");
            }
        }
    }
}

// ---------------------------------------------------------------------------------------------
// the life of a session created from hostile responses (UAC side): the application USES what it was handed
//
// `uac_hostile_responses` above stops at the moment `Initiator` / `Early` hand the application a `Session`. Here the
// application goes on like a real one: every `Session` is driven (`Session::drive`, default handling of each event)
// while the peer-supplied values that were stored in it take effect: the session timer armed from the 2xx's
// Session-Expires fires (refresh re-INVITE by ezk, or BYE when the peer was the refresher), the peer answers those
// requests (or not) with further hostile responses, sends requests of its own inside the dialog, and the application
// finally hangs up (`Session::terminate`).

/// one response of the peer to the INVITE
#[derive(Serialize, Deserialize, Clone, Debug, Hash)]
pub struct LifeResp {
    /// ms after the previous one
    pub gap: u64,
    pub code: u16,
    /// None = no To-tag, Some(i) = fork "t<i>"
    pub tag: Option<u8>,
    /// complete header lines (Contact, Supported, Require, Session-Expires in any spelling, hostile extras)
    pub headers: Vec<String>,
}

/// what the peer does with one request ezk sends inside the dialog (refresh re-INVITE, BYE)
#[derive(Serialize, Deserialize, Clone, Debug, Hash)]
pub struct PeerAnswer {
    pub delay_ms: u64,
    pub code: u16,
    pub headers: Vec<String>,
}

/// a request of the peer inside the dialog of fork `tag`
#[derive(Serialize, Deserialize, Clone, Debug, Hash)]
pub struct PeerRequest {
    /// ms after the last response to the INVITE
    pub at_ms: u64,
    pub method: String,
    pub tag: u8,
    /// CSeq number as text (full integer range and beyond)
    pub cseq: String,
    pub headers: Vec<String>,
    /// the peer ACKs a 2xx to its re-INVITE
    pub ack: bool,
}

#[derive(Serialize, Deserialize, Clone, Debug, Hash)]
pub struct LifeCase {
    pub responses: Vec<LifeResp>,
    /// i-th entry = the peer's reaction to the i-th distinct in-dialog request ezk sends (None / missing = silence)
    pub answers: Vec<Option<PeerAnswer>>,
    pub requests: Vec<PeerRequest>,
    /// how `Initiator` is configured (see `LIFE_CONFIGS`)
    pub config: u8,
    /// events the application handles per session before it stops calling `drive` (it keeps the session)
    pub max_events: u8,
    /// the application hangs up (`Session::terminate`) this long after it was handed the session
    pub hangup_ms: Option<u64>,
    /// the application answers a re-INVITE with 200 (else it lets go of the event)
    pub accept_reinvite: bool,
    /// virtual time the world runs after the last response to the INVITE
    pub life_ms: u64,
    /// shape labels of the generator (fixed vocabulary, see `LIFE_LABELS`)
    pub labels: Vec<String>,
    pub rng: u8,
}

/// Session-Expires delta as the peer writes it: (text, class)
const SE_DELTAS: &[(&str, &str)] = &[
    ("0", "se-delta:0"), ("1", "se-delta:1..9"), ("2", "se-delta:1..9"), ("3", "se-delta:1..9"), ("9", "se-delta:1..9"),
    ("10", "se-delta:10..22"), ("11", "se-delta:10..22"), ("19", "se-delta:10..22"), ("20", "se-delta:10..22"), ("21", "se-delta:10..22"), ("22", "se-delta:10..22"),
    ("40", "se-delta:30..91"), ("89", "se-delta:30..91"), ("90", "se-delta:30..91"), ("91", "se-delta:30..91"),
    ("1800", "se-delta:1800"),
    ("4294967285", "se-delta:near-u32-max"), ("4294967286", "se-delta:near-u32-max"), ("4294967295", "se-delta:near-u32-max"),
    ("4294967296", "se-delta:not-a-u32"), ("-1", "se-delta:not-a-u32"), ("", "se-delta:not-a-u32"),
    ("007", "se-delta:1..9"), ("5 ", "se-delta:1..9"), ("0", "se-delta:0"), ("4", "se-delta:1..9"), ("12", "se-delta:10..22"), ("30", "se-delta:30..91"),
];
/// what follows the delta: (text, class). RFC 4028 wants `;refresher=uac|uas` in a 2xx, a sloppy or hostile peer sends anything
const SE_PARAMS: &[(&str, &str)] = &[
    ("", "se-param:none"), ("", "se-param:none"), ("", "se-param:none"),
    (";refresher=uac", "se-param:refresher=uac"), (";refresher=uac", "se-param:refresher=uac"),
    (";refresher=uas", "se-param:refresher=uas"), (";refresher=uas", "se-param:refresher=uas"),
    (";refresher=", "se-param:refresher-with-empty-or-unknown-value"), (";refresher=x", "se-param:refresher-with-empty-or-unknown-value"),
    (";refresher", "se-param:refresher-with-empty-or-unknown-value"), (";refresher=uacs", "se-param:refresher-with-empty-or-unknown-value"),
    (";REFRESHER=UAS", "se-param:refresher-in-other-letter-case"), (";refresher=UAC", "se-param:refresher-in-other-letter-case"), (";Refresher=Uas", "se-param:refresher-in-other-letter-case"),
    (";x=y", "se-param:other-parameters-only"), (";lr", "se-param:other-parameters-only"), (";refresh=uac", "se-param:other-parameters-only"),
    (";x=y;refresher=uas", "se-param:refresher-among-others-or-twice"), (";refresher=uas;refresher=uac", "se-param:refresher-among-others-or-twice"), (";refresher=uac;x", "se-param:refresher-among-others-or-twice"),
    (";;", "se-param:odd-syntax"), (" ; refresher = uac", "se-param:odd-syntax"), (";refresher=\"uac\"", "se-param:odd-syntax"), (";refresher=%75as", "se-param:odd-syntax"),
];
const SE_NAMES: &[&str] = &["Session-Expires", "Session-Expires", "Session-Expires", "Session-Expires", "x", "session-expires", "SESSION-EXPIRES"];

/// `Initiator` configurations: (support_timer, support_100rel, expires_secs, refresher 0 = unspecified 1 = uac 2 = uas, class)
const LIFE_CONFIGS: &[(bool, bool, Option<u32>, u8, &str)] = &[
    (true, true, None, 0, "initiator:default"),
    (true, true, None, 0, "initiator:default"),
    (true, true, Some(90), 1, "initiator:asks-90-refresher-uac"),
    (true, true, Some(1800), 2, "initiator:asks-1800-refresher-uas"),
    (true, false, Some(4294967295), 0, "initiator:asks-u32max-no-100rel"),
    (false, true, None, 0, "initiator:timer-not-supported"),
];

/// every class label of this sub-check (labels travel in the case as text; the histogram wants `&'static str`)
const LIFE_LABELS: &[&str] = &[
    "2xx-without-session-expires", "2xx-with-require-timer", "2xx-without-contact", "2xx-with-hostile-extra-header", "18x-with-session-expires",
    "18x-reliable(Require 100rel, RSeq)", "history:2xx-first", "history:18x-then-2xx-same-fork", "history:2xx-of-two-forks", "history:failure-or-none",
    "peer-request:BYE", "peer-request:INVITE", "peer-request:UPDATE", "peer-request:other-method", "peer-answers-ezk's-in-dialog-request", "peer-silent-to-ezk's-in-dialog-requests",
    "application-hangs-up", "application-accepts-re-INVITE",
];

fn static_label(l: &str) -> Option<&'static str> {
    LIFE_LABELS
        .iter()
        .chain(SE_DELTAS.iter().map(|x| &x.1))
        .chain(SE_PARAMS.iter().map(|x| &x.1))
        .chain(LIFE_CONFIGS.iter().map(|x| &x.4))
        .find(|s| **s == l)
        .copied()
}

/// a Session-Expires header line (any spelling of the name, delta x parameters) and its two classes
fn session_expires_line() -> BoxedStrategy<(String, [&'static str; 2])> {
    (any::<u16>(), any::<u16>(), any::<u16>())
        .prop_map(|(n, d, p)| {
            let name = SE_NAMES[pick_idx(n, SE_NAMES.len())];
            let (delta, dl) = SE_DELTAS[pick_idx(d, SE_DELTAS.len())];
            let (param, pl) = SE_PARAMS[pick_idx(p, SE_PARAMS.len())];
            (format!("{name}: {delta}{param}"), [dl, pl])
        })
        .boxed()
}

fn hostile_lines(max: usize) -> BoxedStrategy<Vec<String>> {
    prop::collection::vec(
        prop_oneof![
            3 => any::<u16>().prop_map(|h| HOSTILE_RESP_HEADERS[pick_idx(h, HOSTILE_RESP_HEADERS.len())].to_string()),
            1 => session_expires_line().prop_map(|x| x.0),
        ],
        0..=max,
    )
    .boxed()
}

/// the ingredients of one response; code and To-tag may be overridden by the shape of the history
#[derive(Clone, Debug)]
struct RespParts {
    gap: u64,
    code: u16,
    tag: Option<u8>,
    contact: bool,
    se: Option<(String, [&'static str; 2])>,
    require_timer: bool,
    supported: bool,
    reliable: bool,
    hostile: Vec<String>,
}

fn resp_parts() -> BoxedStrategy<RespParts> {
    (
        prop_oneof![Just(1u64), Just(20u64), Just(600u64)],
        prop_oneof![1 => Just(100u16), 2 => Just(180u16), 2 => Just(183u16), 6 => Just(200u16), 1 => Just(202u16), 1 => Just(486u16)],
        prop_oneof![1 => Just(None), 6 => Just(Some(0u8)), 3 => Just(Some(1u8))],
        prop::bool::weighted(0.96),
        prop::option::weighted(0.9, session_expires_line()),
        (prop::bool::weighted(0.6), prop::bool::weighted(0.7), prop::bool::weighted(0.3)),
        prop_oneof![7 => Just(vec![]), 1 => hostile_lines(2)],
    )
        .prop_map(|(gap, code, tag, contact, se, (require_timer, supported, reliable), hostile)| RespParts { gap, code, tag, contact, se, require_timer, supported, reliable, hostile })
        .boxed()
}

fn build_resp(p: RespParts) -> (LifeResp, Vec<&'static str>) {
    let RespParts { gap, code, tag, contact, se, require_timer, supported, reliable, hostile } = p;
    let mut headers = vec![];
    let mut labels = vec![];
    let tag = if code == 100 { None } else { tag };
    if contact {
        headers.push("Contact: <sip:bob@192.0.2.1:5060>".to_string());
    }
    if supported {
        headers.push("Supported: timer, 100rel".to_string());
    }
    match code {
        200..=299 => {
            if !contact {
                labels.push("2xx-without-contact");
            }
            if require_timer {
                headers.push("Require: timer".to_string());
                labels.push("2xx-with-require-timer");
            }
            match se {
                Some((line, classes)) => {
                    headers.push(line);
                    labels.extend(classes);
                }
                None => labels.push("2xx-without-session-expires"),
            }
            if !hostile.is_empty() {
                labels.push("2xx-with-hostile-extra-header");
            }
        }
        101..=199 => {
            if reliable {
                headers.push("Require: 100rel".to_string());
                headers.push(format!("RSeq: {}", 1 + gap));
                labels.push("18x-reliable(Require 100rel, RSeq)");
            }
            // a Session-Expires in a provisional response means nothing, but it is there when the 2xx is not
            if let (Some((line, _)), true) = (se, require_timer && reliable) {
                headers.push(line);
                labels.push("18x-with-session-expires");
            }
        }
        _ => {}
    }
    headers.extend(hostile);
    (LifeResp { gap, code, tag, headers }, labels)
}

/// shapes of the response history: (code, To-tag) of the leading responses; what follows them is free
const HISTORY_SHAPES: &[&[(u16, Option<u8>)]] = &[
    &[],
    &[(200, Some(0))],
    &[(200, Some(0))],
    &[(180, Some(0)), (200, Some(0))],
    &[(183, Some(0)), (200, Some(0))],
    &[(100, None), (180, Some(1)), (200, Some(1))],
    &[(180, Some(0)), (200, Some(1))],
    &[(200, Some(0)), (200, Some(1))],
    &[(180, Some(0)), (180, Some(1)), (200, Some(1)), (200, Some(0))],
];

fn life_strategy() -> BoxedStrategy<LifeCase> {
    let answer = prop::option::weighted(
        0.6,
        (
            prop_oneof![Just(1u64), Just(600u64), Just(5_000u64), Just(33_000u64)],
            prop_oneof![1 => Just(100u16), 1 => Just(180u16), 5 => Just(200u16), 1 => Just(202u16), 1 => Just(404u16), 1 => Just(408u16), 1 => Just(481u16), 1 => Just(491u16), 1 => Just(500u16), 1 => Just(603u16)],
            prop_oneof![3 => Just(vec![]), 2 => hostile_lines(2)],
        )
            .prop_map(|(delay_ms, code, headers)| PeerAnswer { delay_ms, code, headers }),
    );
    let request = (
        prop_oneof![Just(5u64), Just(300u64), Just(3_000u64), Just(12_000u64), Just(40_000u64)],
        prop_oneof![3 => Just("BYE"), 3 => Just("INVITE"), 2 => Just("UPDATE"), 1 => Just("OPTIONS"), 1 => Just("INFO"), 1 => Just("ACK"), 1 => Just("PRACK"), 1 => Just("CANCEL")],
        prop_oneof![3 => Just(0u8), 1 => Just(1u8)],
        prop_oneof![4 => Just("1"), 2 => Just("2"), 1 => Just("0"), 1 => Just("4294967294"), 2 => Just("4294967295"), 1 => Just("4294967296")],
        prop_oneof![2 => Just(vec![]), 3 => hostile_lines(2)],
        any::<bool>(),
    )
        .prop_map(|(at_ms, method, tag, cseq, headers, ack)| PeerRequest { at_ms, method: method.to_string(), tag, cseq: cseq.to_string(), headers, ack });
    (
        (prop::collection::vec(resp_parts(), 1..5), any::<u16>()),
        prop::collection::vec(answer, 0..4),
        prop_oneof![1 => Just(vec![]), 1 => prop::collection::vec(request, 1..3)],
        any::<u16>(),
        1u8..7,
        prop::option::weighted(0.3, prop_oneof![Just(400u64), Just(7_000u64), Just(36_000u64), Just(95_000u64)]),
        any::<bool>(),
        prop_oneof![1 => Just(900u64), 3 => Just(26_000u64), 3 => Just(70_000u64), 3 => Just(140_000u64), 1 => Just(1_900_000u64)],
        any::<u8>(),
    )
        .prop_map(|((mut parts, shape), answers, mut requests, cfg, max_events, hangup_ms, accept_reinvite, life_ms, rng)| {
            let config = pick_idx(cfg, LIFE_CONFIGS.len()) as u8;
            let mut labels: Vec<&'static str> = vec![LIFE_CONFIGS[config as usize].4];
            let shape = HISTORY_SHAPES[pick_idx(shape, HISTORY_SHAPES.len())];
            while parts.len() < shape.len() {
                let again = parts[parts.len() - 1].clone();
                parts.push(again);
            }
            for (p, (code, tag)) in parts.iter_mut().zip(shape.iter()) {
                p.code = *code;
                p.tag = *tag;
            }
            let mut responses = vec![];
            for p in parts {
                let (r, l) = build_resp(p);
                labels.extend(l);
                responses.push(r);
            }
            // shape of the history
            let first_2xx = responses.iter().position(|r| (200..300).contains(&r.code) && r.tag.is_some());
            labels.push(match first_2xx {
                None => "history:failure-or-none",
                Some(i) => {
                    let tag = responses[i].tag;
                    if responses.iter().any(|r| (200..300).contains(&r.code) && r.tag.is_some() && r.tag != tag) {
                        "history:2xx-of-two-forks"
                    } else if responses[..i].iter().any(|r| (101..200).contains(&r.code) && r.tag == tag) {
                        "history:18x-then-2xx-same-fork"
                    } else {
                        "history:2xx-first"
                    }
                }
            });
            requests.sort_by_key(|q| q.at_ms);
            for q in &requests {
                labels.push(match q.method.as_str() {
                    "BYE" => "peer-request:BYE",
                    "INVITE" => "peer-request:INVITE",
                    "UPDATE" => "peer-request:UPDATE",
                    _ => "peer-request:other-method",
                });
            }
            labels.push(if answers.iter().any(|a| a.is_some()) { "peer-answers-ezk's-in-dialog-request" } else { "peer-silent-to-ezk's-in-dialog-requests" });
            if hangup_ms.is_some() {
                labels.push("application-hangs-up");
            }
            if accept_reinvite {
                labels.push("application-accepts-re-INVITE");
            }
            labels.sort();
            labels.dedup();
            LifeCase { responses, answers, requests, config, max_events, hangup_ms, accept_reinvite, life_ms, labels: labels.into_iter().map(str::to_string).collect(), rng }
        })
        .boxed()
}

/// Datagram transport whose `send` appends to the wire log AND hands the message to the scripted peer
struct TapDatagram {
    log: WireLog,
    bound: SocketAddr,
    tap: tokio::sync::mpsc::UnboundedSender<Sent>,
}

impl std::fmt::Debug for TapDatagram {
    fn fmt(&self, f: &mut std::fmt::Formatter<'_>) -> std::fmt::Result {
        write!(f, "TapDatagram({})", self.bound)
    }
}
impl std::fmt::Display for TapDatagram {
    fn fmt(&self, f: &mut std::fmt::Formatter<'_>) -> std::fmt::Result {
        write!(f, "mock:UDP:{}", self.bound)
    }
}

#[async_trait::async_trait]
impl sip_core::transport::Transport for TapDatagram {
    fn name(&self) -> &'static str {
        "UDP"
    }
    fn secure(&self) -> bool {
        false
    }
    fn reliable(&self) -> bool {
        false
    }
    fn bound(&self) -> SocketAddr {
        self.bound
    }
    fn sent_by(&self) -> SocketAddr {
        self.bound
    }
    fn direction(&self) -> sip_core::transport::Direction {
        sip_core::transport::Direction::None
    }
    async fn send(&self, message: &[u8], target: SocketAddr) -> std::io::Result<()> {
        let s = Sent { t_ms: self.log.clock.now_ms(), tp: 1, dest: target, bytes: bytes::Bytes::copy_from_slice(message) };
        self.log.sent.lock().push(s.clone());
        let _ = self.tap.send(s);
        Ok(())
    }
}

/// what the application and the wire saw (counters only: the oracle is "no panic, still alive")
#[derive(Default, Clone, Debug)]
struct LifeObs {
    invite_sent: bool,
    sessions_direct: u32,
    sessions_through_early: u32,
    no_session_errors: u32,
    refresh_needed: u32,
    refresh_failed: u32,
    bye_events: u32,
    reinvite_events: u32,
    terminated_events: u32,
    drive_errors: u32,
    hung_up: u32,
    gave_up_driving: u32,
    /// distinct requests ezk sent inside a dialog (by branch): re-INVITE, BYE
    ezk_reinvites: u32,
    ezk_byes: u32,
    peer_answered: u32,
    probe_answered: bool,
    wire_len: usize,
}

type SharedObs = std::sync::Arc<parking_lot::Mutex<LifeObs>>;

#[derive(Clone, Copy)]
struct AppCfg {
    max_events: u8,
    hangup_ms: Option<u64>,
    accept_reinvite: bool,
}

/// the application's handling of one `Session`: drive it, handle every event the default way, hang up when it is time
async fn session_life(mut session: sip_ua::invite::session::Session, cfg: AppCfg, obs: SharedObs, parked: std::sync::Arc<parking_lot::Mutex<Vec<sip_ua::invite::session::Session>>>) {
    let deadline = cfg.hangup_ms.map(|h| tokio::time::Instant::now() + std::time::Duration::from_millis(h));
    let mut hang_up = false;
    let mut ended = false;
    for _ in 0..cfg.max_events {
        let event = match deadline {
            Some(d) => match tokio::time::timeout_at(d, session.drive()).await {
                Ok(e) => e,
                Err(_) => {
                    hang_up = true;
                    break;
                }
            },
            None => session.drive().await,
        };
        match event {
            Ok(SessionEvent::RefreshNeeded(e)) => {
                obs.lock().refresh_needed += 1;
                if e.process_default().await.is_err() {
                    obs.lock().refresh_failed += 1;
                }
            }
            Ok(SessionEvent::Bye(e)) => {
                obs.lock().bye_events += 1;
                let _ = e.process_default().await;
            }
            Ok(SessionEvent::ReInviteReceived(e)) => {
                obs.lock().reinvite_events += 1;
                if cfg.accept_reinvite {
                    if let Ok(response) = e.session.dialog.create_response(&e.invite, Code::OK, None) {
                        let _ = e.respond_success(response).await;
                    }
                }
            }
            Ok(SessionEvent::Terminated) => {
                obs.lock().terminated_events += 1;
                ended = true;
                break;
            }
            Err(_) => {
                obs.lock().drive_errors += 1;
                ended = true;
                break;
            }
        }
    }
    if ended {
        return;
    }
    if hang_up {
        obs.lock().hung_up += 1;
        let _ = session.terminate().await;
    } else {
        // the application has other things to do; it keeps the session object until the end of the world
        obs.lock().gave_up_driving += 1;
        parked.lock().push(session);
    }
}

fn run_life(case: &LifeCase) -> (Option<LifeObs>, Guard) {
    use sip_ua::invite::initiator::{EarlyResponse, Initiator, Response};
    use std::sync::Arc;
    let c = case.clone();
    run_world_guarded(case.rng as u64, |clock| async move {
        let obs: SharedObs = Default::default();
        let log = WireLog::new(clock);
        let (tap_tx, mut tap_rx) = tokio::sync::mpsc::unbounded_channel::<Sent>();
        let tp = sip_core::transport::TpHandle::new(TapDatagram { log: log.clone(), bound: "10.0.0.1:5060".parse().unwrap(), tap: tap_tx });
        let mut b = offline_builder();
        b.add_unmanaged_transport(tp.clone());
        let dl = b.add_layer(DialogLayer::default());
        let il = b.add_layer(InviteLayer::default());
        let endpoint = b.build();
        let peer: SocketAddr = "192.0.2.1:5060".parse().unwrap();

        let local: SipUri = "sip:alice@example.org".parse().unwrap();
        let contact: SipUri = "sip:alice@10.0.0.1:5060".parse().unwrap();
        let target: SipUri = "sip:bob@192.0.2.1".parse().unwrap();
        let mut initiator = Initiator::new(endpoint.clone(), dl, il, NameAddr::uri(local), Contact::new(NameAddr::uri(contact)), Box::new(target));
        let (support_timer, support_100rel, expires_secs, refresher, _) = LIFE_CONFIGS[(c.config as usize).min(LIFE_CONFIGS.len() - 1)];
        initiator.support_timer = support_timer;
        initiator.support_100rel = support_100rel;
        initiator.timer_config.expires_secs = expires_secs;
        initiator.timer_config.refresher = match refresher {
            1 => Refresher::Uac,
            2 => Refresher::Uas,
            _ => Refresher::Unspecified,
        };
        let invite = initiator.create_invite();
        if initiator.send_invite(invite).await.is_err() {
            return obs.lock().clone();
        }
        settle().await;
        let Some(inv) = log.snapshot().first().and_then(|s| WireMsg::parse(&s.bytes)) else { return obs.lock().clone() };
        obs.lock().invite_sent = true;

        // ---- the application
        let cfg = AppCfg { max_events: c.max_events, hangup_ms: c.hangup_ms, accept_reinvite: c.accept_reinvite };
        let parked: Arc<parking_lot::Mutex<Vec<sip_ua::invite::session::Session>>> = Default::default();
        {
            let (obs, parked) = (obs.clone(), parked.clone());
            tokio::spawn(async move {
                loop {
                    match initiator.receive().await {
                        Ok(Response::Provisional(_)) | Ok(Response::Failure(_)) => {}
                        Ok(Response::Early(mut early, _, _)) => {
                            let (obs, parked) = (obs.clone(), parked.clone());
                            tokio::spawn(async move {
                                loop {
                                    match early.receive().await {
                                        Ok(EarlyResponse::Provisional(..)) => {}
                                        Ok(EarlyResponse::Success(session, _)) => {
                                            obs.lock().sessions_through_early += 1;
                                            // the early dialog has become a session: the application lets go of it
                                            drop(early);
                                            session_life(session, cfg, obs, parked).await;
                                            return;
                                        }
                                        Ok(EarlyResponse::Terminated) => return,
                                        Err(_) => {
                                            obs.lock().no_session_errors += 1;
                                            return;
                                        }
                                    }
                                }
                            });
                        }
                        Ok(Response::Session(session, _)) => {
                            obs.lock().sessions_direct += 1;
                            tokio::spawn(session_life(session, cfg, obs.clone(), parked.clone()));
                        }
                        Ok(Response::Finished) => break,
                        Err(_) => {
                            obs.lock().no_session_errors += 1;
                            break;
                        }
                    }
                }
                // keep the initiator alive until the world ends (early dialogs reference its channels)
                std::future::pending::<()>().await;
                drop(initiator);
            });
        }

        // ---- the peer's reactions to what ezk sends inside the dialogs
        {
            let (obs, endpoint, tp, c) = (obs.clone(), endpoint.clone(), tp.clone(), c.clone());
            tokio::spawn(async move {
                let mut seen = std::collections::BTreeSet::new();
                let mut ordinal = 0usize;
                while let Some(sent) = tap_rx.recv().await {
                    let Some(m) = WireMsg::parse(&sent.bytes) else { continue };
                    if m.is_request() {
                        let method = m.method().unwrap_or("").to_string();
                        if method == "ACK" || m.to_tag().is_none() {
                            continue;
                        }
                        // retransmissions carry the branch of the original
                        if !seen.insert(m.via_branch().unwrap_or_default()) {
                            continue;
                        }
                        match method.as_str() {
                            "INVITE" => obs.lock().ezk_reinvites += 1,
                            "BYE" => obs.lock().ezk_byes += 1,
                            _ => {}
                        }
                        let answer = c.answers.get(ordinal).cloned().flatten();
                        ordinal += 1;
                        if let Some(a) = answer {
                            let (obs, endpoint, tp) = (obs.clone(), endpoint.clone(), tp.clone());
                            tokio::spawn(async move {
                                tokio::time::sleep(std::time::Duration::from_millis(a.delay_ms)).await;
                                obs.lock().peer_answered += 1;
                                inject(&endpoint, &tp, peer, &response_text(&m, a.code, None, &a.headers));
                            });
                        }
                    } else if let (Some(code), Some((num, method))) = (m.status(), m.cseq()) {
                        // a 2xx of ezk to a re-INVITE of the peer: ACK it when the script says so
                        let branch = m.via_branch().unwrap_or_default();
                        let Some(i) = branch.strip_prefix("z9hG4bKc02peer").and_then(|n| n.parse::<usize>().ok()) else { continue };
                        if (200..300).contains(&code) && method == "INVITE" && c.requests.get(i).map_or(false, |q| q.ack) {
                            let ack = request_text(
                                "ACK", "sip:alice@10.0.0.1:5060", &[format!("SIP/2.0/UDP 192.0.2.1:5060;branch=z9hG4bKc02peerack{i}")],
                                m.header("from").unwrap_or(""), m.header("to").unwrap_or(""), m.header("call-id").unwrap_or(""), num, "ACK", &[], b"");
                            inject(&endpoint, &tp, peer, &ack);
                        }
                    }
                }
            });
        }

        // ---- the script: responses to the INVITE, then the peer's own requests inside the dialog
        let mut t = 0;
        for (i, r) in c.responses.iter().enumerate() {
            t += r.gap;
            clock.until(t).await;
            let mut headers = vec![format!("X-Seq: m{i}")];
            headers.extend(r.headers.iter().cloned());
            let tag = r.tag.map(|t| format!("t{t}"));
            inject(&endpoint, &tp, peer, &response_text(&inv, r.code, tag.as_deref(), &headers));
            settle().await;
        }
        // From of the INVITE (with ezk's tag) is the To of the peer's requests, its To plus the fork's tag their From
        let ezk_side = inv.header("from").unwrap_or("").to_string();
        let peer_side = inv.header("to").unwrap_or("").to_string();
        let call_id = inv.header("call-id").unwrap_or("").to_string();
        for (i, q) in c.requests.iter().enumerate() {
            clock.until(t + q.at_ms).await;
            let mut s = format!("{} sip:alice@10.0.0.1:5060 SIP/2.0\r\n", q.method);
            s.push_str(&format!("Via: SIP/2.0/UDP 192.0.2.1:5060;branch=z9hG4bKc02peer{i}\r\n"));
            s.push_str(&format!("From: {peer_side};tag=t{}\r\nTo: {ezk_side}\r\nCall-ID: {call_id}\r\n", q.tag));
            s.push_str(&format!("CSeq: {} {}\r\nMax-Forwards: 70\r\nContact: <sip:bob@192.0.2.1:5060>\r\n", q.cseq, q.method));
            for h in &q.headers {
                s.push_str(h);
                s.push_str("\r\n");
            }
            s.push_str("Content-Length: 0\r\n\r\n");
            inject(&endpoint, &tp, peer, s.as_bytes());
            settle().await;
        }
        clock.until(t + c.life_ms).await;
        settle().await;

        // ---- liveness: a valid request from a third party is still answered
        let probe_src: SocketAddr = "192.0.2.77:5060".parse().unwrap();
        inject(&endpoint, &tp, probe_src, &probe_options(1, "UDP"));
        settle().await;
        let wire = log.parsed();
        let answered = wire.iter().any(|(_, m)| m.as_ref().map_or(false, |m| !m.is_request() && m.via_branch().as_deref() == Some("z9hG4bKprobe1")));
        let mut o = obs.lock().clone();
        o.probe_answered = answered;
        o.wire_len = wire.len();
        parked.lock().clear();
        o
    })
}

fn check_life(case: &LifeCase, out: &mut CaseOut) {
    for l in &case.labels {
        if let Some(s) = static_label(l) {
            out.class(s);
        }
    }
    // the oracle: the engine's panic capture (any task of the world), the INVITE went out, the endpoint is still alive
    let (obs, guard) = run_life(case);
    world_panics(out);
    guard_classes(&guard, out);
    if let Some(t) = guard.tripped_at_ms {
        out.fail(
            "c02.hang/task-polled-forever-while-time-stands-still",
            format!("during the life of the session a task never waits again: more than {SPIN_LIMIT} task polls at virtual time {t} ms, the runtime never goes idle (busy loop)"),
        );
    }
    let Some(obs) = obs else { return };
    out.note = Some(format!("{obs:?}"));
    if !obs.invite_sent {
        out.fail("c02.uac-life/invite-not-sent", "INVITE not sent");
        return;
    }
    if !obs.probe_answered {
        out.fail("c02.uac-life/endpoint-silent-after-session", "a valid OPTIONS sent after the session's life got no response");
    }
    let sessions = obs.sessions_direct + obs.sessions_through_early;
    if obs.sessions_direct > 0 {
        out.class("application-got-session-directly-from-2xx");
    }
    if obs.sessions_through_early > 0 {
        out.class("application-got-session-through-early-dialog");
    }
    if sessions == 0 {
        out.class("no-session");
    }
    if obs.refresh_needed > 0 {
        out.class("session-timer-fired:application-told-to-refresh");
    }
    if obs.refresh_needed > 1 {
        out.class("session-timer-fired-again-after-a-refresh");
    }
    if obs.ezk_reinvites > 0 {
        out.class("ezk-sent-refresh-re-INVITE");
    }
    if obs.ezk_byes > 0 && obs.hung_up == 0 {
        out.class("session-timer-fired:session-expired(BYE by ezk)");
    }
    if obs.peer_answered > 0 {
        out.class("peer-answered-ezk's-in-dialog-request");
    }
    if obs.bye_events > 0 {
        out.class("peer's-BYE-reached-the-session");
    }
    if obs.reinvite_events > 0 {
        out.class("peer's-re-INVITE-reached-the-session");
    }
    if obs.hung_up > 0 {
        out.class("application-hung-up(Session::terminate)");
    }
    if obs.terminated_events > 0 {
        out.class("session-reported-Terminated");
    }
    if obs.drive_errors > 0 {
        out.class("Session::drive-returned-an-error");
    }
    if obs.gave_up_driving > 0 {
        out.class("application-stopped-driving(max events)");
    }
    // non-trivial: a session existed and something happened in it after it was created
    let activity = obs.refresh_needed + obs.ezk_byes + obs.ezk_reinvites + obs.bye_events + obs.reinvite_events + obs.hung_up + obs.terminated_events + obs.drive_errors;
    if sessions > 0 && activity > 0 {
        out.nontrivial(case);
    }
}

fn seed_corpus_datagram(dir: &std::path::Path) {
    for (i, c) in sample_strategy(&strategy(), 7, 300).into_iter().enumerate() {
        let _ = std::fs::write(dir.join(format!("gen-{i:03}")), &c.bytes);
    }
    for (i, m) in super::c03::corpus().into_iter().enumerate() {
        let _ = std::fs::write(dir.join(format!("c03-{i:03}")), m.bytes());
    }
}

pub fn property() -> Property {
    Property {
        fuzz: vec![FuzzStage { target: "sip_datagram", runs: 2_000_000, max_len: 6000, seed_corpus: seed_corpus_datagram }],
        id: "C02",
        rule: "hostile: a case = one hostile input: (60%) a valid INVITE / OPTIONS / in-dialog BYE, re-INVITE, PRACK, ACK, UPDATE / 200 response / REGISTER / CANCEL of the pending INVITE with 1..3 mutations from a 30-entry catalogue (Content-Length incl. usize::MAX, duplicate compact l, CSeq / Session-Expires / Min-SE / Expires / Max-Forwards / RSeq / RAck over {0,1,9,10,11,u32::MAX-1,u32::MAX,u32::MAX+1,2^64-1,2^64,-1,...}, hostile Via / From / To / Contact / auth values, missing base headers, 20 Vias, invalid UTF-8, broken start lines, obs-fold, 4096+-2 byte heads, broken head terminators, body length mismatch, long malformed values with a multi-byte character at any offset, the branch of a live transaction, a SIP URI built component-wise from the RFC 3261 25.1 grammar {scheme spelling} x {no userinfo, user, user:password; plain / every allowed character class / %XX decoding to ASCII, to a reserved character, to valid or invalid UTF-8, to NUL / just outside the grammar} x {IPv4, host name, IPv6 reference} x {port} x {uri-parameters, with escapes} x {headers, with escapes} placed in the request line / From / To / Contact / Route / Record-Route as name-addr, with display name or bare, escapes / quoted strings / quoted pairs in display names and header parameters of From, To, Via, Call-ID, Contact, Content-Type), optional LF-only line ends, leading CRLFs, truncation; (20%) byte-level mutations of valid messages; (20%) random bytes / ASCII / SIP-token soup. Delivered as one datagram or over a stream connection (reliable transport) in random segments, outside a dialog or (40%) inside the dialog of a call set up before (established / before the ACK / INVITE pending; 21% of these run the whole call over the connection). Application policy: (50%) accepts every INVITE (180, reliable 183, 200, session driven for 4 events, re-INVITE let go), else one of: also answers a re-INVITE 200 / rejects at once with 486, 603 or 302 through the INVITE server transaction (re-INVITE: 488, 603, 500) / 180 then 480 through Acceptor::respond_failure / does not take the INVITE (the endpoint answers 481). Peer: ACKs every 3xx-6xx final response to its INVITE 50 ms / 700 ms / 5 s / 33 s after the input, or (40%) never. Datagram transport: (50%) instantaneous sends, else every send stays pending 1 / 7 / 20 / 60 ms of virtual time. Datagram delivery: (50%) the peer sends the identical datagram 1..3 more times, each at {same instant, T1, 2*T1, 4*T1, T2+T1, T4, 16*T1, 32*T1, 63*T1, 64*T1 (weight 4), 65*T1, 64*T1+T4} after the first copy displaced by -1 / 0 / +1 ms or uniformly -70..+130 ms (copies at offset 0 are handed over before the first one was looked at). Checked: datagram parser, every typed header decoder on every header value, the stream decoder (each stage isolated so that a panic is attributed to it), then the whole receive path of the endpoint for 40 s of virtual time (in-dialog, 20%: 1900 s, past the expiry of the call's 1800 s session timer) under the spin guard (no virtual instant may see more than 5000 task polls; sound runs stay below 100), and finally a valid OPTIONS over the datagram transport and over a fresh connection must each be answered. Non-trivial = the input reached header decoding (start line parsed) and is not pure noise; distinct by bytes + delivery scenario (transport, dialog state, application policy, peer ACK, send latency, retransmission times). uac_hostile_responses: 1..5 responses (100/180/183/200/486, forks, Contact, Record-Route, RSeq) carrying 0..3 lines of a hostile-header list to an INVITE sent through Initiator; non-trivial = at least one hostile line; distinct by case. uac_session_life: a response history by shape (2xx first / 18x then 2xx of the same fork / other fork / two 2xx / free) whose 2xx carry a Session-Expires line = name spelling x delta {0,1..22,30..91,1800,u32::MAX-10..u32::MAX,not a u32} x parameters {none, refresher=uac, =uas, empty/unknown value, other letter case, other parameters only, twice/among others, odd syntax}, with/without Require: timer, Supported, Contact, hostile extras; Initiator configuration (6); per in-dialog request of ezk a peer reaction (silence or code in {100,180,200,202,404,408,481,491,500,603} after 1 ms..33 s with hostile lines); 0..2 peer requests inside the dialog (BYE/INVITE/UPDATE/OPTIONS/INFO/ACK/PRACK/CANCEL, CSeq {0,1,2,u32::MAX-1,u32::MAX,u32::MAX+1}, hostile lines, ACK or not); an application that drives every Session it is handed (default handling of RefreshNeeded / Bye, 200 or nothing for a re-INVITE, 1..6 events, optional hang-up via Session::terminate after 0.4..95 s); 0.9 s..1900 s of virtual time under the spin guard; then a valid OPTIONS must be answered. Non-trivial = the application got a session and something happened in it afterwards (timer fired, request of ezk or of the peer inside the dialog, hang-up, Terminated, drive error); distinct by case.",
        assumptions: vec![
            "any panic on the case's thread (including spawned tasks of the current-thread runtime, e.g. the task driving a session) is a violation; a panic raised below ezk (dependency / std) inside one of the pure parsing stages is reported as c02.panic/<stage>-panics-inside-<crate> because its file:line (and for pointer assertions even which assertion fires) is not a function of the case; one raised below ezk inside a task of the world (hostile, uac_session_life) as c02.panic/receive-path-task-panics-inside-<crate>(<constant part of the message>)",
            "loop forever: a task that never again waits for anything in the future keeps the single-threaded runtime busy at one virtual instant; the spin guard (runtime hook counting task polls per virtual instant, limit 5000, a pure function of the case) reports it as c02.hang/...; a loop that never yields to the runtime at all cannot be interrupted from inside the thread and is left to the engine's wall-clock watchdog (inconclusive)",
            "that a malformed message is answered is not asserted, only that valid traffic after it is",
            "retransmissions / duplicates of the input and the send latency of the datagram transport only widen the set of histories: nothing is asserted about whether, when or how often a copy is answered (C05-C07), only that no task panics or spins and that valid traffic afterwards is answered; how often a response to the input went out and whether one went out again later than 64*T1 after the first time is reported as classes",
            "two copies of one datagram are handed to Endpoint::receive one after the other on the case's single thread (offset 0 = before any task ran in between); truly parallel dispatch on two worker threads of a multi_thread runtime (a race between lookup and registration inside one synchronous section) has no counterpart in the single-threaded world and is not covered",
            "uac_session_life asserts nothing about WHICH event the application gets, what ezk sends or when (C13, C17); the application calls only the public API in the documented order (keeps the Initiator alive, stops polling an Early after its session / error, never drives a session after Terminated / an error)",
            "hostile values inside live dialog / INVITE / REGISTER scenarios are additionally covered by the scenario sub-checks of C10, C12, C13, C17 (u32::MAX CSeq, hostile Session-Expires / Min-SE / Expires, retransmitted 2xx, missing To-tag)",
        ],
        explanation: "sampled; the mutation catalogue coverage, URI component shapes, application policy, peer ACK behaviour, send latency of the datagram transport, where the peer's retransmissions fall (same instant / within / around / after 64*T1, within one send duration after 64*T1) and whether a response went out again, failure responses per transport kind and the busiest virtual instant (hostile) and the Session-Expires delta / parameter classes, history shapes and what actually happened in the session (uac_session_life) are reported per entry in the class histogram",
        subs: vec![
            prop_sub("hostile", strategy, 3000, 60000, check),
            prop_sub("uac_hostile_responses", uac_strategy, 1500, 30000, check_uac),
            prop_sub("uac_session_life", life_strategy, 1000, 12000, check_life),
        ],
    }
}
