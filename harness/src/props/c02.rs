//! C02 — No network input can panic or hang the receive path

use super::c03::{decode_stream, hex_bytes};
use crate::engine::*;
use crate::world::stream::*;
use crate::world::*;
use proptest::prelude::*;
use serde::{Deserialize, Serialize};
use sip_core::transport::{parse_complete, CompleteItem};
use sip_core::{Endpoint, IncomingRequest, Layer, LayerKey, MayTake};
use sip_types::header::typed::*;
use sip_types::uri::sip::SipUri;
use sip_types::uri::NameAddr;
use sip_types::{Code, Headers, Method, Name};
use sip_ua::dialog::{Dialog, DialogLayer};
use sip_ua::invite::acceptor::Acceptor;
use sip_ua::invite::session::Event as SessionEvent;
use sip_ua::invite::InviteLayer;
use std::net::SocketAddr;

#[derive(Serialize, Deserialize, Clone, Debug, Hash)]
pub struct Case {
    #[serde(with = "hex_bytes")]
    pub bytes: Vec<u8>,
    /// which hostile features the generator put in (for the evidence histogram)
    pub labels: Vec<String>,
    /// deliver over a stream connection with these cut selectors (None = one datagram)
    pub stream_cuts: Option<Vec<u16>>,
    /// first establish a call, then deliver the input inside that dialog ("sometag" is replaced by the dialog's tag)
    #[serde(default)]
    pub in_dialog: bool,
    /// with in_dialog: deliver while the INVITE is still pending (application waits for the PRACK of its
    /// reliable 183) instead of after the call is established
    #[serde(default)]
    pub early: bool,
    /// with in_dialog (and not early): deliver after the application sent its 200 but before the peer's ACK
    #[serde(default)]
    pub before_ack: bool,
    pub rng: u8,
}

// ---------------------------------------------------------------------------------------------
// structured hostile messages

type H = Vec<(String, String)>;

fn base(kind: u8) -> (String, H, Vec<u8>) {
    let via = ("Via".to_string(), "SIP/2.0/UDP 192.0.2.9:5060;branch=z9hG4bKhostile1;rport".to_string());
    let from = ("From".to_string(), "\"Mallory\" <sip:mallory@192.0.2.9>;tag=mt".to_string());
    let to = ("To".to_string(), "<sip:ezk@10.0.0.1>".to_string());
    let cid = ("Call-ID".to_string(), "c02-call".to_string());
    let contact = ("Contact".to_string(), "<sip:mallory@192.0.2.9>".to_string());
    let mf = ("Max-Forwards".to_string(), "70".to_string());
    let dialog_to = ("To".to_string(), "<sip:ezk@10.0.0.1>;tag=sometag".to_string());
    match kind % 9 {
        5 => (
            "INVITE sip:ezk@10.0.0.1 SIP/2.0".into(),
            vec![via, mf, from, dialog_to, cid, ("CSeq".into(), "2 INVITE".into()), contact, ("Supported".into(), "timer".into()), ("Session-Expires".into(), "90;refresher=uac".into()), ("Content-Length".into(), "0".into())],
            vec![],
        ),
        6 => (
            "PRACK sip:ezk@10.0.0.1 SIP/2.0".into(),
            vec![via, mf, from, dialog_to, cid, ("CSeq".into(), "2 PRACK".into()), ("RAck".into(), "1 1 INVITE".into()), ("Content-Length".into(), "0".into())],
            vec![],
        ),
        7 => (
            "ACK sip:ezk@10.0.0.1 SIP/2.0".into(),
            vec![via, mf, from, dialog_to, cid, ("CSeq".into(), "1 ACK".into()), ("Content-Length".into(), "0".into())],
            vec![],
        ),
        8 => (
            "UPDATE sip:ezk@10.0.0.1 SIP/2.0".into(),
            vec![via, mf, from, dialog_to, cid, ("CSeq".into(), "2 UPDATE".into()), contact, ("Session-Expires".into(), "1800;refresher=uas".into()), ("Content-Length".into(), "0".into())],
            vec![],
        ),
        0 => (
            "INVITE sip:ezk@10.0.0.1 SIP/2.0".into(),
            vec![via, mf, from, to, cid, ("CSeq".into(), "1 INVITE".into()), contact, ("Supported".into(), "timer, 100rel".into()), ("Session-Expires".into(), "1800".into()), ("Min-SE".into(), "90".into()), ("Content-Type".into(), "application/sdp".into()), ("Content-Length".into(), "4".into())],
            b"v=0\n".to_vec(),
        ),
        1 => (
            "OPTIONS sip:ezk@10.0.0.1 SIP/2.0".into(),
            vec![via, mf, from, to, cid, ("CSeq".into(), "2 OPTIONS".into()), ("Accept".into(), "application/sdp".into()), ("Content-Length".into(), "0".into())],
            vec![],
        ),
        2 => (
            "BYE sip:ezk@10.0.0.1 SIP/2.0".into(),
            vec![via, mf, from, dialog_to, cid, ("CSeq".into(), "2 BYE".into()), ("Content-Length".into(), "0".into())],
            vec![],
        ),
        3 => (
            "SIP/2.0 200 OK".into(),
            vec![("Via".into(), "SIP/2.0/UDP 10.0.0.1:5060;branch=z9hG4bKnobody".into()), from, ("To".into(), "<sip:ezk@10.0.0.1>;tag=x".into()), cid, ("CSeq".into(), "4 INVITE".into()), contact, ("Require".into(), "timer".into()), ("Session-Expires".into(), "90;refresher=uas".into()), ("RSeq".into(), "1".into()), ("Content-Length".into(), "0".into())],
            vec![],
        ),
        _ => (
            "REGISTER sip:registrar.example.com SIP/2.0".into(),
            vec![via, mf, from, to, cid, ("CSeq".into(), "5 REGISTER".into()), contact, ("Expires".into(), "3600".into()), ("Authorization".into(), "Digest username=\"bob\", realm=\"r\", nonce=\"n\", uri=\"sip:r\", response=\"abc\"".into()), ("Content-Length".into(), "0".into())],
            vec![],
        ),
    }
}

const NUMS: &[&str] = &["0", "1", "2", "3", "9", "10", "11", "4294967294", "4294967295", "4294967296", "18446744073709551615", "18446744073709551616", "-1", "", "x", "1e9", " 7 ", "00000000000000000000000000000001"];
const CLENS: &[&str] = &["18446744073709551615", "9223372036854775808", "4294967296", "65536", "65535", "-1", "", "abc", "0x10", "5", "3", "0", " 4 ", "4, 4"];
const VIAS: &[&str] = &["x", "", "SIP/2.0/UDP", "SIP/2.0/UDP 192.0.2.9;rport", "SIP/2.0/UDP 192.0.2.9;rport=99999999", "SIP/2.0/UDP 192.0.2.9;branch", "SIP/2.0/UDP 192.0.2.9;branch=abc", "SIP/2.0/UDP [::1", "SIP/2.0/UDP 192.0.2.9:99999", "SIP/2.0/UDP 192.0.2.9;maddr=[::;received=", ",", "SIP/2.0/UDP a;branch=z9hG4bKa, ,", "SIP / 2.0 / UDP first.example.com: 4000;ttl=16;maddr=224.2.0.1 ;branch=z9hG4bKa7c6a8dlze.1"];
const ADDRS: &[&str] = &["<sip:a@b>", "sip:a@b", "\"unbalanced <sip:a@b>;tag=1", "<sip:a@b", "", "sip:", "<sip:a@b>;tag=1;tag=2", "<sip:a@b>;tag", "\"\" <sip:a@b>;tag=e", "<sip:a@[::1]:x>;tag=1", "<sips:%41@b:65536>", "<tel:+1>;tag=t", "*", "<sip:a@b>;tag=%ff", "<sip:a@b?x=%>;tag=1", "<sip:a@b;=;;>;tag=1"];
const AUTHS: &[&str] = &["Digest qop=\",\"", "Digest realm=\"\", nonce=\"\", qop=\"\", algorithm=", "Digest", "Digest ,,,", "Basic", "", "Digest realm=\"a, nonce=b", "Digest username*=UTF-8''%, realm=\"r\"", "Digest nc=zzzzzzzz, cnonce=\"\", qop=auth-int, response=\"\""];

fn set(h: &mut H, name: &str, value: &str) {
    if let Some(e) = h.iter_mut().find(|(n, _)| n.eq_ignore_ascii_case(name)) {
        e.1 = value.to_string();
    } else {
        let at = h.len().saturating_sub(1);
        h.insert(at, (name.to_string(), value.to_string()));
    }
}

/// apply mutation `m` (selector `s`) to the message; returns its label
fn mutate(m: u8, s: u16, start: &mut String, h: &mut H, body: &mut Vec<u8>, raw_tail: &mut Vec<u8>) -> String {
    let pick = |list: &[&str]| list[pick_idx(s, list.len())].to_string();
    match m % 27 {
        0 => {
            set(h, "Content-Length", &pick(CLENS));
            "content-length".into()
        }
        1 => {
            h.push(("l".into(), pick(CLENS)));
            "content-length-duplicate-compact".into()
        }
        2 => {
            let v = pick(NUMS);
            let m = h.iter().find(|(n, _)| n == "CSeq").and_then(|(_, v)| v.split(' ').nth(1).map(str::to_string)).unwrap_or("INVITE".into());
            set(h, "CSeq", &format!("{v} {m}"));
            "cseq-number".into()
        }
        3 => {
            set(h, "CSeq", &pick(&["1", "INVITE", "", "1 ", " 1 INVITE", "1 INVITE x", "1\tINVITE", "1 invite", "1 %"]));
            "cseq-shape".into()
        }
        4 => {
            set(h, "Session-Expires", &format!("{}{}", pick(NUMS), pick(&["", ";refresher=uac", ";refresher=uas", ";refresher=", ";refresher=x", ";;"])));
            "session-expires".into()
        }
        5 => {
            set(h, "Min-SE", &pick(NUMS));
            "min-se".into()
        }
        6 => {
            set(h, "Expires", &pick(NUMS));
            set(h, "Min-Expires", &pick(NUMS));
            "expires".into()
        }
        7 => {
            set(h, "Max-Forwards", &pick(NUMS));
            "max-forwards".into()
        }
        8 => {
            set(h, "RSeq", &pick(NUMS));
            set(h, "RAck", &format!("{} {} INVITE", pick(NUMS), pick(NUMS)));
            "rseq-rack".into()
        }
        9 => {
            set(h, "Via", &pick(VIAS));
            "via".into()
        }
        10 => {
            h.retain(|(n, _)| !n.eq_ignore_ascii_case("via"));
            "via-missing".into()
        }
        11 => {
            let v = h.iter().find(|(n, _)| n == "Via").map(|x| x.1.clone()).unwrap_or_default();
            for _ in 0..20 {
                h.insert(0, ("Via".into(), v.clone()));
            }
            "via-x20".into()
        }
        12 => {
            set(h, if s % 2 == 0 { "From" } else { "To" }, &pick(ADDRS));
            "from-to".into()
        }
        13 => {
            let which = ["Call-ID", "From", "To", "CSeq"][pick_idx(s, 4)];
            h.retain(|(n, _)| n != which);
            "base-header-missing".into()
        }
        14 => {
            set(h, "Contact", &pick(ADDRS));
            "contact".into()
        }
        15 => {
            let n = ["Authorization", "WWW-Authenticate", "Proxy-Authenticate", "Proxy-Authorization"][(s % 4) as usize];
            set(h, n, &pick(AUTHS));
            "auth".into()
        }
        16 => {
            let mut v = "Digest realm=\"r\"".to_string();
            for i in 0..50 {
                v.push_str(&format!(", p{i}=\"{}\"", if i % 7 == 0 { "" } else { "v" }));
            }
            set(h, "WWW-Authenticate", &v);
            "auth-50-params".into()
        }
        17 => {
            // invalid UTF-8 in a header value or in the start line (marker replaced below)
            if s % 2 == 0 {
                set(h, "Subject", "\u{fffd}BADUTF8");
            } else {
                start.push_str("\u{fffd}BADUTF8");
            }
            "invalid-utf8".into()
        }
        18 => {
            *start = pick(&["", " ", "INVITE", "INVITE sip:a", "SIP/2.0", "SIP/2.0 99999 x", "SIP/2.0 abc", "INVITE sip:a SIP/3.0", "INVITE  sip:a@b  SIP/2.0", "\u{0}\u{1}", "INVITE sip:%@% SIP/2.0", "SIP/2.0 200", "INVITE sip:a@b:70000 SIP/2.0"]);
            "start-line".into()
        }
        19 => {
            // obs-fold
            set(h, "Subject", "a\r\n b\r\n\tc");
            set(h, "CSeq", &h.iter().find(|(n, _)| n == "CSeq").map(|x| x.1.replace(' ', "\r\n ")).unwrap_or_default());
            "obs-fold".into()
        }
        20 => {
            // head padded to the 4096 limit +- 2
            let cur: usize = start.len() + 2 + h.iter().map(|(n, v)| n.len() + v.len() + 4).sum::<usize>() + 2;
            let target = 4094 + (s % 5) as usize;
            if target > cur + 10 {
                set(h, "X-Pad", &"p".repeat(target - cur - 9));
            }
            "head-4096+-2".into()
        }
        21 => {
            *raw_tail = match s % 6 {
                0 => b"\r\n\nX".to_vec(),
                1 => b"\n\n".to_vec(),
                2 => b"\r".to_vec(),
                3 => b"\r\n\r".to_vec(),
                4 => b"".to_vec(),
                _ => b"\n\r\n".to_vec(),
            };
            "head-terminator".into()
        }
        22 => {
            set(h, "Supported", &pick(&[",,,", "", "timer,,100rel", " ", "timer 100rel", "\"timer\""]));
            set(h, "Require", &pick(&["100rel", "timer", ",", "", "x"]));
            "option-tags".into()
        }
        23 => {
            body.extend_from_slice(&vec![b'b'; (s % 300) as usize]);
            "body-length-mismatch".into()
        }
        26 => {
            // the message claims the top-Via branch of the transaction that set up the call (still alive for 64*T1
            // after its 2xx), with a CSeq method and a request-line method that agree with it or not
            set(h, "Via", "SIP/2.0/UDP 192.0.2.9:5060;branch=z9hG4bKsetupcall");
            let cseq_num = if s % 3 == 0 { "2" } else { "1" };
            match (s / 3) % 4 {
                0 => {}
                1 => set(h, "CSeq", &format!("{cseq_num} INVITE")),
                2 => set(h, "CSeq", &format!("{cseq_num} ACK")),
                _ => set(h, "CSeq", &format!("{cseq_num} {}", ["OPTIONS", "BYE", "CANCEL", "PRACK", "FOO"][((s / 12) % 5) as usize])),
            }
            if (s / 60) % 2 == 1 && !start.starts_with("SIP/") {
                let method = ["OPTIONS", "BYE", "FOO", "ACK", "CANCEL", "PRACK", "INVITE", "UPDATE"][((s / 120) % 8) as usize];
                if let Some(rest) = start.splitn(2, ' ').nth(1) {
                    *start = format!("{method} {rest}");
                }
            }
            "branch-of-live-transaction".into()
        }
        _ => {
            // a long malformed value of a header the receive path decodes, with one multi-byte UTF-8 character at
            // any byte offset 0..150 (error paths that cut, quote or index into the offending text)
            let filler = (s % 150) as usize;
            let ch = ['\u{e9}', '\u{20ac}', '\u{1f600}', '\u{a0}'][((s / 150) % 4) as usize];
            let which = ["CSeq", "From", "To", "Call-ID", "Via", "Contact", "Max-Forwards", "Expires", "Session-Expires", "Content-Type", "RAck", "Supported"][((s / 600) % 12) as usize];
            let lead = if m % 27 == 25 { "" } else { match which { "CSeq" => "7 ", "From" | "To" | "Contact" => "<sip:a@b>;tag=", "Via" => "SIP/2.0/UDP 192.0.2.9;branch=", _ => "" } };
            let value = format!("{lead}{}{ch} OPTIONS;x=\"{ch}", "q".repeat(filler));
            set(h, which, &value);
            "long-non-ascii-malformed-value".into()
        }
    }
}

fn render(start: &str, h: &H, body: &[u8], lf_only: bool, lead: u8, raw_tail: &[u8]) -> Vec<u8> {
    let nl: &[u8] = if lf_only { b"\n" } else { b"\r\n" };
    let mut out = vec![];
    for _ in 0..lead {
        out.extend_from_slice(b"\r\n");
    }
    out.extend_from_slice(start.as_bytes());
    out.extend_from_slice(nl);
    for (n, v) in h {
        out.extend_from_slice(n.as_bytes());
        out.extend_from_slice(b": ");
        out.extend_from_slice(v.as_bytes());
        out.extend_from_slice(nl);
    }
    if raw_tail.is_empty() {
        out.extend_from_slice(nl);
    } else {
        // replace the blank line by the hostile terminator (last header line's newline is already there)
        let l = out.len() - nl.len();
        out.truncate(l);
        out.extend_from_slice(raw_tail);
    }
    out.extend_from_slice(body);
    // invalid UTF-8 marker
    let marker = "\u{fffd}BADUTF8".as_bytes();
    while let Some(pos) = out.windows(marker.len()).position(|w| w == marker) {
        out.splice(pos..pos + marker.len(), [0xff, 0xfe, 0xc3, 0x28]);
    }
    out
}

/// `dialog`: prefer the templates that address the dialog of the set-up call (BYE, re-INVITE, PRACK, ACK, UPDATE)
fn structured(dialog: bool) -> BoxedStrategy<(Vec<u8>, Vec<String>)> {
    (
        if dialog { prop_oneof![1 => any::<u8>(), 6 => prop_oneof![Just(2u8), Just(5u8), Just(6u8), Just(7u8), Just(8u8)]].boxed() } else { any::<u8>().boxed() },
        prop::collection::vec((any::<u8>(), any::<u16>()), 1..4),
        prop::bool::weighted(0.1),
        prop_oneof![6 => Just(0u8), 1 => Just(1u8), 1 => Just(2u8), 1 => Just(4u8)],
        prop::option::weighted(0.1, any::<u16>()),
    )
        .prop_map(|(kind, muts, lf_only, lead, truncate)| {
            let (mut start, mut h, mut body) = base(kind);
            let mut raw_tail = vec![];
            let mut labels = vec![];
            for (m, s) in muts {
                labels.push(mutate(m, s, &mut start, &mut h, &mut body, &mut raw_tail));
            }
            if lf_only {
                labels.push("lf-only".into());
            }
            if lead > 0 {
                labels.push("leading-crlf".into());
            }
            let mut bytes = render(&start, &h, &body, lf_only, lead, &raw_tail);
            if let Some(t) = truncate {
                let at = pick_idx(t, bytes.len().max(1));
                bytes.truncate(at);
                labels.push("truncated".into());
            }
            labels.sort();
            labels.dedup();
            (bytes, labels)
        })
        .boxed()
}

fn byte_mutated() -> BoxedStrategy<(Vec<u8>, Vec<String>)> {
    (any::<u8>(), prop::collection::vec((0u8..4, any::<u16>(), any::<u8>()), 1..6))
        .prop_map(|(kind, edits)| {
            let (start, h, body) = base(kind);
            let mut bytes = render(&start, &h, &body, false, 0, &[]);
            for (op, pos, val) in edits {
                if bytes.is_empty() {
                    break;
                }
                let i = pick_idx(pos, bytes.len());
                match op {
                    0 => bytes[i] ^= 1 << (val % 8),
                    1 => {
                        bytes.remove(i);
                    }
                    2 => bytes.insert(i, val),
                    _ => {
                        let j = (i + 1 + (val as usize % 40)).min(bytes.len());
                        let chunk: Vec<u8> = bytes[i..j].to_vec();
                        bytes.splice(i..i, chunk);
                    }
                }
            }
            (bytes, vec!["byte-mutated".to_string()])
        })
        .boxed()
}

fn random_bytes() -> BoxedStrategy<(Vec<u8>, Vec<String>)> {
    prop_oneof![
        prop::collection::vec(any::<u8>(), 0..300).prop_map(|b| (b, vec!["random-bytes".to_string()])),
        "[ -~\r\n]{0,400}".prop_map(|s| (s.into_bytes(), vec!["random-ascii".to_string()])),
        "(INVITE|SIP/2.0|OPTIONS|l|Via|v|CSeq|Content-Length|:|;|,|<|>|\"|%|@|sip:|\r\n|\r|\n| |[0-9]{1,20}|[a-z]{1,5}){0,60}".prop_map(|s| (s.into_bytes(), vec!["random-tokens".to_string()])),
    ]
    .boxed()
}

pub fn strategy() -> BoxedStrategy<Case> {
    prop::bool::weighted(0.4)
        .prop_flat_map(|in_dialog| {
            (
                prop_oneof![6 => structured(in_dialog), 2 => byte_mutated(), 2 => random_bytes()],
                prop::option::weighted(0.35, prop::collection::vec(any::<u16>(), 0..6)),
                Just(in_dialog),
                prop::bool::weighted(0.4),
                any::<u8>(),
            )
        })
        .prop_map(|((bytes, labels), stream_cuts, in_dialog, early, rng)| {
            // in-dialog delivery uses the datagram transport the call was set up on
            let stream_cuts = if in_dialog { None } else { stream_cuts };
            Case { bytes, labels, stream_cuts, in_dialog, early: early && in_dialog, before_ack: in_dialog && !early && rng % 2 == 1, rng }
        })
        .boxed()
}

// ---------------------------------------------------------------------------------------------
// world: an endpoint with the full UA stack that accepts every INVITE

struct AcceptAll {
    dialog_layer: LayerKey<DialogLayer>,
    invite_layer: LayerKey<InviteLayer>,
}

#[async_trait::async_trait]
impl Layer for AcceptAll {
    fn name(&self) -> &'static str {
        "accept-all"
    }
    async fn receive(&self, endpoint: &Endpoint, request: MayTake<'_, IncomingRequest>) {
        if request.line.method != Method::INVITE {
            return;
        }
        let invite = request.take();
        let contact: SipUri = "sip:ezk@10.0.0.1".parse().unwrap();
        let Ok(dialog) = Dialog::new_server(endpoint.clone(), self.dialog_layer, &invite, Contact::new(NameAddr::uri(contact))) else { return };
        let Ok(mut acceptor) = Acceptor::new(dialog, self.invite_layer, invite) else { return };
        tokio::spawn(async move {
            if let Ok(r) = acceptor.create_response(Code::from(180), None).await {
                let _ = acceptor.respond_provisional(r).await;
            }
            if acceptor.peer_supports_100rel() {
                if let Ok(r) = acceptor.create_response(Code::from(183), None).await {
                    let _ = acceptor.respond_provisional_reliable(r).await;
                }
            }
            let Ok(r) = acceptor.create_response(Code::OK, None).await else { return };
            if let Ok((mut session, _ack)) = acceptor.respond_success(r).await {
                for _ in 0..4 {
                    match session.drive().await {
                        Ok(SessionEvent::Bye(e)) => {
                            let _ = e.process_default().await;
                        }
                        Ok(SessionEvent::RefreshNeeded(e)) => {
                            let _ = e.process_default().await;
                        }
                        Ok(SessionEvent::ReInviteReceived(_)) => {}
                        Ok(SessionEvent::Terminated) | Err(_) => break,
                    }
                }
            }
        });
    }
}

fn probe_options(n: u32, transport: &str) -> Vec<u8> {
    request_text(
        "OPTIONS",
        "sip:ezk@10.0.0.1",
        &[format!("SIP/2.0/{transport} 192.0.2.77:5060;branch=z9hG4bKprobe{n}")],
        "<sip:probe@192.0.2.77>;tag=pr",
        "<sip:ezk@10.0.0.1>",
        &format!("c02-probe-{n}"),
        1,
        "OPTIONS",
        &[],
        b"",
    )
}

/// push every header value of a parsed message through every typed decoder
fn decode_everything(headers: &Headers) {
    let values: Vec<String> = headers.iter().map(|(_, v)| v.to_string()).collect();
    macro_rules! all {
        ($v:expr, $( $t:ty => $n:expr ),* ) => {{
            $(
                let mut h = Headers::new();
                h.insert($n, $v.as_str());
                let _ = h.get::<$t>($n);
                let _ = h.get::<Vec<$t>>($n);
            )*
        }};
    }
    for v in &values {
        all!(v,
            Via => Name::VIA, FromTo => Name::FROM, Contact => Name::CONTACT, Routing => Name::ROUTE, CSeq => Name::CSEQ,
            RAck => Name::RACK, RSeq => Name::RSEQ, CallID => Name::CALL_ID, MaxForwards => Name::MAX_FORWARDS,
            Expires => Name::EXPIRES, MinExpires => Name::MIN_EXPIRES, MinSe => Name::MIN_SE, SessionExpires => Name::SESSION_EXPIRES,
            ContentLength => Name::CONTENT_LENGTH, ContentType => Name::CONTENT_TYPE, Event => Name::EVENT, Accept => Name::ACCEPT,
            Allow => Name::ALLOW, AllowEvents => Name::ALLOW_EVENTS, Supported => Name::SUPPORTED, Require => Name::REQUIRE,
            Replaces => Name::REPLACES, RetryAfter => Name::RETRY_AFTER, SubscriptionState => Name::SUBSCRIPTION_STATE,
            AuthChallenge => Name::WWW_AUTHENTICATE, AuthResponse => Name::AUTHORIZATION
        );
    }
}

pub fn check(case: &Case, out: &mut CaseOut) {
    for l in &case.labels {
        // labels are a fixed vocabulary
        out.class(match l.as_str() {
            "content-length" => "content-length",
            "content-length-duplicate-compact" => "content-length-duplicate-compact",
            "cseq-number" => "cseq-number",
            "cseq-shape" => "cseq-shape",
            "session-expires" => "session-expires",
            "min-se" => "min-se",
            "expires" => "expires",
            "max-forwards" => "max-forwards",
            "rseq-rack" => "rseq-rack",
            "via" => "via",
            "via-missing" => "via-missing",
            "via-x20" => "via-x20",
            "from-to" => "from-to",
            "base-header-missing" => "base-header-missing",
            "contact" => "contact",
            "auth" => "auth",
            "auth-50-params" => "auth-50-params",
            "invalid-utf8" => "invalid-utf8",
            "start-line" => "start-line",
            "obs-fold" => "obs-fold",
            "head-4096+-2" => "head-4096+-2",
            "head-terminator" => "head-terminator",
            "option-tags" => "option-tags",
            "body-length-mismatch" => "body-length-mismatch",
            "long-non-ascii-malformed-value" => "long-non-ascii-malformed-value",
            "branch-of-live-transaction" => "branch-of-live-transaction",
            "lf-only" => "lf-only",
            "leading-crlf" => "leading-crlf",
            "truncated" => "truncated",
            "byte-mutated" => "byte-mutated",
            "random-bytes" => "random-bytes",
            "random-ascii" => "random-ascii",
            _ => "random-tokens",
        });
    }
    out.class(if case.stream_cuts.is_some() { "as-stream" } else { "as-datagram" });
    if case.in_dialog {
        out.class(if case.early {
            "inside-early-dialog(pending INVITE)"
        } else if case.before_ack {
            "inside-dialog-before-the-ACK"
        } else {
            "inside-established-dialog"
        });
    }

    // 1. pure parsers: datagram parser + every typed decoder; stream decoder under the segmentation
    let parsed = parse_complete(Default::default(), &case.bytes);
    let mut reached_headers = false;
    if let Ok(CompleteItem::Sip { headers, .. }) = &parsed {
        reached_headers = true;
        decode_everything(headers);
    }
    let total = case.bytes.len();
    let cuts: Vec<usize> = case
        .stream_cuts
        .clone()
        .unwrap_or_default()
        .into_iter()
        .map(|s| 1 + pick_idx(s, total.saturating_sub(1).max(1)))
        .collect();
    let (decoded, _err) = decode_stream(&case.bytes, &cuts);
    if !decoded.is_empty() {
        reached_headers = true;
    }
    if reached_headers && !case.labels.iter().all(|l| l.starts_with("random")) {
        out.nontrivial(&case.bytes);
        out.class("reached-header-decoding");
    }

    // 2. the whole path + liveness: after the hostile input a valid request must still be answered
    let c = case.clone();
    let (answered_dgram, answered_stream, wire_note) = run_world(case.rng as u64, |clock| async move {
        let log = WireLog::new(clock);
        let (tp, _) = mock_datagram(&log, "UDP", false, false, "10.0.0.1:5060");
        let (lb, dialer) = mock_listener::<false>(clock, &log, "10.0.0.1:5060");
        let mut b = offline_builder();
        b.add_unmanaged_transport(tp.clone());
        let dl = b.add_layer(DialogLayer::default());
        let il = b.add_layer(InviteLayer::default());
        b.add_layer(AcceptAll { dialog_layer: dl, invite_layer: il });
        use sip_core::transport::streaming::StreamingListenerBuilder;
        lb.spawn(&mut b, "10.0.0.1:5060").await.unwrap();
        let endpoint = b.build();
        settle().await;
        let src: SocketAddr = "192.0.2.9:5060".parse().unwrap();
        let probe_src: SocketAddr = "192.0.2.77:5060".parse().unwrap();

        let mut bytes = c.bytes.clone();
        let mut late_ack: Option<Vec<u8>> = None;
        if c.in_dialog {
            // a plain call first: INVITE (no 100rel), 200 from the application, ACK
            let setup = request_text(
                "INVITE", "sip:ezk@10.0.0.1", &["SIP/2.0/UDP 192.0.2.9:5060;branch=z9hG4bKsetupcall".into()],
                "\"Mallory\" <sip:mallory@192.0.2.9>;tag=mt", "<sip:ezk@10.0.0.1>", "c02-call", 1, "INVITE",
                &["Contact: <sip:mallory@192.0.2.9>".into(), if c.early { "Supported: timer, 100rel".into() } else { "Supported: timer".into() }], b"");
            inject(&endpoint, &tp, src, &setup);
            settle().await;
            let want = if c.early { 183 } else { 200 };
            let tag = log.parsed().iter().filter_map(|(_, m)| m.as_ref()).find(|m| m.status() == Some(want)).and_then(|m| m.to_tag());
            if let (Some(tag), true) = (&tag, c.early) {
                // the peer knows RSeq from the 183: a PRACK template "RAck: 1 1 INVITE" gets the real numbers half of the time
                let rseq = log.parsed().iter().filter_map(|(_, m)| m.as_ref()).find(|m| m.status() == Some(183)).and_then(|m| m.header("rseq").map(str::to_string));
                if let (Some(r), true) = (rseq, c.rng % 2 == 0) {
                    let needle = b"RAck: 1 1 INVITE";
                    if let Some(pos) = bytes.windows(needle.len()).position(|w| w == needle) {
                        bytes.splice(pos..pos + needle.len(), format!("RAck: {} 1 INVITE", r.trim()).bytes());
                    }
                }
                let needle = b"sometag";
                while let Some(pos) = bytes.windows(needle.len()).position(|w| w == needle) {
                    bytes.splice(pos..pos + needle.len(), tag.bytes());
                }
            }
            if let (Some(tag), false) = (tag, c.early) {
                let ack = request_text(
                    "ACK", "sip:ezk@10.0.0.1", &["SIP/2.0/UDP 192.0.2.9:5060;branch=z9hG4bKsetupack".into()],
                    "<sip:mallory@192.0.2.9>;tag=mt", &format!("<sip:ezk@10.0.0.1>;tag={tag}"), "c02-call", 1, "ACK", &[], b"");
                if c.before_ack {
                    late_ack = Some(ack);
                } else {
                    inject(&endpoint, &tp, src, &ack);
                    settle().await;
                }
                // put the real tag into the hostile message
                let needle = b"sometag";
                while let Some(pos) = bytes.windows(needle.len()).position(|w| w == needle) {
                    bytes.splice(pos..pos + needle.len(), tag.bytes());
                }
            }
        }
        match &c.stream_cuts {
            None => {
                inject(&endpoint, &tp, src, &bytes);
                settle().await;
            }
            Some(_) => {
                let mut conn = dialer.dial("192.0.2.9:40404");
                settle().await;
                let mut cuts = cuts.clone();
                cuts.sort();
                cuts.dedup();
                let mut prev = 0;
                for cut in cuts.into_iter().chain([c.bytes.len()]) {
                    if cut > prev && cut <= c.bytes.len() {
                        conn.write(&c.bytes[prev..cut]).await;
                        settle().await;
                        prev = cut;
                    }
                }
                // keep the connection open while the probes run
                std::mem::forget(conn);
            }
        }
        if let Some(ack) = late_ack {
            clock.advance(700).await;
            inject(&endpoint, &tp, src, &ack);
            settle().await;
        }
        // let timers of whatever the input started run for a while (retransmissions, session timers)
        clock.advance(40_000).await;
        settle().await;

        // datagram probe
        inject(&endpoint, &tp, probe_src, &probe_options(1, "UDP"));
        settle().await;
        // stream probe on a fresh connection
        let mut fresh = dialer.dial("192.0.2.77:40405");
        settle().await;
        fresh.write(&probe_options(2, "TCP")).await;
        settle().await;
        let wire = log.parsed();
        let answered = |branch: &str| wire.iter().any(|(_, m)| m.as_ref().map_or(false, |m| !m.is_request() && m.via_branch().as_deref() == Some(branch)));
        let a = answered("z9hG4bKprobe1");
        let bb = answered("z9hG4bKprobe2");
        let note = format!("{} messages on the wire", wire.len());
        (a, bb, note)
    });
    out.note = Some(wire_note);
    if !answered_dgram {
        out.fail("c02.liveness/datagram-transport-silent", "a valid OPTIONS sent after the hostile input over the datagram transport got no response");
    }
    if !answered_stream {
        out.fail("c02.liveness/stream-listener-silent", "a valid OPTIONS on a fresh connection after the hostile input got no response");
    }
}

// ---------------------------------------------------------------------------------------------
// hostile responses to an INVITE sent through Initiator (UAC side of the invite layer)

const HOSTILE_RESP_HEADERS: &[&str] = &[
    "Session-Expires: 0", "Session-Expires: 1;refresher=uac", "Session-Expires: 9;refresher=uas", "Session-Expires: 4294967295;refresher=uac",
    "Session-Expires: 4294967295;refresher=uas", "Session-Expires: 4294967296", "Session-Expires: -1", "Session-Expires: x", "Session-Expires: 90;refresher=",
    "Require: 100rel", "RSeq: 4294967295", "RSeq: 4294967296", "RSeq: x", "Require: timer", "Require: ,,,",
    "Supported: timer, 100rel", "Supported: ,", "Contact: *", "Contact: <sip:", "Contact: x", "Contact: <sip:a@b>;expires=4294967296",
    "Record-Route: x", "Record-Route: <sip:p;lr>, ", "Record-Route: <sip:p;lr>,,<sip:q;lr>", "Min-SE: 4294967295",
    "To: <sip:bob@192.0.2.1>;tag=%41;tag=x", "CSeq: 4294967296 INVITE", "Content-Length: 18446744073709551615", "Via: x",
];

fn uac_strategy() -> BoxedStrategy<super::c13::Case> {
    use super::c13::{Case as C, RespEv};
    let ev = (
        prop_oneof![Just(1u64), Just(20u64), Just(600u64)],
        prop_oneof![Just(100u16), Just(180u16), Just(183u16), Just(200u16), Just(200u16), Just(486u16)],
        prop_oneof![1 => Just(None), 6 => (0u8..2).prop_map(Some)],
        prop::bool::weighted(0.8),
        0u8..3,
        any::<bool>(),
        prop::collection::vec(any::<u16>(), 0..4),
    )
        .prop_map(|(gap, code, tag, contact, record_routes, rseq, hs)| RespEv {
            gap,
            code,
            tag,
            contact,
            record_routes,
            supported_timer: true,
            supported_100rel: true,
            rseq,
            session_expires: None,
            extra: hs.into_iter().map(|h| HOSTILE_RESP_HEADERS[pick_idx(h, HOSTILE_RESP_HEADERS.len())].to_string()).collect(),
        });
    (prop::collection::vec(ev, 1..6), any::<u8>()).prop_map(|(responses, rng)| C { responses, rng }).boxed()
}

fn check_uac(case: &super::c13::Case, out: &mut CaseOut) {
    // the oracle here is the engine's panic capture; what the application is told is C13's subject
    let obs = super::c13::run(case);
    out.note = Some(format!("{} events", obs.events.len()));
    if obs.invite.is_none() {
        out.fail("c02.uac/invite-not-sent", "INVITE not sent");
    }
    let hostile = case.responses.iter().map(|r| r.extra.len()).sum::<usize>();
    if hostile > 0 {
        out.class("hostile-header-in-response");
        out.nontrivial(case);
    }
    for r in &case.responses {
        for h in &r.extra {
            if h.starts_with("Session-Expires") && (200..300).contains(&r.code) {
                out.class("hostile-session-expires-in-2xx");
            }
            if h.starts_with("RSeq") || h.starts_with("Require: 100rel") {
                out.class("hostile-rseq");
            }
        }
    }
}

fn seed_corpus_datagram(dir: &std::path::Path) {
    for (i, c) in sample_strategy(&strategy(), 7, 300).into_iter().enumerate() {
        let _ = std::fs::write(dir.join(format!("gen-{i:03}")), &c.bytes);
    }
    for (i, m) in super::c03::corpus().into_iter().enumerate() {
        let _ = std::fs::write(dir.join(format!("c03-{i:03}")), m.bytes());
    }
}

pub fn property() -> Property {
    Property {
        fuzz: vec![FuzzStage { target: "sip_datagram", runs: 2_000_000, max_len: 6000, seed_corpus: seed_corpus_datagram }],
        id: "C02",
        rule: "a case = one hostile input: (60%) a valid INVITE / OPTIONS / in-dialog BYE / 200 response / REGISTER with 1..3 mutations from a 24-entry catalogue (Content-Length incl. usize::MAX, duplicate compact l, CSeq / Session-Expires / Min-SE / Expires / Max-Forwards / RSeq / RAck over {0,1,9,10,11,u32::MAX-1,u32::MAX,u32::MAX+1,2^64-1,2^64,-1,...}, hostile Via / From / To / Contact / auth values, missing base headers, 20 Vias, invalid UTF-8, broken start lines, obs-fold, 4096+-2 byte heads, broken head terminators, body length mismatch), optional LF-only line ends, leading CRLFs, truncation; (20%) byte-level mutations of valid messages; (20%) random bytes / ASCII / SIP-token soup. Delivered as one datagram or over a stream connection in random segments. Checked: datagram parser, every typed header decoder on every header value, the stream decoder, then the whole receive path of an endpoint with DialogLayer + InviteLayer + an application that accepts every INVITE (180, reliable 183, 200, session), 40 s of virtual time, and finally a valid OPTIONS over the datagram transport and over a fresh connection must each be answered. Non-trivial = the input reached header decoding (start line parsed) and is not pure noise; distinct by bytes.",
        assumptions: vec![
            "any panic on the case's thread (including spawned tasks of the current-thread runtime) is a violation; hangs are caught by the engine's wall-clock watchdog and reported as inconclusive",
            "that a malformed message is answered is not asserted, only that valid traffic after it is",
            "hostile values inside live dialog / INVITE / REGISTER scenarios are additionally covered by the scenario sub-checks of C10, C12, C13, C17 (u32::MAX CSeq, hostile Session-Expires / Min-SE / Expires, retransmitted 2xx, missing To-tag)",
        ],
        explanation: "sampled; the mutation catalogue coverage is reported per entry in the class histogram",
        subs: vec![
            prop_sub("hostile", strategy, 3000, 60000, check),
            prop_sub("uac_hostile_responses", uac_strategy, 1500, 30000, check_uac),
        ],
    }
}
