//! C02 — No network input can panic or hang the receive path
//!
//! Sub-checks (all sampled; the oracle everywhere is the engine's panic capture over every task of the case's world
//! plus "valid traffic after the hostile input is still answered"):
//! * `hostile` — one hostile input (structured mutations of valid messages / byte mutations / noise) through the
//!   datagram parser, every typed decoder, the stream decoder and the whole receive path of a UAS endpoint
//!   (DialogLayer + InviteLayer + an application accepting every INVITE), outside a dialog or inside the dialog of a
//!   call set up before (established / before the ACK / INVITE still pending). The world then runs 40 s, or
//!   (`long_life`) 1900 s so that the 1800 s session timer of the set-up call expires and the session ends itself.
//! * `uac_hostile_responses` — hostile header values in the responses to an INVITE sent through `Initiator`
//!   (C13's world; the application is handed early dialogs / sessions and does nothing with them).
//! * `uac_session_life` — the same UAC side, but the application USES what it was handed: every `Session` (directly
//!   from a 2xx or through its early dialog) is driven with the default handling of each event while the values the
//!   peer put into the 2xx take effect. Generated: history shape (2xx first / 18x then 2xx of the same fork / two
//!   forks / failure), a `Session-Expires` line = name spelling x delta (0, 1..22, 30..91, 1800, u32::MAX-10.., not a
//!   u32) x parameter shape (none, refresher=uac|uas, empty / unknown / other-case value, other parameters only,
//!   twice, odd syntax) with or without `Require: timer` / `Supported`, further hostile headers; how `Initiator` is
//!   configured (timer support, Session-Expires asked for); what the peer does with the requests ezk sends inside the
//!   dialog when the timer fires (silence or a delayed response, possibly hostile); requests of the peer inside the
//!   dialog (BYE / re-INVITE / UPDATE / others, CSeq up to u32::MAX+1, hostile headers, ACK or not); whether the
//!   application answers a re-INVITE, how many events it handles, whether and when it hangs up; 0.9 s .. 1900 s of
//!   virtual time. Not asserted: which event the application gets, what goes over the wire, when (C13 / C17).

use super::c03::{decode_stream, hex_bytes};
use crate::engine::*;
use crate::world::stream::*;
use crate::world::*;
use proptest::prelude::*;
use serde::{Deserialize, Serialize};
use sip_core::transport::{parse_complete, CompleteItem};
use sip_core::{Endpoint, IncomingRequest, Layer, LayerKey, MayTake};
use sip_types::header::typed::*;
use sip_types::uri::sip::SipUri;
use sip_types::uri::NameAddr;
use sip_types::{Code, Headers, Method, Name};
use sip_ua::dialog::{Dialog, DialogLayer};
use sip_ua::invite::acceptor::Acceptor;
use sip_ua::invite::session::Event as SessionEvent;
use sip_ua::invite::InviteLayer;
use std::net::SocketAddr;

#[derive(Serialize, Deserialize, Clone, Debug, Hash)]
pub struct Case {
    #[serde(with = "hex_bytes")]
    pub bytes: Vec<u8>,
    /// which hostile features the generator put in (for the evidence histogram)
    pub labels: Vec<String>,
    /// deliver over a stream connection with these cut selectors (None = one datagram)
    pub stream_cuts: Option<Vec<u16>>,
    /// first establish a call, then deliver the input inside that dialog ("sometag" is replaced by the dialog's tag)
    #[serde(default)]
    pub in_dialog: bool,
    /// with in_dialog: deliver while the INVITE is still pending (application waits for the PRACK of its
    /// reliable 183) instead of after the call is established
    #[serde(default)]
    pub early: bool,
    /// with in_dialog (and not early): deliver after the application sent its 200 but before the peer's ACK
    #[serde(default)]
    pub before_ack: bool,
    /// with in_dialog: the world runs 1900 s of virtual time instead of 40 s after the input, so the session timer the
    /// application armed for the call (1800 s, peer refreshes) expires and the session ends itself with a BYE
    #[serde(default)]
    pub long_life: bool,
    pub rng: u8,
}

// ---------------------------------------------------------------------------------------------
// structured hostile messages

type H = Vec<(String, String)>;

fn base(kind: u8) -> (String, H, Vec<u8>) {
    let via = ("Via".to_string(), "SIP/2.0/UDP 192.0.2.9:5060;branch=z9hG4bKhostile1;rport".to_string());
    let from = ("From".to_string(), "\"Mallory\" <sip:mallory@192.0.2.9>;tag=mt".to_string());
    let to = ("To".to_string(), "<sip:ezk@10.0.0.1>".to_string());
    let cid = ("Call-ID".to_string(), "c02-call".to_string());
    let contact = ("Contact".to_string(), "<sip:mallory@192.0.2.9>".to_string());
    let mf = ("Max-Forwards".to_string(), "70".to_string());
    let dialog_to = ("To".to_string(), "<sip:ezk@10.0.0.1>;tag=sometag".to_string());
    match kind % 9 {
        5 => (
            "INVITE sip:ezk@10.0.0.1 SIP/2.0".into(),
            vec![via, mf, from, dialog_to, cid, ("CSeq".into(), "2 INVITE".into()), contact, ("Supported".into(), "timer".into()), ("Session-Expires".into(), "90;refresher=uac".into()), ("Content-Length".into(), "0".into())],
            vec![],
        ),
        6 => (
            "PRACK sip:ezk@10.0.0.1 SIP/2.0".into(),
            vec![via, mf, from, dialog_to, cid, ("CSeq".into(), "2 PRACK".into()), ("RAck".into(), "1 1 INVITE".into()), ("Content-Length".into(), "0".into())],
            vec![],
        ),
        7 => (
            "ACK sip:ezk@10.0.0.1 SIP/2.0".into(),
            vec![via, mf, from, dialog_to, cid, ("CSeq".into(), "1 ACK".into()), ("Content-Length".into(), "0".into())],
            vec![],
        ),
        8 => (
            "UPDATE sip:ezk@10.0.0.1 SIP/2.0".into(),
            vec![via, mf, from, dialog_to, cid, ("CSeq".into(), "2 UPDATE".into()), contact, ("Session-Expires".into(), "1800;refresher=uas".into()), ("Content-Length".into(), "0".into())],
            vec![],
        ),
        0 => (
            "INVITE sip:ezk@10.0.0.1 SIP/2.0".into(),
            vec![via, mf, from, to, cid, ("CSeq".into(), "1 INVITE".into()), contact, ("Supported".into(), "timer, 100rel".into()), ("Session-Expires".into(), "1800".into()), ("Min-SE".into(), "90".into()), ("Content-Type".into(), "application/sdp".into()), ("Content-Length".into(), "4".into())],
            b"v=0\n".to_vec(),
        ),
        1 => (
            "OPTIONS sip:ezk@10.0.0.1 SIP/2.0".into(),
            vec![via, mf, from, to, cid, ("CSeq".into(), "2 OPTIONS".into()), ("Accept".into(), "application/sdp".into()), ("Content-Length".into(), "0".into())],
            vec![],
        ),
        2 => (
            "BYE sip:ezk@10.0.0.1 SIP/2.0".into(),
            vec![via, mf, from, dialog_to, cid, ("CSeq".into(), "2 BYE".into()), ("Content-Length".into(), "0".into())],
            vec![],
        ),
        3 => (
            "SIP/2.0 200 OK".into(),
            vec![("Via".into(), "SIP/2.0/UDP 10.0.0.1:5060;branch=z9hG4bKnobody".into()), from, ("To".into(), "<sip:ezk@10.0.0.1>;tag=x".into()), cid, ("CSeq".into(), "4 INVITE".into()), contact, ("Require".into(), "timer".into()), ("Session-Expires".into(), "90;refresher=uas".into()), ("RSeq".into(), "1".into()), ("Content-Length".into(), "0".into())],
            vec![],
        ),
        _ => (
            "REGISTER sip:registrar.example.com SIP/2.0".into(),
            vec![via, mf, from, to, cid, ("CSeq".into(), "5 REGISTER".into()), contact, ("Expires".into(), "3600".into()), ("Authorization".into(), "Digest username=\"bob\", realm=\"r\", nonce=\"n\", uri=\"sip:r\", response=\"abc\"".into()), ("Content-Length".into(), "0".into())],
            vec![],
        ),
    }
}

const NUMS: &[&str] = &["0", "1", "2", "3", "9", "10", "11", "4294967294", "4294967295", "4294967296", "18446744073709551615", "18446744073709551616", "-1", "", "x", "1e9", " 7 ", "00000000000000000000000000000001"];
const CLENS: &[&str] = &["18446744073709551615", "9223372036854775808", "4294967296", "65536", "65535", "-1", "", "abc", "0x10", "5", "3", "0", " 4 ", "4, 4"];
const VIAS: &[&str] = &["x", "", "SIP/2.0/UDP", "SIP/2.0/UDP 192.0.2.9;rport", "SIP/2.0/UDP 192.0.2.9;rport=99999999", "SIP/2.0/UDP 192.0.2.9;branch", "SIP/2.0/UDP 192.0.2.9;branch=abc", "SIP/2.0/UDP [::1", "SIP/2.0/UDP 192.0.2.9:99999", "SIP/2.0/UDP 192.0.2.9;maddr=[::;received=", ",", "SIP/2.0/UDP a;branch=z9hG4bKa, ,", "SIP / 2.0 / UDP first.example.com: 4000;ttl=16;maddr=224.2.0.1 ;branch=z9hG4bKa7c6a8dlze.1"];
const ADDRS: &[&str] = &["<sip:a@b>", "sip:a@b", "\"unbalanced <sip:a@b>;tag=1", "<sip:a@b", "", "sip:", "<sip:a@b>;tag=1;tag=2", "<sip:a@b>;tag", "\"\" <sip:a@b>;tag=e", "<sip:a@[::1]:x>;tag=1", "<sips:%41@b:65536>", "<tel:+1>;tag=t", "*", "<sip:a@b>;tag=%ff", "<sip:a@b?x=%>;tag=1", "<sip:a@b;=;;>;tag=1"];
const AUTHS: &[&str] = &["Digest qop=\",\"", "Digest realm=\"\", nonce=\"\", qop=\"\", algorithm=", "Digest", "Digest ,,,", "Basic", "", "Digest realm=\"a, nonce=b", "Digest username*=UTF-8''%, realm=\"r\"", "Digest nc=zzzzzzzz, cnonce=\"\", qop=auth-int, response=\"\""];

fn set(h: &mut H, name: &str, value: &str) {
    if let Some(e) = h.iter_mut().find(|(n, _)| n.eq_ignore_ascii_case(name)) {
        e.1 = value.to_string();
    } else {
        let at = h.len().saturating_sub(1);
        h.insert(at, (name.to_string(), value.to_string()));
    }
}

/// apply mutation `m` (selector `s`) to the message; returns its label
fn mutate(m: u8, s: u16, start: &mut String, h: &mut H, body: &mut Vec<u8>, raw_tail: &mut Vec<u8>) -> String {
    let pick = |list: &[&str]| list[pick_idx(s, list.len())].to_string();
    match m % 27 {
        0 => {
            set(h, "Content-Length", &pick(CLENS));
            "content-length".into()
        }
        1 => {
            h.push(("l".into(), pick(CLENS)));
            "content-length-duplicate-compact".into()
        }
        2 => {
            let v = pick(NUMS);
            let m = h.iter().find(|(n, _)| n == "CSeq").and_then(|(_, v)| v.split(' ').nth(1).map(str::to_string)).unwrap_or("INVITE".into());
            set(h, "CSeq", &format!("{v} {m}"));
            "cseq-number".into()
        }
        3 => {
            set(h, "CSeq", &pick(&["1", "INVITE", "", "1 ", " 1 INVITE", "1 INVITE x", "1\tINVITE", "1 invite", "1 %"]));
            "cseq-shape".into()
        }
        4 => {
            set(h, "Session-Expires", &format!("{}{}", pick(NUMS), pick(&["", ";refresher=uac", ";refresher=uas", ";refresher=", ";refresher=x", ";;"])));
            "session-expires".into()
        }
        5 => {
            set(h, "Min-SE", &pick(NUMS));
            "min-se".into()
        }
        6 => {
            set(h, "Expires", &pick(NUMS));
            set(h, "Min-Expires", &pick(NUMS));
            "expires".into()
        }
        7 => {
            set(h, "Max-Forwards", &pick(NUMS));
            "max-forwards".into()
        }
        8 => {
            set(h, "RSeq", &pick(NUMS));
            set(h, "RAck", &format!("{} {} INVITE", pick(NUMS), pick(NUMS)));
            "rseq-rack".into()
        }
        9 => {
            set(h, "Via", &pick(VIAS));
            "via".into()
        }
        10 => {
            h.retain(|(n, _)| !n.eq_ignore_ascii_case("via"));
            "via-missing".into()
        }
        11 => {
            let v = h.iter().find(|(n, _)| n == "Via").map(|x| x.1.clone()).unwrap_or_default();
            for _ in 0..20 {
                h.insert(0, ("Via".into(), v.clone()));
            }
            "via-x20".into()
        }
        12 => {
            set(h, if s % 2 == 0 { "From" } else { "To" }, &pick(ADDRS));
            "from-to".into()
        }
        13 => {
            let which = ["Call-ID", "From", "To", "CSeq"][pick_idx(s, 4)];
            h.retain(|(n, _)| n != which);
            "base-header-missing".into()
        }
        14 => {
            set(h, "Contact", &pick(ADDRS));
            "contact".into()
        }
        15 => {
            let n = ["Authorization", "WWW-Authenticate", "Proxy-Authenticate", "Proxy-Authorization"][(s % 4) as usize];
            set(h, n, &pick(AUTHS));
            "auth".into()
        }
        16 => {
            let mut v = "Digest realm=\"r\"".to_string();
            for i in 0..50 {
                v.push_str(&format!(", p{i}=\"{}\"", if i % 7 == 0 { "" } else { "v" }));
            }
            set(h, "WWW-Authenticate", &v);
            "auth-50-params".into()
        }
        17 => {
            // invalid UTF-8 in a header value or in the start line (marker replaced below)
            if s % 2 == 0 {
                set(h, "Subject", "\u{fffd}BADUTF8");
            } else {
                start.push_str("\u{fffd}BADUTF8");
            }
            "invalid-utf8".into()
        }
        18 => {
            *start = pick(&["", " ", "INVITE", "INVITE sip:a", "SIP/2.0", "SIP/2.0 99999 x", "SIP/2.0 abc", "INVITE sip:a SIP/3.0", "INVITE  sip:a@b  SIP/2.0", "\u{0}\u{1}", "INVITE sip:%@% SIP/2.0", "SIP/2.0 200", "INVITE sip:a@b:70000 SIP/2.0"]);
            "start-line".into()
        }
        19 => {
            // obs-fold
            set(h, "Subject", "a\r\n b\r\n\tc");
            set(h, "CSeq", &h.iter().find(|(n, _)| n == "CSeq").map(|x| x.1.replace(' ', "\r\n ")).unwrap_or_default());
            "obs-fold".into()
        }
        20 => {
            // head padded to the 4096 limit +- 2
            let cur: usize = start.len() + 2 + h.iter().map(|(n, v)| n.len() + v.len() + 4).sum::<usize>() + 2;
            let target = 4094 + (s % 5) as usize;
            if target > cur + 10 {
                set(h, "X-Pad", &"p".repeat(target - cur - 9));
            }
            "head-4096+-2".into()
        }
        21 => {
            *raw_tail = match s % 6 {
                0 => b"\r\n\nX".to_vec(),
                1 => b"\n\n".to_vec(),
                2 => b"\r".to_vec(),
                3 => b"\r\n\r".to_vec(),
                4 => b"".to_vec(),
                _ => b"\n\r\n".to_vec(),
            };
            "head-terminator".into()
        }
        22 => {
            set(h, "Supported", &pick(&[",,,", "", "timer,,100rel", " ", "timer 100rel", "\"timer\""]));
            set(h, "Require", &pick(&["100rel", "timer", ",", "", "x"]));
            "option-tags".into()
        }
        23 => {
            body.extend_from_slice(&vec![b'b'; (s % 300) as usize]);
            "body-length-mismatch".into()
        }
        26 => {
            // the message claims the top-Via branch of the transaction that set up the call (still alive for 64*T1
            // after its 2xx), with a CSeq method and a request-line method that agree with it or not
            set(h, "Via", "SIP/2.0/UDP 192.0.2.9:5060;branch=z9hG4bKsetupcall");
            let cseq_num = if s % 3 == 0 { "2" } else { "1" };
            match (s / 3) % 4 {
                0 => {}
                1 => set(h, "CSeq", &format!("{cseq_num} INVITE")),
                2 => set(h, "CSeq", &format!("{cseq_num} ACK")),
                _ => set(h, "CSeq", &format!("{cseq_num} {}", ["OPTIONS", "BYE", "CANCEL", "PRACK", "FOO"][((s / 12) % 5) as usize])),
            }
            if (s / 60) % 2 == 1 && !start.starts_with("SIP/") {
                let method = ["OPTIONS", "BYE", "FOO", "ACK", "CANCEL", "PRACK", "INVITE", "UPDATE"][((s / 120) % 8) as usize];
                if let Some(rest) = start.splitn(2, ' ').nth(1) {
                    *start = format!("{method} {rest}");
                }
            }
            "branch-of-live-transaction".into()
        }
        _ => {
            // a long malformed value of a header the receive path decodes, with one multi-byte UTF-8 character at
            // any byte offset 0..150 (error paths that cut, quote or index into the offending text)
            let filler = (s % 150) as usize;
            let ch = ['\u{e9}', '\u{20ac}', '\u{1f600}', '\u{a0}'][((s / 150) % 4) as usize];
            let which = ["CSeq", "From", "To", "Call-ID", "Via", "Contact", "Max-Forwards", "Expires", "Session-Expires", "Content-Type", "RAck", "Supported"][((s / 600) % 12) as usize];
            let lead = if m % 27 == 25 { "" } else { match which { "CSeq" => "7 ", "From" | "To" | "Contact" => "<sip:a@b>;tag=", "Via" => "SIP/2.0/UDP 192.0.2.9;branch=", _ => "" } };
            let value = format!("{lead}{}{ch} OPTIONS;x=\"{ch}", "q".repeat(filler));
            set(h, which, &value);
            "long-non-ascii-malformed-value".into()
        }
    }
}

fn render(start: &str, h: &H, body: &[u8], lf_only: bool, lead: u8, raw_tail: &[u8]) -> Vec<u8> {
    let nl: &[u8] = if lf_only { b"\n" } else { b"\r\n" };
    let mut out = vec![];
    for _ in 0..lead {
        out.extend_from_slice(b"\r\n");
    }
    out.extend_from_slice(start.as_bytes());
    out.extend_from_slice(nl);
    for (n, v) in h {
        out.extend_from_slice(n.as_bytes());
        out.extend_from_slice(b": ");
        out.extend_from_slice(v.as_bytes());
        out.extend_from_slice(nl);
    }
    if raw_tail.is_empty() {
        out.extend_from_slice(nl);
    } else {
        // replace the blank line by the hostile terminator (last header line's newline is already there)
        let l = out.len() - nl.len();
        out.truncate(l);
        out.extend_from_slice(raw_tail);
    }
    out.extend_from_slice(body);
    // invalid UTF-8 marker
    let marker = "\u{fffd}BADUTF8".as_bytes();
    while let Some(pos) = out.windows(marker.len()).position(|w| w == marker) {
        out.splice(pos..pos + marker.len(), [0xff, 0xfe, 0xc3, 0x28]);
    }
    out
}

/// `dialog`: prefer the templates that address the dialog of the set-up call (BYE, re-INVITE, PRACK, ACK, UPDATE)
fn structured(dialog: bool) -> BoxedStrategy<(Vec<u8>, Vec<String>)> {
    (
        if dialog { prop_oneof![1 => any::<u8>(), 6 => prop_oneof![Just(2u8), Just(5u8), Just(6u8), Just(7u8), Just(8u8)]].boxed() } else { any::<u8>().boxed() },
        prop::collection::vec((any::<u8>(), any::<u16>()), 1..4),
        prop::bool::weighted(0.1),
        prop_oneof![6 => Just(0u8), 1 => Just(1u8), 1 => Just(2u8), 1 => Just(4u8)],
        prop::option::weighted(0.1, any::<u16>()),
    )
        .prop_map(|(kind, muts, lf_only, lead, truncate)| {
            let (mut start, mut h, mut body) = base(kind);
            let mut raw_tail = vec![];
            let mut labels = vec![];
            for (m, s) in muts {
                labels.push(mutate(m, s, &mut start, &mut h, &mut body, &mut raw_tail));
            }
            if lf_only {
                labels.push("lf-only".into());
            }
            if lead > 0 {
                labels.push("leading-crlf".into());
            }
            let mut bytes = render(&start, &h, &body, lf_only, lead, &raw_tail);
            if let Some(t) = truncate {
                let at = pick_idx(t, bytes.len().max(1));
                bytes.truncate(at);
                labels.push("truncated".into());
            }
            labels.sort();
            labels.dedup();
            (bytes, labels)
        })
        .boxed()
}

fn byte_mutated() -> BoxedStrategy<(Vec<u8>, Vec<String>)> {
    (any::<u8>(), prop::collection::vec((0u8..4, any::<u16>(), any::<u8>()), 1..6))
        .prop_map(|(kind, edits)| {
            let (start, h, body) = base(kind);
            let mut bytes = render(&start, &h, &body, false, 0, &[]);
            for (op, pos, val) in edits {
                if bytes.is_empty() {
                    break;
                }
                let i = pick_idx(pos, bytes.len());
                match op {
                    0 => bytes[i] ^= 1 << (val % 8),
                    1 => {
                        bytes.remove(i);
                    }
                    2 => bytes.insert(i, val),
                    _ => {
                        let j = (i + 1 + (val as usize % 40)).min(bytes.len());
                        let chunk: Vec<u8> = bytes[i..j].to_vec();
                        bytes.splice(i..i, chunk);
                    }
                }
            }
            (bytes, vec!["byte-mutated".to_string()])
        })
        .boxed()
}

fn random_bytes() -> BoxedStrategy<(Vec<u8>, Vec<String>)> {
    prop_oneof![
        prop::collection::vec(any::<u8>(), 0..300).prop_map(|b| (b, vec!["random-bytes".to_string()])),
        "[ -~\r\n]{0,400}".prop_map(|s| (s.into_bytes(), vec!["random-ascii".to_string()])),
        "(INVITE|SIP/2.0|OPTIONS|l|Via|v|CSeq|Content-Length|:|;|,|<|>|\"|%|@|sip:|\r\n|\r|\n| |[0-9]{1,20}|[a-z]{1,5}){0,60}".prop_map(|s| (s.into_bytes(), vec!["random-tokens".to_string()])),
    ]
    .boxed()
}

pub fn strategy() -> BoxedStrategy<Case> {
    prop::bool::weighted(0.4)
        .prop_flat_map(|in_dialog| {
            (
                prop_oneof![6 => structured(in_dialog), 2 => byte_mutated(), 2 => random_bytes()],
                prop::option::weighted(0.35, prop::collection::vec(any::<u16>(), 0..6)),
                Just(in_dialog),
                prop::bool::weighted(0.4),
                any::<u8>(),
                prop::bool::weighted(0.2),
            )
        })
        .prop_map(|((bytes, labels), stream_cuts, in_dialog, early, rng, long_life)| {
            // in-dialog delivery uses the datagram transport the call was set up on
            let stream_cuts = if in_dialog { None } else { stream_cuts };
            Case { bytes, labels, stream_cuts, in_dialog, early: early && in_dialog, before_ack: in_dialog && !early && rng % 2 == 1, long_life: long_life && in_dialog, rng }
        })
        .boxed()
}

// ---------------------------------------------------------------------------------------------
// world: an endpoint with the full UA stack that accepts every INVITE

struct AcceptAll {
    dialog_layer: LayerKey<DialogLayer>,
    invite_layer: LayerKey<InviteLayer>,
}

#[async_trait::async_trait]
impl Layer for AcceptAll {
    fn name(&self) -> &'static str {
        "accept-all"
    }
    async fn receive(&self, endpoint: &Endpoint, request: MayTake<'_, IncomingRequest>) {
        if request.line.method != Method::INVITE {
            return;
        }
        let invite = request.take();
        let contact: SipUri = "sip:ezk@10.0.0.1".parse().unwrap();
        let Ok(dialog) = Dialog::new_server(endpoint.clone(), self.dialog_layer, &invite, Contact::new(NameAddr::uri(contact))) else { return };
        let Ok(mut acceptor) = Acceptor::new(dialog, self.invite_layer, invite) else { return };
        tokio::spawn(async move {
            if let Ok(r) = acceptor.create_response(Code::from(180), None).await {
                let _ = acceptor.respond_provisional(r).await;
            }
            if acceptor.peer_supports_100rel() {
                if let Ok(r) = acceptor.create_response(Code::from(183), None).await {
                    let _ = acceptor.respond_provisional_reliable(r).await;
                }
            }
            let Ok(r) = acceptor.create_response(Code::OK, None).await else { return };
            if let Ok((mut session, _ack)) = acceptor.respond_success(r).await {
                for _ in 0..4 {
                    match session.drive().await {
                        Ok(SessionEvent::Bye(e)) => {
                            let _ = e.process_default().await;
                        }
                        Ok(SessionEvent::RefreshNeeded(e)) => {
                            let _ = e.process_default().await;
                        }
                        Ok(SessionEvent::ReInviteReceived(_)) => {}
                        Ok(SessionEvent::Terminated) | Err(_) => break,
                    }
                }
            }
        });
    }
}

fn probe_options(n: u32, transport: &str) -> Vec<u8> {
    request_text(
        "OPTIONS",
        "sip:ezk@10.0.0.1",
        &[format!("SIP/2.0/{transport} 192.0.2.77:5060;branch=z9hG4bKprobe{n}")],
        "<sip:probe@192.0.2.77>;tag=pr",
        "<sip:ezk@10.0.0.1>",
        &format!("c02-probe-{n}"),
        1,
        "OPTIONS",
        &[],
        b"",
    )
}

/// push every header value of a parsed message through every typed decoder
fn decode_everything(headers: &Headers) {
    let values: Vec<String> = headers.iter().map(|(_, v)| v.to_string()).collect();
    macro_rules! all {
        ($v:expr, $( $t:ty => $n:expr ),* ) => {{
            $(
                let mut h = Headers::new();
                h.insert($n, $v.as_str());
                let _ = h.get::<$t>($n);
                let _ = h.get::<Vec<$t>>($n);
            )*
        }};
    }
    for v in &values {
        all!(v,
            Via => Name::VIA, FromTo => Name::FROM, Contact => Name::CONTACT, Routing => Name::ROUTE, CSeq => Name::CSEQ,
            RAck => Name::RACK, RSeq => Name::RSEQ, CallID => Name::CALL_ID, MaxForwards => Name::MAX_FORWARDS,
            Expires => Name::EXPIRES, MinExpires => Name::MIN_EXPIRES, MinSe => Name::MIN_SE, SessionExpires => Name::SESSION_EXPIRES,
            ContentLength => Name::CONTENT_LENGTH, ContentType => Name::CONTENT_TYPE, Event => Name::EVENT, Accept => Name::ACCEPT,
            Allow => Name::ALLOW, AllowEvents => Name::ALLOW_EVENTS, Supported => Name::SUPPORTED, Require => Name::REQUIRE,
            Replaces => Name::REPLACES, RetryAfter => Name::RETRY_AFTER, SubscriptionState => Name::SUBSCRIPTION_STATE,
            AuthChallenge => Name::WWW_AUTHENTICATE, AuthResponse => Name::AUTHORIZATION
        );
    }
}

pub fn check(case: &Case, out: &mut CaseOut) {
    for l in &case.labels {
        // labels are a fixed vocabulary
        out.class(match l.as_str() {
            "content-length" => "content-length",
            "content-length-duplicate-compact" => "content-length-duplicate-compact",
            "cseq-number" => "cseq-number",
            "cseq-shape" => "cseq-shape",
            "session-expires" => "session-expires",
            "min-se" => "min-se",
            "expires" => "expires",
            "max-forwards" => "max-forwards",
            "rseq-rack" => "rseq-rack",
            "via" => "via",
            "via-missing" => "via-missing",
            "via-x20" => "via-x20",
            "from-to" => "from-to",
            "base-header-missing" => "base-header-missing",
            "contact" => "contact",
            "auth" => "auth",
            "auth-50-params" => "auth-50-params",
            "invalid-utf8" => "invalid-utf8",
            "start-line" => "start-line",
            "obs-fold" => "obs-fold",
            "head-4096+-2" => "head-4096+-2",
            "head-terminator" => "head-terminator",
            "option-tags" => "option-tags",
            "body-length-mismatch" => "body-length-mismatch",
            "long-non-ascii-malformed-value" => "long-non-ascii-malformed-value",
            "branch-of-live-transaction" => "branch-of-live-transaction",
            "lf-only" => "lf-only",
            "leading-crlf" => "leading-crlf",
            "truncated" => "truncated",
            "byte-mutated" => "byte-mutated",
            "random-bytes" => "random-bytes",
            "random-ascii" => "random-ascii",
            _ => "random-tokens",
        });
    }
    out.class(if case.stream_cuts.is_some() { "as-stream" } else { "as-datagram" });
    if case.in_dialog {
        out.class(if case.early {
            "inside-early-dialog(pending INVITE)"
        } else if case.before_ack {
            "inside-dialog-before-the-ACK"
        } else {
            "inside-established-dialog"
        });
        if case.long_life {
            out.class("world-outlives-the-session-timer(1900 s)");
        }
    }

    // 1. pure parsers: datagram parser + every typed decoder; stream decoder under the segmentation
    let parsed = parse_complete(Default::default(), &case.bytes);
    let mut reached_headers = false;
    if let Ok(CompleteItem::Sip { headers, .. }) = &parsed {
        reached_headers = true;
        decode_everything(headers);
    }
    let total = case.bytes.len();
    let cuts: Vec<usize> = case
        .stream_cuts
        .clone()
        .unwrap_or_default()
        .into_iter()
        .map(|s| 1 + pick_idx(s, total.saturating_sub(1).max(1)))
        .collect();
    let (decoded, _err) = decode_stream(&case.bytes, &cuts);
    if !decoded.is_empty() {
        reached_headers = true;
    }
    if reached_headers && !case.labels.iter().all(|l| l.starts_with("random")) {
        out.nontrivial(&case.bytes);
        out.class("reached-header-decoding");
    }

    // 2. the whole path + liveness: after the hostile input a valid request must still be answered
    let c = case.clone();
    let (answered_dgram, answered_stream, wire_note) = run_world(case.rng as u64, |clock| async move {
        let log = WireLog::new(clock);
        let (tp, _) = mock_datagram(&log, "UDP", false, false, "10.0.0.1:5060");
        let (lb, dialer) = mock_listener::<false>(clock, &log, "10.0.0.1:5060");
        let mut b = offline_builder();
        b.add_unmanaged_transport(tp.clone());
        let dl = b.add_layer(DialogLayer::default());
        let il = b.add_layer(InviteLayer::default());
        b.add_layer(AcceptAll { dialog_layer: dl, invite_layer: il });
        use sip_core::transport::streaming::StreamingListenerBuilder;
        lb.spawn(&mut b, "10.0.0.1:5060").await.unwrap();
        let endpoint = b.build();
        settle().await;
        let src: SocketAddr = "192.0.2.9:5060".parse().unwrap();
        let probe_src: SocketAddr = "192.0.2.77:5060".parse().unwrap();

        let mut bytes = c.bytes.clone();
        let mut late_ack: Option<Vec<u8>> = None;
        if c.in_dialog {
            // a plain call first: INVITE (no 100rel), 200 from the application, ACK
            let setup = request_text(
                "INVITE", "sip:ezk@10.0.0.1", &["SIP/2.0/UDP 192.0.2.9:5060;branch=z9hG4bKsetupcall".into()],
                "\"Mallory\" <sip:mallory@192.0.2.9>;tag=mt", "<sip:ezk@10.0.0.1>", "c02-call", 1, "INVITE",
                &["Contact: <sip:mallory@192.0.2.9>".into(), if c.early { "Supported: timer, 100rel".into() } else { "Supported: timer".into() }], b"");
            inject(&endpoint, &tp, src, &setup);
            settle().await;
            let want = if c.early { 183 } else { 200 };
            let tag = log.parsed().iter().filter_map(|(_, m)| m.as_ref()).find(|m| m.status() == Some(want)).and_then(|m| m.to_tag());
            if let (Some(tag), true) = (&tag, c.early) {
                // the peer knows RSeq from the 183: a PRACK template "RAck: 1 1 INVITE" gets the real numbers half of the time
                let rseq = log.parsed().iter().filter_map(|(_, m)| m.as_ref()).find(|m| m.status() == Some(183)).and_then(|m| m.header("rseq").map(str::to_string));
                if let (Some(r), true) = (rseq, c.rng % 2 == 0) {
                    let needle = b"RAck: 1 1 INVITE";
                    if let Some(pos) = bytes.windows(needle.len()).position(|w| w == needle) {
                        bytes.splice(pos..pos + needle.len(), format!("RAck: {} 1 INVITE", r.trim()).bytes());
                    }
                }
                let needle = b"sometag";
                while let Some(pos) = bytes.windows(needle.len()).position(|w| w == needle) {
                    bytes.splice(pos..pos + needle.len(), tag.bytes());
                }
            }
            if let (Some(tag), false) = (tag, c.early) {
                let ack = request_text(
                    "ACK", "sip:ezk@10.0.0.1", &["SIP/2.0/UDP 192.0.2.9:5060;branch=z9hG4bKsetupack".into()],
                    "<sip:mallory@192.0.2.9>;tag=mt", &format!("<sip:ezk@10.0.0.1>;tag={tag}"), "c02-call", 1, "ACK", &[], b"");
                if c.before_ack {
                    late_ack = Some(ack);
                } else {
                    inject(&endpoint, &tp, src, &ack);
                    settle().await;
                }
                // put the real tag into the hostile message
                let needle = b"sometag";
                while let Some(pos) = bytes.windows(needle.len()).position(|w| w == needle) {
                    bytes.splice(pos..pos + needle.len(), tag.bytes());
                }
            }
        }
        match &c.stream_cuts {
            None => {
                inject(&endpoint, &tp, src, &bytes);
                settle().await;
            }
            Some(_) => {
                let mut conn = dialer.dial("192.0.2.9:40404");
                settle().await;
                let mut cuts = cuts.clone();
                cuts.sort();
                cuts.dedup();
                let mut prev = 0;
                for cut in cuts.into_iter().chain([c.bytes.len()]) {
                    if cut > prev && cut <= c.bytes.len() {
                        conn.write(&c.bytes[prev..cut]).await;
                        settle().await;
                        prev = cut;
                    }
                }
                // keep the connection open while the probes run
                std::mem::forget(conn);
            }
        }
        if let Some(ack) = late_ack {
            clock.advance(700).await;
            inject(&endpoint, &tp, src, &ack);
            settle().await;
        }
        // let timers of whatever the input started run for a while (retransmissions, session timers); the long life
        // reaches past the expiry of the 1800 s session timer of the set-up call (BYE by ezk, unanswered)
        clock.advance(if c.long_life { 1_900_000 } else { 40_000 }).await;
        settle().await;

        // datagram probe
        inject(&endpoint, &tp, probe_src, &probe_options(1, "UDP"));
        settle().await;
        // stream probe on a fresh connection
        let mut fresh = dialer.dial("192.0.2.77:40405");
        settle().await;
        fresh.write(&probe_options(2, "TCP")).await;
        settle().await;
        let wire = log.parsed();
        let answered = |branch: &str| wire.iter().any(|(_, m)| m.as_ref().map_or(false, |m| !m.is_request() && m.via_branch().as_deref() == Some(branch)));
        let a = answered("z9hG4bKprobe1");
        let bb = answered("z9hG4bKprobe2");
        let note = format!("{} messages on the wire", wire.len());
        (a, bb, note)
    });
    out.note = Some(wire_note);
    if !answered_dgram {
        out.fail("c02.liveness/datagram-transport-silent", "a valid OPTIONS sent after the hostile input over the datagram transport got no response");
    }
    if !answered_stream {
        out.fail("c02.liveness/stream-listener-silent", "a valid OPTIONS on a fresh connection after the hostile input got no response");
    }
}

// ---------------------------------------------------------------------------------------------
// hostile responses to an INVITE sent through Initiator (UAC side of the invite layer)

const HOSTILE_RESP_HEADERS: &[&str] = &[
    "Session-Expires: 0", "Session-Expires: 1;refresher=uac", "Session-Expires: 9;refresher=uas", "Session-Expires: 4294967295;refresher=uac",
    "Session-Expires: 4294967295;refresher=uas", "Session-Expires: 4294967296", "Session-Expires: -1", "Session-Expires: x", "Session-Expires: 90;refresher=",
    "Require: 100rel", "RSeq: 4294967295", "RSeq: 4294967296", "RSeq: x", "Require: timer", "Require: ,,,",
    "Supported: timer, 100rel", "Supported: ,", "Contact: *", "Contact: <sip:", "Contact: x", "Contact: <sip:a@b>;expires=4294967296",
    "Record-Route: x", "Record-Route: <sip:p;lr>, ", "Record-Route: <sip:p;lr>,,<sip:q;lr>", "Min-SE: 4294967295",
    "To: <sip:bob@192.0.2.1>;tag=%41;tag=x", "CSeq: 4294967296 INVITE", "Content-Length: 18446744073709551615", "Via: x",
];

fn uac_strategy() -> BoxedStrategy<super::c13::Case> {
    use super::c13::{Case as C, RespEv};
    let ev = (
        prop_oneof![Just(1u64), Just(20u64), Just(600u64)],
        prop_oneof![Just(100u16), Just(180u16), Just(183u16), Just(200u16), Just(200u16), Just(486u16)],
        prop_oneof![1 => Just(None), 6 => (0u8..2).prop_map(Some)],
        prop::bool::weighted(0.8),
        0u8..3,
        any::<bool>(),
        prop::collection::vec(any::<u16>(), 0..4),
    )
        .prop_map(|(gap, code, tag, contact, record_routes, rseq, hs)| RespEv {
            gap,
            code,
            tag,
            contact,
            record_routes,
            supported_timer: true,
            supported_100rel: true,
            rseq,
            session_expires: None,
            extra: hs.into_iter().map(|h| HOSTILE_RESP_HEADERS[pick_idx(h, HOSTILE_RESP_HEADERS.len())].to_string()).collect(),
        });
    (prop::collection::vec(ev, 1..6), any::<u8>()).prop_map(|(responses, rng)| C { responses, rng }).boxed()
}

fn check_uac(case: &super::c13::Case, out: &mut CaseOut) {
    // the oracle here is the engine's panic capture; what the application is told is C13's subject
    let obs = super::c13::run(case);
    out.note = Some(format!("{} events", obs.events.len()));
    if obs.invite.is_none() {
        out.fail("c02.uac/invite-not-sent", "INVITE not sent");
    }
    let hostile = case.responses.iter().map(|r| r.extra.len()).sum::<usize>();
    if hostile > 0 {
        out.class("hostile-header-in-response");
        out.nontrivial(case);
    }
    for r in &case.responses {
        for h in &r.extra {
            if h.starts_with("Session-Expires") && (200..300).contains(&r.code) {
                out.class("hostile-session-expires-in-2xx");
            }
            if h.starts_with("RSeq") || h.starts_with("Require: 100rel") {
                out.class("hostile-rseq");
            }
        }
    }
}

// ---------------------------------------------------------------------------------------------
// the life of a session created from hostile responses (UAC side): the application USES what it was handed
//
// `uac_hostile_responses` above stops at the moment `Initiator` / `Early` hand the application a `Session`. Here the
// application goes on like a real one: every `Session` is driven (`Session::drive`, default handling of each event)
// while the peer-supplied values that were stored in it take effect: the session timer armed from the 2xx's
// Session-Expires fires (refresh re-INVITE by ezk, or BYE when the peer was the refresher), the peer answers those
// requests (or not) with further hostile responses, sends requests of its own inside the dialog, and the application
// finally hangs up (`Session::terminate`).

/// one response of the peer to the INVITE
#[derive(Serialize, Deserialize, Clone, Debug, Hash)]
pub struct LifeResp {
    /// ms after the previous one
    pub gap: u64,
    pub code: u16,
    /// None = no To-tag, Some(i) = fork "t<i>"
    pub tag: Option<u8>,
    /// complete header lines (Contact, Supported, Require, Session-Expires in any spelling, hostile extras)
    pub headers: Vec<String>,
}

/// what the peer does with one request ezk sends inside the dialog (refresh re-INVITE, BYE)
#[derive(Serialize, Deserialize, Clone, Debug, Hash)]
pub struct PeerAnswer {
    pub delay_ms: u64,
    pub code: u16,
    pub headers: Vec<String>,
}

/// a request of the peer inside the dialog of fork `tag`
#[derive(Serialize, Deserialize, Clone, Debug, Hash)]
pub struct PeerRequest {
    /// ms after the last response to the INVITE
    pub at_ms: u64,
    pub method: String,
    pub tag: u8,
    /// CSeq number as text (full integer range and beyond)
    pub cseq: String,
    pub headers: Vec<String>,
    /// the peer ACKs a 2xx to its re-INVITE
    pub ack: bool,
}

#[derive(Serialize, Deserialize, Clone, Debug, Hash)]
pub struct LifeCase {
    pub responses: Vec<LifeResp>,
    /// i-th entry = the peer's reaction to the i-th distinct in-dialog request ezk sends (None / missing = silence)
    pub answers: Vec<Option<PeerAnswer>>,
    pub requests: Vec<PeerRequest>,
    /// how `Initiator` is configured (see `LIFE_CONFIGS`)
    pub config: u8,
    /// events the application handles per session before it stops calling `drive` (it keeps the session)
    pub max_events: u8,
    /// the application hangs up (`Session::terminate`) this long after it was handed the session
    pub hangup_ms: Option<u64>,
    /// the application answers a re-INVITE with 200 (else it lets go of the event)
    pub accept_reinvite: bool,
    /// virtual time the world runs after the last response to the INVITE
    pub life_ms: u64,
    /// shape labels of the generator (fixed vocabulary, see `LIFE_LABELS`)
    pub labels: Vec<String>,
    pub rng: u8,
}

/// Session-Expires delta as the peer writes it: (text, class)
const SE_DELTAS: &[(&str, &str)] = &[
    ("0", "se-delta:0"), ("1", "se-delta:1..9"), ("2", "se-delta:1..9"), ("3", "se-delta:1..9"), ("9", "se-delta:1..9"),
    ("10", "se-delta:10..22"), ("11", "se-delta:10..22"), ("19", "se-delta:10..22"), ("20", "se-delta:10..22"), ("21", "se-delta:10..22"), ("22", "se-delta:10..22"),
    ("40", "se-delta:30..91"), ("89", "se-delta:30..91"), ("90", "se-delta:30..91"), ("91", "se-delta:30..91"),
    ("1800", "se-delta:1800"),
    ("4294967285", "se-delta:near-u32-max"), ("4294967286", "se-delta:near-u32-max"), ("4294967295", "se-delta:near-u32-max"),
    ("4294967296", "se-delta:not-a-u32"), ("-1", "se-delta:not-a-u32"), ("", "se-delta:not-a-u32"),
    ("007", "se-delta:1..9"), ("5 ", "se-delta:1..9"), ("0", "se-delta:0"), ("4", "se-delta:1..9"), ("12", "se-delta:10..22"), ("30", "se-delta:30..91"),
];
/// what follows the delta: (text, class). RFC 4028 wants `;refresher=uac|uas` in a 2xx, a sloppy or hostile peer sends anything
const SE_PARAMS: &[(&str, &str)] = &[
    ("", "se-param:none"), ("", "se-param:none"), ("", "se-param:none"),
    (";refresher=uac", "se-param:refresher=uac"), (";refresher=uac", "se-param:refresher=uac"),
    (";refresher=uas", "se-param:refresher=uas"), (";refresher=uas", "se-param:refresher=uas"),
    (";refresher=", "se-param:refresher-with-empty-or-unknown-value"), (";refresher=x", "se-param:refresher-with-empty-or-unknown-value"),
    (";refresher", "se-param:refresher-with-empty-or-unknown-value"), (";refresher=uacs", "se-param:refresher-with-empty-or-unknown-value"),
    (";REFRESHER=UAS", "se-param:refresher-in-other-letter-case"), (";refresher=UAC", "se-param:refresher-in-other-letter-case"), (";Refresher=Uas", "se-param:refresher-in-other-letter-case"),
    (";x=y", "se-param:other-parameters-only"), (";lr", "se-param:other-parameters-only"), (";refresh=uac", "se-param:other-parameters-only"),
    (";x=y;refresher=uas", "se-param:refresher-among-others-or-twice"), (";refresher=uas;refresher=uac", "se-param:refresher-among-others-or-twice"), (";refresher=uac;x", "se-param:refresher-among-others-or-twice"),
    (";;", "se-param:odd-syntax"), (" ; refresher = uac", "se-param:odd-syntax"), (";refresher=\"uac\"", "se-param:odd-syntax"), (";refresher=%75as", "se-param:odd-syntax"),
];
const SE_NAMES: &[&str] = &["Session-Expires", "Session-Expires", "Session-Expires", "Session-Expires", "x", "session-expires", "SESSION-EXPIRES"];

/// `Initiator` configurations: (support_timer, support_100rel, expires_secs, refresher 0 = unspecified 1 = uac 2 = uas, class)
const LIFE_CONFIGS: &[(bool, bool, Option<u32>, u8, &str)] = &[
    (true, true, None, 0, "initiator:default"),
    (true, true, None, 0, "initiator:default"),
    (true, true, Some(90), 1, "initiator:asks-90-refresher-uac"),
    (true, true, Some(1800), 2, "initiator:asks-1800-refresher-uas"),
    (true, false, Some(4294967295), 0, "initiator:asks-u32max-no-100rel"),
    (false, true, None, 0, "initiator:timer-not-supported"),
];

/// every class label of this sub-check (labels travel in the case as text; the histogram wants `&'static str`)
const LIFE_LABELS: &[&str] = &[
    "2xx-without-session-expires", "2xx-with-require-timer", "2xx-without-contact", "2xx-with-hostile-extra-header", "18x-with-session-expires",
    "18x-reliable(Require 100rel, RSeq)", "history:2xx-first", "history:18x-then-2xx-same-fork", "history:2xx-of-two-forks", "history:failure-or-none",
    "peer-request:BYE", "peer-request:INVITE", "peer-request:UPDATE", "peer-request:other-method", "peer-answers-ezk's-in-dialog-request", "peer-silent-to-ezk's-in-dialog-requests",
    "application-hangs-up", "application-accepts-re-INVITE",
];

fn static_label(l: &str) -> Option<&'static str> {
    LIFE_LABELS
        .iter()
        .chain(SE_DELTAS.iter().map(|x| &x.1))
        .chain(SE_PARAMS.iter().map(|x| &x.1))
        .chain(LIFE_CONFIGS.iter().map(|x| &x.4))
        .find(|s| **s == l)
        .copied()
}

/// a Session-Expires header line (any spelling of the name, delta x parameters) and its two classes
fn session_expires_line() -> BoxedStrategy<(String, [&'static str; 2])> {
    (any::<u16>(), any::<u16>(), any::<u16>())
        .prop_map(|(n, d, p)| {
            let name = SE_NAMES[pick_idx(n, SE_NAMES.len())];
            let (delta, dl) = SE_DELTAS[pick_idx(d, SE_DELTAS.len())];
            let (param, pl) = SE_PARAMS[pick_idx(p, SE_PARAMS.len())];
            (format!("{name}: {delta}{param}"), [dl, pl])
        })
        .boxed()
}

fn hostile_lines(max: usize) -> BoxedStrategy<Vec<String>> {
    prop::collection::vec(
        prop_oneof![
            3 => any::<u16>().prop_map(|h| HOSTILE_RESP_HEADERS[pick_idx(h, HOSTILE_RESP_HEADERS.len())].to_string()),
            1 => session_expires_line().prop_map(|x| x.0),
        ],
        0..=max,
    )
    .boxed()
}

/// the ingredients of one response; code and To-tag may be overridden by the shape of the history
#[derive(Clone, Debug)]
struct RespParts {
    gap: u64,
    code: u16,
    tag: Option<u8>,
    contact: bool,
    se: Option<(String, [&'static str; 2])>,
    require_timer: bool,
    supported: bool,
    reliable: bool,
    hostile: Vec<String>,
}

fn resp_parts() -> BoxedStrategy<RespParts> {
    (
        prop_oneof![Just(1u64), Just(20u64), Just(600u64)],
        prop_oneof![1 => Just(100u16), 2 => Just(180u16), 2 => Just(183u16), 6 => Just(200u16), 1 => Just(202u16), 1 => Just(486u16)],
        prop_oneof![1 => Just(None), 6 => Just(Some(0u8)), 3 => Just(Some(1u8))],
        prop::bool::weighted(0.96),
        prop::option::weighted(0.9, session_expires_line()),
        (prop::bool::weighted(0.6), prop::bool::weighted(0.7), prop::bool::weighted(0.3)),
        prop_oneof![7 => Just(vec![]), 1 => hostile_lines(2)],
    )
        .prop_map(|(gap, code, tag, contact, se, (require_timer, supported, reliable), hostile)| RespParts { gap, code, tag, contact, se, require_timer, supported, reliable, hostile })
        .boxed()
}

fn build_resp(p: RespParts) -> (LifeResp, Vec<&'static str>) {
    let RespParts { gap, code, tag, contact, se, require_timer, supported, reliable, hostile } = p;
    let mut headers = vec![];
    let mut labels = vec![];
    let tag = if code == 100 { None } else { tag };
    if contact {
        headers.push("Contact: <sip:bob@192.0.2.1:5060>".to_string());
    }
    if supported {
        headers.push("Supported: timer, 100rel".to_string());
    }
    match code {
        200..=299 => {
            if !contact {
                labels.push("2xx-without-contact");
            }
            if require_timer {
                headers.push("Require: timer".to_string());
                labels.push("2xx-with-require-timer");
            }
            match se {
                Some((line, classes)) => {
                    headers.push(line);
                    labels.extend(classes);
                }
                None => labels.push("2xx-without-session-expires"),
            }
            if !hostile.is_empty() {
                labels.push("2xx-with-hostile-extra-header");
            }
        }
        101..=199 => {
            if reliable {
                headers.push("Require: 100rel".to_string());
                headers.push(format!("RSeq: {}", 1 + gap));
                labels.push("18x-reliable(Require 100rel, RSeq)");
            }
            // a Session-Expires in a provisional response means nothing, but it is there when the 2xx is not
            if let (Some((line, _)), true) = (se, require_timer && reliable) {
                headers.push(line);
                labels.push("18x-with-session-expires");
            }
        }
        _ => {}
    }
    headers.extend(hostile);
    (LifeResp { gap, code, tag, headers }, labels)
}

/// shapes of the response history: (code, To-tag) of the leading responses; what follows them is free
const HISTORY_SHAPES: &[&[(u16, Option<u8>)]] = &[
    &[],
    &[(200, Some(0))],
    &[(200, Some(0))],
    &[(180, Some(0)), (200, Some(0))],
    &[(183, Some(0)), (200, Some(0))],
    &[(100, None), (180, Some(1)), (200, Some(1))],
    &[(180, Some(0)), (200, Some(1))],
    &[(200, Some(0)), (200, Some(1))],
    &[(180, Some(0)), (180, Some(1)), (200, Some(1)), (200, Some(0))],
];

fn life_strategy() -> BoxedStrategy<LifeCase> {
    let answer = prop::option::weighted(
        0.6,
        (
            prop_oneof![Just(1u64), Just(600u64), Just(5_000u64), Just(33_000u64)],
            prop_oneof![1 => Just(100u16), 1 => Just(180u16), 5 => Just(200u16), 1 => Just(202u16), 1 => Just(404u16), 1 => Just(408u16), 1 => Just(481u16), 1 => Just(491u16), 1 => Just(500u16), 1 => Just(603u16)],
            prop_oneof![3 => Just(vec![]), 2 => hostile_lines(2)],
        )
            .prop_map(|(delay_ms, code, headers)| PeerAnswer { delay_ms, code, headers }),
    );
    let request = (
        prop_oneof![Just(5u64), Just(300u64), Just(3_000u64), Just(12_000u64), Just(40_000u64)],
        prop_oneof![3 => Just("BYE"), 3 => Just("INVITE"), 2 => Just("UPDATE"), 1 => Just("OPTIONS"), 1 => Just("INFO"), 1 => Just("ACK"), 1 => Just("PRACK"), 1 => Just("CANCEL")],
        prop_oneof![3 => Just(0u8), 1 => Just(1u8)],
        prop_oneof![4 => Just("1"), 2 => Just("2"), 1 => Just("0"), 1 => Just("4294967294"), 2 => Just("4294967295"), 1 => Just("4294967296")],
        prop_oneof![2 => Just(vec![]), 3 => hostile_lines(2)],
        any::<bool>(),
    )
        .prop_map(|(at_ms, method, tag, cseq, headers, ack)| PeerRequest { at_ms, method: method.to_string(), tag, cseq: cseq.to_string(), headers, ack });
    (
        (prop::collection::vec(resp_parts(), 1..5), any::<u16>()),
        prop::collection::vec(answer, 0..4),
        prop_oneof![1 => Just(vec![]), 1 => prop::collection::vec(request, 1..3)],
        any::<u16>(),
        1u8..7,
        prop::option::weighted(0.3, prop_oneof![Just(400u64), Just(7_000u64), Just(36_000u64), Just(95_000u64)]),
        any::<bool>(),
        prop_oneof![1 => Just(900u64), 3 => Just(26_000u64), 3 => Just(70_000u64), 3 => Just(140_000u64), 1 => Just(1_900_000u64)],
        any::<u8>(),
    )
        .prop_map(|((mut parts, shape), answers, mut requests, cfg, max_events, hangup_ms, accept_reinvite, life_ms, rng)| {
            let config = pick_idx(cfg, LIFE_CONFIGS.len()) as u8;
            let mut labels: Vec<&'static str> = vec![LIFE_CONFIGS[config as usize].4];
            let shape = HISTORY_SHAPES[pick_idx(shape, HISTORY_SHAPES.len())];
            while parts.len() < shape.len() {
                let again = parts[parts.len() - 1].clone();
                parts.push(again);
            }
            for (p, (code, tag)) in parts.iter_mut().zip(shape.iter()) {
                p.code = *code;
                p.tag = *tag;
            }
            let mut responses = vec![];
            for p in parts {
                let (r, l) = build_resp(p);
                labels.extend(l);
                responses.push(r);
            }
            // shape of the history
            let first_2xx = responses.iter().position(|r| (200..300).contains(&r.code) && r.tag.is_some());
            labels.push(match first_2xx {
                None => "history:failure-or-none",
                Some(i) => {
                    let tag = responses[i].tag;
                    if responses.iter().any(|r| (200..300).contains(&r.code) && r.tag.is_some() && r.tag != tag) {
                        "history:2xx-of-two-forks"
                    } else if responses[..i].iter().any(|r| (101..200).contains(&r.code) && r.tag == tag) {
                        "history:18x-then-2xx-same-fork"
                    } else {
                        "history:2xx-first"
                    }
                }
            });
            requests.sort_by_key(|q| q.at_ms);
            for q in &requests {
                labels.push(match q.method.as_str() {
                    "BYE" => "peer-request:BYE",
                    "INVITE" => "peer-request:INVITE",
                    "UPDATE" => "peer-request:UPDATE",
                    _ => "peer-request:other-method",
                });
            }
            labels.push(if answers.iter().any(|a| a.is_some()) { "peer-answers-ezk's-in-dialog-request" } else { "peer-silent-to-ezk's-in-dialog-requests" });
            if hangup_ms.is_some() {
                labels.push("application-hangs-up");
            }
            if accept_reinvite {
                labels.push("application-accepts-re-INVITE");
            }
            labels.sort();
            labels.dedup();
            LifeCase { responses, answers, requests, config, max_events, hangup_ms, accept_reinvite, life_ms, labels: labels.into_iter().map(str::to_string).collect(), rng }
        })
        .boxed()
}

/// Datagram transport whose `send` appends to the wire log AND hands the message to the scripted peer
struct TapDatagram {
    log: WireLog,
    bound: SocketAddr,
    tap: tokio::sync::mpsc::UnboundedSender<Sent>,
}

impl std::fmt::Debug for TapDatagram {
    fn fmt(&self, f: &mut std::fmt::Formatter<'_>) -> std::fmt::Result {
        write!(f, "TapDatagram({})", self.bound)
    }
}
impl std::fmt::Display for TapDatagram {
    fn fmt(&self, f: &mut std::fmt::Formatter<'_>) -> std::fmt::Result {
        write!(f, "mock:UDP:{}", self.bound)
    }
}

#[async_trait::async_trait]
impl sip_core::transport::Transport for TapDatagram {
    fn name(&self) -> &'static str {
        "UDP"
    }
    fn secure(&self) -> bool {
        false
    }
    fn reliable(&self) -> bool {
        false
    }
    fn bound(&self) -> SocketAddr {
        self.bound
    }
    fn sent_by(&self) -> SocketAddr {
        self.bound
    }
    fn direction(&self) -> sip_core::transport::Direction {
        sip_core::transport::Direction::None
    }
    async fn send(&self, message: &[u8], target: SocketAddr) -> std::io::Result<()> {
        let s = Sent { t_ms: self.log.clock.now_ms(), tp: 1, dest: target, bytes: bytes::Bytes::copy_from_slice(message) };
        self.log.sent.lock().push(s.clone());
        let _ = self.tap.send(s);
        Ok(())
    }
}

/// what the application and the wire saw (counters only: the oracle is "no panic, still alive")
#[derive(Default, Clone, Debug)]
struct LifeObs {
    invite_sent: bool,
    sessions_direct: u32,
    sessions_through_early: u32,
    no_session_errors: u32,
    refresh_needed: u32,
    refresh_failed: u32,
    bye_events: u32,
    reinvite_events: u32,
    terminated_events: u32,
    drive_errors: u32,
    hung_up: u32,
    gave_up_driving: u32,
    /// distinct requests ezk sent inside a dialog (by branch): re-INVITE, BYE
    ezk_reinvites: u32,
    ezk_byes: u32,
    peer_answered: u32,
    probe_answered: bool,
    wire_len: usize,
}

type SharedObs = std::sync::Arc<parking_lot::Mutex<LifeObs>>;

#[derive(Clone, Copy)]
struct AppCfg {
    max_events: u8,
    hangup_ms: Option<u64>,
    accept_reinvite: bool,
}

/// the application's handling of one `Session`: drive it, handle every event the default way, hang up when it is time
async fn session_life(mut session: sip_ua::invite::session::Session, cfg: AppCfg, obs: SharedObs, parked: std::sync::Arc<parking_lot::Mutex<Vec<sip_ua::invite::session::Session>>>) {
    let deadline = cfg.hangup_ms.map(|h| tokio::time::Instant::now() + std::time::Duration::from_millis(h));
    let mut hang_up = false;
    let mut ended = false;
    for _ in 0..cfg.max_events {
        let event = match deadline {
            Some(d) => match tokio::time::timeout_at(d, session.drive()).await {
                Ok(e) => e,
                Err(_) => {
                    hang_up = true;
                    break;
                }
            },
            None => session.drive().await,
        };
        match event {
            Ok(SessionEvent::RefreshNeeded(e)) => {
                obs.lock().refresh_needed += 1;
                if e.process_default().await.is_err() {
                    obs.lock().refresh_failed += 1;
                }
            }
            Ok(SessionEvent::Bye(e)) => {
                obs.lock().bye_events += 1;
                let _ = e.process_default().await;
            }
            Ok(SessionEvent::ReInviteReceived(e)) => {
                obs.lock().reinvite_events += 1;
                if cfg.accept_reinvite {
                    if let Ok(response) = e.session.dialog.create_response(&e.invite, Code::OK, None) {
                        let _ = e.respond_success(response).await;
                    }
                }
            }
            Ok(SessionEvent::Terminated) => {
                obs.lock().terminated_events += 1;
                ended = true;
                break;
            }
            Err(_) => {
                obs.lock().drive_errors += 1;
                ended = true;
                break;
            }
        }
    }
    if ended {
        return;
    }
    if hang_up {
        obs.lock().hung_up += 1;
        let _ = session.terminate().await;
    } else {
        // the application has other things to do; it keeps the session object until the end of the world
        obs.lock().gave_up_driving += 1;
        parked.lock().push(session);
    }
}

fn run_life(case: &LifeCase) -> LifeObs {
    use sip_ua::invite::initiator::{EarlyResponse, Initiator, Response};
    use std::sync::Arc;
    let c = case.clone();
    run_world(case.rng as u64, |clock| async move {
        let obs: SharedObs = Default::default();
        let log = WireLog::new(clock);
        let (tap_tx, mut tap_rx) = tokio::sync::mpsc::unbounded_channel::<Sent>();
        let tp = sip_core::transport::TpHandle::new(TapDatagram { log: log.clone(), bound: "10.0.0.1:5060".parse().unwrap(), tap: tap_tx });
        let mut b = offline_builder();
        b.add_unmanaged_transport(tp.clone());
        let dl = b.add_layer(DialogLayer::default());
        let il = b.add_layer(InviteLayer::default());
        let endpoint = b.build();
        let peer: SocketAddr = "192.0.2.1:5060".parse().unwrap();

        let local: SipUri = "sip:alice@example.org".parse().unwrap();
        let contact: SipUri = "sip:alice@10.0.0.1:5060".parse().unwrap();
        let target: SipUri = "sip:bob@192.0.2.1".parse().unwrap();
        let mut initiator = Initiator::new(endpoint.clone(), dl, il, NameAddr::uri(local), Contact::new(NameAddr::uri(contact)), Box::new(target));
        let (support_timer, support_100rel, expires_secs, refresher, _) = LIFE_CONFIGS[(c.config as usize).min(LIFE_CONFIGS.len() - 1)];
        initiator.support_timer = support_timer;
        initiator.support_100rel = support_100rel;
        initiator.timer_config.expires_secs = expires_secs;
        initiator.timer_config.refresher = match refresher {
            1 => Refresher::Uac,
            2 => Refresher::Uas,
            _ => Refresher::Unspecified,
        };
        let invite = initiator.create_invite();
        if initiator.send_invite(invite).await.is_err() {
            return obs.lock().clone();
        }
        settle().await;
        let Some(inv) = log.snapshot().first().and_then(|s| WireMsg::parse(&s.bytes)) else { return obs.lock().clone() };
        obs.lock().invite_sent = true;

        // ---- the application
        let cfg = AppCfg { max_events: c.max_events, hangup_ms: c.hangup_ms, accept_reinvite: c.accept_reinvite };
        let parked: Arc<parking_lot::Mutex<Vec<sip_ua::invite::session::Session>>> = Default::default();
        {
            let (obs, parked) = (obs.clone(), parked.clone());
            tokio::spawn(async move {
                loop {
                    match initiator.receive().await {
                        Ok(Response::Provisional(_)) | Ok(Response::Failure(_)) => {}
                        Ok(Response::Early(mut early, _, _)) => {
                            let (obs, parked) = (obs.clone(), parked.clone());
                            tokio::spawn(async move {
                                loop {
                                    match early.receive().await {
                                        Ok(EarlyResponse::Provisional(..)) => {}
                                        Ok(EarlyResponse::Success(session, _)) => {
                                            obs.lock().sessions_through_early += 1;
                                            // the early dialog has become a session: the application lets go of it
                                            drop(early);
                                            session_life(session, cfg, obs, parked).await;
                                            return;
                                        }
                                        Ok(EarlyResponse::Terminated) => return,
                                        Err(_) => {
                                            obs.lock().no_session_errors += 1;
                                            return;
                                        }
                                    }
                                }
                            });
                        }
                        Ok(Response::Session(session, _)) => {
                            obs.lock().sessions_direct += 1;
                            tokio::spawn(session_life(session, cfg, obs.clone(), parked.clone()));
                        }
                        Ok(Response::Finished) => break,
                        Err(_) => {
                            obs.lock().no_session_errors += 1;
                            break;
                        }
                    }
                }
                // keep the initiator alive until the world ends (early dialogs reference its channels)
                std::future::pending::<()>().await;
                drop(initiator);
            });
        }

        // ---- the peer's reactions to what ezk sends inside the dialogs
        {
            let (obs, endpoint, tp, c) = (obs.clone(), endpoint.clone(), tp.clone(), c.clone());
            tokio::spawn(async move {
                let mut seen = std::collections::BTreeSet::new();
                let mut ordinal = 0usize;
                while let Some(sent) = tap_rx.recv().await {
                    let Some(m) = WireMsg::parse(&sent.bytes) else { continue };
                    if m.is_request() {
                        let method = m.method().unwrap_or("").to_string();
                        if method == "ACK" || m.to_tag().is_none() {
                            continue;
                        }
                        // retransmissions carry the branch of the original
                        if !seen.insert(m.via_branch().unwrap_or_default()) {
                            continue;
                        }
                        match method.as_str() {
                            "INVITE" => obs.lock().ezk_reinvites += 1,
                            "BYE" => obs.lock().ezk_byes += 1,
                            _ => {}
                        }
                        let answer = c.answers.get(ordinal).cloned().flatten();
                        ordinal += 1;
                        if let Some(a) = answer {
                            let (obs, endpoint, tp) = (obs.clone(), endpoint.clone(), tp.clone());
                            tokio::spawn(async move {
                                tokio::time::sleep(std::time::Duration::from_millis(a.delay_ms)).await;
                                obs.lock().peer_answered += 1;
                                inject(&endpoint, &tp, peer, &response_text(&m, a.code, None, &a.headers));
                            });
                        }
                    } else if let (Some(code), Some((num, method))) = (m.status(), m.cseq()) {
                        // a 2xx of ezk to a re-INVITE of the peer: ACK it when the script says so
                        let branch = m.via_branch().unwrap_or_default();
                        let Some(i) = branch.strip_prefix("z9hG4bKc02peer").and_then(|n| n.parse::<usize>().ok()) else { continue };
                        if (200..300).contains(&code) && method == "INVITE" && c.requests.get(i).map_or(false, |q| q.ack) {
                            let ack = request_text(
                                "ACK", "sip:alice@10.0.0.1:5060", &[format!("SIP/2.0/UDP 192.0.2.1:5060;branch=z9hG4bKc02peerack{i}")],
                                m.header("from").unwrap_or(""), m.header("to").unwrap_or(""), m.header("call-id").unwrap_or(""), num, "ACK", &[], b"");
                            inject(&endpoint, &tp, peer, &ack);
                        }
                    }
                }
            });
        }

        // ---- the script: responses to the INVITE, then the peer's own requests inside the dialog
        let mut t = 0;
        for (i, r) in c.responses.iter().enumerate() {
            t += r.gap;
            clock.until(t).await;
            let mut headers = vec![format!("X-Seq: m{i}")];
            headers.extend(r.headers.iter().cloned());
            let tag = r.tag.map(|t| format!("t{t}"));
            inject(&endpoint, &tp, peer, &response_text(&inv, r.code, tag.as_deref(), &headers));
            settle().await;
        }
        // From of the INVITE (with ezk's tag) is the To of the peer's requests, its To plus the fork's tag their From
        let ezk_side = inv.header("from").unwrap_or("").to_string();
        let peer_side = inv.header("to").unwrap_or("").to_string();
        let call_id = inv.header("call-id").unwrap_or("").to_string();
        for (i, q) in c.requests.iter().enumerate() {
            clock.until(t + q.at_ms).await;
            let mut s = format!("{} sip:alice@10.0.0.1:5060 SIP/2.0\r\n", q.method);
            s.push_str(&format!("Via: SIP/2.0/UDP 192.0.2.1:5060;branch=z9hG4bKc02peer{i}\r\n"));
            s.push_str(&format!("From: {peer_side};tag=t{}\r\nTo: {ezk_side}\r\nCall-ID: {call_id}\r\n", q.tag));
            s.push_str(&format!("CSeq: {} {}\r\nMax-Forwards: 70\r\nContact: <sip:bob@192.0.2.1:5060>\r\n", q.cseq, q.method));
            for h in &q.headers {
                s.push_str(h);
                s.push_str("\r\n");
            }
            s.push_str("Content-Length: 0\r\n\r\n");
            inject(&endpoint, &tp, peer, s.as_bytes());
            settle().await;
        }
        clock.until(t + c.life_ms).await;
        settle().await;

        // ---- liveness: a valid request from a third party is still answered
        let probe_src: SocketAddr = "192.0.2.77:5060".parse().unwrap();
        inject(&endpoint, &tp, probe_src, &probe_options(1, "UDP"));
        settle().await;
        let wire = log.parsed();
        let answered = wire.iter().any(|(_, m)| m.as_ref().map_or(false, |m| !m.is_request() && m.via_branch().as_deref() == Some("z9hG4bKprobe1")));
        let mut o = obs.lock().clone();
        o.probe_answered = answered;
        o.wire_len = wire.len();
        parked.lock().clear();
        o
    })
}

fn check_life(case: &LifeCase, out: &mut CaseOut) {
    for l in &case.labels {
        if let Some(s) = static_label(l) {
            out.class(s);
        }
    }
    // the oracle: the engine's panic capture (any task of the world), the INVITE went out, the endpoint is still alive
    let obs = run_life(case);
    out.note = Some(format!("{obs:?}"));
    if !obs.invite_sent {
        out.fail("c02.uac-life/invite-not-sent", "INVITE not sent");
        return;
    }
    if !obs.probe_answered {
        out.fail("c02.uac-life/endpoint-silent-after-session", "a valid OPTIONS sent after the session's life got no response");
    }
    let sessions = obs.sessions_direct + obs.sessions_through_early;
    if obs.sessions_direct > 0 {
        out.class("application-got-session-directly-from-2xx");
    }
    if obs.sessions_through_early > 0 {
        out.class("application-got-session-through-early-dialog");
    }
    if sessions == 0 {
        out.class("no-session");
    }
    if obs.refresh_needed > 0 {
        out.class("session-timer-fired:application-told-to-refresh");
    }
    if obs.refresh_needed > 1 {
        out.class("session-timer-fired-again-after-a-refresh");
    }
    if obs.ezk_reinvites > 0 {
        out.class("ezk-sent-refresh-re-INVITE");
    }
    if obs.ezk_byes > 0 && obs.hung_up == 0 {
        out.class("session-timer-fired:session-expired(BYE by ezk)");
    }
    if obs.peer_answered > 0 {
        out.class("peer-answered-ezk's-in-dialog-request");
    }
    if obs.bye_events > 0 {
        out.class("peer's-BYE-reached-the-session");
    }
    if obs.reinvite_events > 0 {
        out.class("peer's-re-INVITE-reached-the-session");
    }
    if obs.hung_up > 0 {
        out.class("application-hung-up(Session::terminate)");
    }
    if obs.terminated_events > 0 {
        out.class("session-reported-Terminated");
    }
    if obs.drive_errors > 0 {
        out.class("Session::drive-returned-an-error");
    }
    if obs.gave_up_driving > 0 {
        out.class("application-stopped-driving(max events)");
    }
    // non-trivial: a session existed and something happened in it after it was created
    let activity = obs.refresh_needed + obs.ezk_byes + obs.ezk_reinvites + obs.bye_events + obs.reinvite_events + obs.hung_up + obs.terminated_events + obs.drive_errors;
    if sessions > 0 && activity > 0 {
        out.nontrivial(case);
    }
}

fn seed_corpus_datagram(dir: &std::path::Path) {
    for (i, c) in sample_strategy(&strategy(), 7, 300).into_iter().enumerate() {
        let _ = std::fs::write(dir.join(format!("gen-{i:03}")), &c.bytes);
    }
    for (i, m) in super::c03::corpus().into_iter().enumerate() {
        let _ = std::fs::write(dir.join(format!("c03-{i:03}")), m.bytes());
    }
}

pub fn property() -> Property {
    Property {
        fuzz: vec![FuzzStage { target: "sip_datagram", runs: 2_000_000, max_len: 6000, seed_corpus: seed_corpus_datagram }],
        id: "C02",
        rule: "hostile: a case = one hostile input: (60%) a valid INVITE / OPTIONS / in-dialog BYE, re-INVITE, PRACK, ACK, UPDATE / 200 response / REGISTER with 1..3 mutations from a 27-entry catalogue (Content-Length incl. usize::MAX, duplicate compact l, CSeq / Session-Expires / Min-SE / Expires / Max-Forwards / RSeq / RAck over {0,1,9,10,11,u32::MAX-1,u32::MAX,u32::MAX+1,2^64-1,2^64,-1,...}, hostile Via / From / To / Contact / auth values, missing base headers, 20 Vias, invalid UTF-8, broken start lines, obs-fold, 4096+-2 byte heads, broken head terminators, body length mismatch, long malformed values with a multi-byte character at any offset, the branch of a live transaction), optional LF-only line ends, leading CRLFs, truncation; (20%) byte-level mutations of valid messages; (20%) random bytes / ASCII / SIP-token soup. Delivered as one datagram or over a stream connection in random segments, outside a dialog or (40%) inside the dialog of a call set up before (established / before the ACK / INVITE pending). Checked: datagram parser, every typed header decoder on every header value, the stream decoder, then the whole receive path of an endpoint with DialogLayer + InviteLayer + an application that accepts every INVITE (180, reliable 183, 200, session driven for 4 events), 40 s of virtual time (in-dialog, 20%: 1900 s, past the expiry of the call's 1800 s session timer), and finally a valid OPTIONS over the datagram transport and over a fresh connection must each be answered. Non-trivial = the input reached header decoding (start line parsed) and is not pure noise; distinct by bytes. uac_hostile_responses: 1..5 responses (100/180/183/200/486, forks, Contact, Record-Route, RSeq) carrying 0..3 lines of a hostile-header list to an INVITE sent through Initiator; non-trivial = at least one hostile line; distinct by case. uac_session_life: a response history by shape (2xx first / 18x then 2xx of the same fork / other fork / two 2xx / free) whose 2xx carry a Session-Expires line = name spelling x delta {0,1..22,30..91,1800,u32::MAX-10..u32::MAX,not a u32} x parameters {none, refresher=uac, =uas, empty/unknown value, other letter case, other parameters only, twice/among others, odd syntax}, with/without Require: timer, Supported, Contact, hostile extras; Initiator configuration (6); per in-dialog request of ezk a peer reaction (silence or code in {100,180,200,202,404,408,481,491,500,603} after 1 ms..33 s with hostile lines); 0..2 peer requests inside the dialog (BYE/INVITE/UPDATE/OPTIONS/INFO/ACK/PRACK/CANCEL, CSeq {0,1,2,u32::MAX-1,u32::MAX,u32::MAX+1}, hostile lines, ACK or not); an application that drives every Session it is handed (default handling of RefreshNeeded / Bye, 200 or nothing for a re-INVITE, 1..6 events, optional hang-up via Session::terminate after 0.4..95 s); 0.9 s..1900 s of virtual time; then a valid OPTIONS must be answered. Non-trivial = the application got a session and something happened in it afterwards (timer fired, request of ezk or of the peer inside the dialog, hang-up, Terminated, drive error); distinct by case.",
        assumptions: vec![
            "any panic on the case's thread (including spawned tasks of the current-thread runtime, e.g. the task driving a session) is a violation; hangs are caught by the engine's wall-clock watchdog and reported as inconclusive",
            "that a malformed message is answered is not asserted, only that valid traffic after it is",
            "uac_session_life asserts nothing about WHICH event the application gets, what ezk sends or when (C13, C17); the application calls only the public API in the documented order (keeps the Initiator alive, stops polling an Early after its session / error, never drives a session after Terminated / an error)",
            "hostile values inside live dialog / INVITE / REGISTER scenarios are additionally covered by the scenario sub-checks of C10, C12, C13, C17 (u32::MAX CSeq, hostile Session-Expires / Min-SE / Expires, retransmitted 2xx, missing To-tag)",
        ],
        explanation: "sampled; the mutation catalogue coverage (hostile) and the Session-Expires delta / parameter classes, history shapes and what actually happened in the session (uac_session_life) are reported per entry in the class histogram",
        subs: vec![
            prop_sub("hostile", strategy, 3000, 60000, check),
            prop_sub("uac_hostile_responses", uac_strategy, 1500, 30000, check_uac),
            prop_sub("uac_session_life", life_strategy, 1000, 12000, check_life),
        ],
    }
}
