//! C16 — No state is left behind once activity stops; tables are bounded by live objects
//!
//! Generated: workloads of overlapping scenarios on one endpoint (see `Kind`): client / server transactions, UAS and UAC
//! calls, floods of unmatched messages (incl. INVITEs the application abandons unanswered), connections in both directions
//! with IPv4 / IPv6 / IPv4-mapped addresses that are used, idle, closed by the peer or fed garbage, STUN requests; requests
//! of the peer optionally carry peer-chosen lifetimes (`Lifetimes`: Expires / Session-Expires / Min-SE, up to 2^32-1 s);
//! application-defined dialogs (`Kind::AppDialog`: Dialog + own Usage from a SUBSCRIBE, in-dialog requests incl. one with a
//! CSeq gap that waits in the dialog's backlog, optionally a MESSAGE that makes the usage panic while it releases waiting
//! requests; optionally a second dialog whose objects ANOTHER OS THREAD lets go of at the
//! moment the first dialog's entry is being removed); the To-tags on the responses to a UAC call (`PeerTags`: up to two
//! further UAS of a forked INVITE ring with tags of their own, the final / 183 response comes from the UAS that rang, from a
//! fork or from one never heard of, and that UAS writes its tag in the same / upper / mixed case as on its 180 - separately
//! for the retransmission of the 2xx -, optionally with a To header that has gained a display name and a URI parameter) and
//! the dialog's two tags as the peer of a UAS call writes them in its ACK / BYE (`InDialogTags`); every scenario's application objects may be dropped early, and the way
//! the application lets go is a dimension of its own (`Exit`): the owning task is cancelled (objects dropped normally) or it
//! PANICS (objects dropped while the thread unwinds; tokio confines the panic to that task). `FloodKind::HandlerPanics`:
//! requests whose handling in the application's layer panics at one of six stages (before / after taking the request, owning
//! a dialog, an acceptor, a server transaction). These panics are planned: they carry `PLANNED_PANIC` as message and are
//! filtered from the engine's panic record; every other panic is reported as usual.
//! Oracle: (quiescence) all seven table sizes are 0 after every handle is dropped and 64*T1 + 32 s + T4 + 64 s passed;
//! (bound) at every 500 ms sample each table <= a per-scenario cap computed from the case alone (`bound`).
//! Not asserted: what is on the wire, what the stack does with the peer's lifetime headers, exact table sizes, what happens
//! to a request whose handler panicked (answered or not), which thread's drop completes first, whether the stack takes a
//! respelled tag for the same dialog or for another one (how many dialogs / sessions a UAC call yields).

use crate::engine::*;
use crate::refmodel::ref_stun::{self, RAddr, RAttr, RClass, RMsg};
use crate::refmodel::ref_tsx::{T4, TIMEOUT};
use crate::world::stream::*;
use crate::world::*;
use parking_lot::Mutex;
use proptest::prelude::*;
use serde::{Deserialize, Serialize};
use sip_core::transport::{TargetTransportInfo, TpHandle};
use sip_core::{Endpoint, IncomingRequest, Layer, LayerKey, MayTake, Request};
use sip_types::header::typed::Contact;
use sip_types::uri::sip::SipUri;
use sip_types::uri::NameAddr;
use sip_types::{Code, Method, Name};
use sip_ua::dialog::{Dialog, DialogLayer, Usage, UsageGuard};
use sip_ua::invite::acceptor::Acceptor;
use sip_ua::invite::initiator::{EarlyResponse, Initiator, Response};
use sip_ua::invite::InviteLayer;
use std::collections::{BTreeSet, HashMap};
use std::net::SocketAddr;
use std::sync::mpsc;
use std::sync::Arc;
use std::time::Duration;

/// To-tags of the UAS of a UAC call (letters and digits, so that a spelling can differ): the one that rings, further ones a
/// forking proxy reached, one that answers without having sent a 18x
const UAS_TAG: &str = "ut7a";
const FORK_TAGS: [&str; 2] = ["fk1b", "fk2c"];
const STRANGER_TAG: &str = "ot9z";

/// message of every panic this check raises on purpose (an application bug that is part of the generated scenario)
pub const PLANNED_PANIC: &str = "c16-planned-application-panic";

/// real time the thread that is inside the dialog layer gives the other thread to finish before it carries on. It decides
/// nothing on a correct stack (there the other thread simply waits for the lock and finishes afterwards: same end state);
/// it only has to be longer than the few instructions between the other thread's "about to let go" and its attempt.
const GRACE: Duration = Duration::from_millis(25);

#[derive(Serialize, Deserialize, Clone, Copy, Debug, Hash, PartialEq, Eq)]
pub enum Reply {
    Never,
    Provisional,
    Ok,
    Fail,
}

#[derive(Serialize, Deserialize, Clone, Copy, Debug, Hash, PartialEq, Eq)]
pub enum CallApp {
    /// 180 then 200; the peer ACKs (or not)
    Accept { ack: bool },
    Reject,
    /// the application lets go of the acceptor without answering
    DropAcceptor,
    /// the application keeps the acceptor and never answers
    Hold,
}

#[derive(Serialize, Deserialize, Clone, Copy, Debug, Hash, PartialEq, Eq)]
pub enum FloodKind {
    OrphanResponses,
    StrayAcks,
    UnmatchedCancels,
    UnknownRequests,
    Retransmissions,
    /// INVITEs the application takes (dialog + acceptor) and gives up on at once without answering
    AbandonedInvites,
    /// requests (INVITE / MESSAGE) that trip a bug in the application's layer: its `receive` panics at stage k % 6
    /// (see `AcceptLayer`), owning whatever it had built up to there
    HandlerPanics,
}

/// how the application lets go of a scenario's objects (at `drop_at`, else when activity stops)
#[derive(Serialize, Deserialize, Clone, Copy, Debug, Hash, PartialEq, Eq, Default)]
pub enum Exit {
    /// the owning task is cancelled: the objects are dropped normally
    #[default]
    Dropped,
    /// the owning task panics: the objects are dropped while the thread unwinds
    Panics,
}

/// in which order the application lets go of a dialog and the guard of the usage it registered on it
#[derive(Serialize, Deserialize, Clone, Copy, Debug, Hash, PartialEq, Eq, Default)]
pub enum Order {
    /// the usage is still registered when the dialog's entry goes away (the entry's usages are dropped with it)
    #[default]
    DialogFirst,
    GuardFirst,
}

/// what a second OS thread lets go of (objects of a second dialog) while the first dialog's usage is shutting down
#[derive(Serialize, Deserialize, Clone, Copy, Debug, Hash, PartialEq, Eq)]
pub enum OtherThread {
    /// the Dialog (its usage guard follows on the first thread afterwards)
    Dialog,
    /// the usage guard only: the application ends its usage and keeps the Dialog until activity stops
    Guard,
    DialogThenGuard,
    GuardThenDialog,
    /// registers one more usage on its dialog first (needs the dialog layer as well), then lets go of everything
    RegisterUsage,
}

/// Lifetime headers the peer puts on its request. They are the peer's choice (any u32), so whatever the stack
/// derives from them is not one of "the protocol timers" the property waits for: an object the application has
/// dropped must not stay in a table because the peer asked for a long lifetime.
#[derive(Serialize, Deserialize, Clone, Copy, Debug, Hash, PartialEq, Eq, Default)]
pub struct Lifetimes {
    /// `Expires: n` (RFC 3261 13.3.1 / 20.19: how long the invitation / message is valid)
    #[serde(default)]
    pub expires: Option<u32>,
    /// `Session-Expires: n` (RFC 4028)
    #[serde(default)]
    pub session_expires: Option<u32>,
    /// `Min-SE: n` (RFC 4028)
    #[serde(default)]
    pub min_se: Option<u32>,
}

impl Lifetimes {
    fn headers(&self) -> Vec<String> {
        let mut h = vec![];
        if let Some(n) = self.expires {
            h.push(format!("Expires: {n}"));
        }
        if let Some(n) = self.session_expires {
            h.push(format!("Session-Expires: {n}"));
        }
        if let Some(n) = self.min_se {
            h.push(format!("Min-SE: {n}"));
        }
        h
    }
    fn any(&self) -> bool {
        *self != Lifetimes::default()
    }
}

/// address family of both ends of a connection as the stream reports them
#[derive(Serialize, Deserialize, Clone, Copy, Debug, Hash, PartialEq, Eq, Default)]
pub enum Fam {
    #[default]
    V4,
    V6,
    /// IPv4 peer of a dual-stack socket: `::ffff:a.b.c.d` on both ends
    V4Mapped,
}

/// what happens on a connection
#[derive(Serialize, Deserialize, Clone, Copy, Debug, Hash, PartialEq, Eq, Default)]
pub enum ConnUse {
    /// inbound: the peer sends an OPTIONS and an INVITE nobody wants; outbound: the application holds the handle
    #[default]
    Requests,
    /// inbound: the peer never sends a byte; outbound: the application lets go of the handle at once
    Idle,
    /// like Requests, then the peer closes its sending side 1 s later
    PeerCloses,
    /// the peer sends bytes that are not SIP 1 s after the connection was set up
    Garbage,
}

/// how the peer writes a tag it has used before when it uses it again in a later message of the same call (a tag is an
/// opaque token; a peer that changes its spelling is a different UAS by RFC 3261 19.3's byte-wise reading, the same one to
/// a stack that compares tokens case-insensitively: either reading is accepted, nothing may be left behind under either)
#[derive(Serialize, Deserialize, Clone, Copy, Debug, Hash, PartialEq, Eq, Default)]
pub enum Spelling {
    #[default]
    Same,
    Upper,
    /// case alternates character by character, starting with upper case
    Mixed,
}

impl Spelling {
    fn of(&self, tag: &str) -> String {
        match self {
            Spelling::Same => tag.to_string(),
            Spelling::Upper => tag.to_ascii_uppercase(),
            Spelling::Mixed => tag.chars().enumerate().map(|(i, c)| if i % 2 == 0 { c.to_ascii_uppercase() } else { c.to_ascii_lowercase() }).collect(),
        }
    }
}

/// which UAS sends the response named by `UacCall::reply`
#[derive(Serialize, Deserialize, Clone, Copy, Debug, Hash, PartialEq, Eq, Default)]
pub enum Answerer {
    /// the one that sent the 180 of `ring` (the only UAS there is without `ring` and forks)
    #[default]
    Ringing,
    /// the first of the `forks` (with `forks == 0`: like `Ringing`)
    Fork,
    /// a UAS that has not been heard of before (its tag was on no 18x)
    Stranger,
}

/// the To-tags (and To header) on the responses to a UAC call: the INVITE may have been forked, and a UAS may not write its
/// tag / the To header the same way twice
#[derive(Serialize, Deserialize, Clone, Copy, Debug, Hash, PartialEq, Eq, Default)]
pub struct PeerTags {
    /// this many further UAS answer 180 (own tag each) right behind the 180 of `ring`: more early dialogs
    #[serde(default)]
    pub forks: u8,
    #[serde(default)]
    pub answerer: Answerer,
    /// spelling of the answerer's tag on the `reply` response, relative to its 180
    #[serde(default)]
    pub reply_spelling: Spelling,
    /// spelling of the tag on the retransmission of the 2xx, relative to the 180
    #[serde(default)]
    pub retrans_spelling: Spelling,
    /// the `reply` response (and its retransmission) carries a To header with a display name and a URI parameter the
    /// request's To did not have (same tag)
    #[serde(default)]
    pub to_rewritten: bool,
}

impl PeerTags {
    fn any(&self) -> bool {
        *self != PeerTags::default()
    }
}

/// how the peer of a UAS call writes the dialog's tags (its own From-tag and ezk's To-tag) in its ACK and BYE
#[derive(Serialize, Deserialize, Clone, Copy, Debug, Hash, PartialEq, Eq, Default)]
pub struct InDialogTags {
    #[serde(default)]
    pub local: Spelling,
    #[serde(default)]
    pub peer: Spelling,
}

#[derive(Serialize, Deserialize, Clone, Copy, Debug, Hash, PartialEq, Eq)]
pub enum Kind {
    ClientNonInvite { reply: Reply, delay: u64 },
    ClientInvite { reply: Reply, delay: u64 },
    ServerRequest {
        copies: u8,
        #[serde(default)]
        life: Lifetimes,
    },
    ServerCall {
        app: CallApp,
        cancel_at: Option<u64>,
        bye_at: Option<u64>,
        #[serde(default)]
        life: Lifetimes,
        /// spelling of the dialog's tags in the peer's ACK / BYE
        #[serde(default)]
        tags: InDialogTags,
    },
    UacCall {
        ring: bool,
        reply: Reply,
        /// the peer's dialog-creating responses carry a Contact (without one they are malformed: no dialog)
        #[serde(default = "yes")]
        contact: bool,
        #[serde(default)]
        tags: PeerTags,
    },
    Flood {
        kind: FloodKind,
        n: u16,
        /// on the requests of the flood (request floods only)
        #[serde(default)]
        life: Lifetimes,
    },
    Conn {
        inbound: bool,
        #[serde(default)]
        fam: Fam,
        #[serde(default)]
        usage: ConnUse,
    },
    Stun { answered: bool },
    /// dialog(s) the application runs itself: SUBSCRIBE -> `Dialog::new_server` + 200, an application `Usage` that answers
    /// in-dialog requests; the peer sends one in-order INFO and (`backlog`) one with a CSeq gap that waits in the backlog
    AppDialog {
        backlog: bool,
        /// the peer also sends the requests CSeq+3 (waits) and then CSeq+2, a MESSAGE, which releases the waiting one(s);
        /// handling a MESSAGE trips a bug in the application's usage: it panics, owning the request and its transaction,
        /// while the released requests are still in the dialog layer's hands
        #[serde(default)]
        usage_bug: bool,
        order: Order,
        /// a second dialog of the same kind; its objects are let go of by another OS thread, started by the `Drop` of the
        /// first dialog's usage (with `Order::DialogFirst` that is while the first thread is inside the dialog layer)
        other: Option<OtherThread>,
    },
}

fn yes() -> bool {
    true
}

#[derive(Serialize, Deserialize, Clone, Debug, Hash)]
pub struct Atom {
    pub start: u64,
    pub kind: Kind,
    /// the application drops every handle of this scenario this long after its start
    pub drop_at: Option<u64>,
    #[serde(default)]
    pub exit: Exit,
}

#[derive(Serialize, Deserialize, Clone, Debug, Hash)]
pub struct Case {
    pub atoms: Vec<Atom>,
    pub rng: u8,
}

fn reply_strategy() -> BoxedStrategy<Reply> {
    prop_oneof![Just(Reply::Never), Just(Reply::Provisional), Just(Reply::Ok), Just(Reply::Fail)].boxed()
}

/// peer-chosen lifetimes: none (4 in 10), or one / several of Expires, Session-Expires, Min-SE with values from
/// "already over" through "within the observation window" to "far longer than every protocol timer" (up to 2^32-1 s)
fn life_strategy() -> BoxedStrategy<Lifetimes> {
    let secs = || prop_oneof![Just(0u32), Just(3u32), Just(30u32), Just(120u32), Just(400u32), Just(3600u32), Just(86_400u32), Just(u32::MAX)];
    prop_oneof![
        4 => Just(Lifetimes::default()),
        3 => secs().prop_map(|n| Lifetimes { expires: Some(n), ..Default::default() }),
        1 => prop_oneof![Just(90u32), Just(1800u32), Just(u32::MAX)].prop_map(|n| Lifetimes { session_expires: Some(n), ..Default::default() }),
        1 => prop_oneof![Just(90u32), Just(7200u32), Just(u32::MAX)].prop_map(|n| Lifetimes { min_se: Some(n), ..Default::default() }),
        1 => (secs(), prop_oneof![Just(90u32), Just(u32::MAX)], prop_oneof![Just(90u32), Just(u32::MAX)])
            .prop_map(|(e, se, m)| Lifetimes { expires: Some(e), session_expires: Some(se), min_se: Some(m) }),
    ]
    .boxed()
}

fn spelling_strategy() -> BoxedStrategy<Spelling> {
    prop_oneof![2 => Just(Spelling::Same), 1 => Just(Spelling::Upper), 1 => Just(Spelling::Mixed)].boxed()
}

/// 2 in 5 an ordinary peer (one UAS, one spelling, To as sent); else forks x who answers x spellings x rewritten To
fn peer_tags_strategy() -> BoxedStrategy<PeerTags> {
    prop_oneof![
        2 => Just(PeerTags::default()),
        3 => (
            prop_oneof![3 => Just(0u8), 1 => Just(1u8), 1 => Just(2u8)],
            prop_oneof![3 => Just(Answerer::Ringing), 1 => Just(Answerer::Fork), 1 => Just(Answerer::Stranger)],
            spelling_strategy(),
            spelling_strategy(),
            prop::bool::weighted(0.25),
        )
            .prop_map(|(forks, answerer, reply_spelling, retrans_spelling, to_rewritten)| PeerTags { forks, answerer, reply_spelling, retrans_spelling, to_rewritten }),
    ]
    .boxed()
}

fn in_dialog_tags_strategy() -> BoxedStrategy<InDialogTags> {
    prop_oneof![
        3 => Just(InDialogTags::default()),
        1 => (spelling_strategy(), spelling_strategy()).prop_map(|(local, peer)| InDialogTags { local, peer }),
    ]
    .boxed()
}

fn fam_strategy() -> BoxedStrategy<Fam> {
    prop_oneof![2 => Just(Fam::V4), 1 => Just(Fam::V6), 2 => Just(Fam::V4Mapped)].boxed()
}

fn conn_use_strategy() -> BoxedStrategy<ConnUse> {
    prop_oneof![3 => Just(ConnUse::Requests), 2 => Just(ConnUse::Idle), 2 => Just(ConnUse::PeerCloses), 1 => Just(ConnUse::Garbage)].boxed()
}

const FLOOD_KINDS: [FloodKind; 7] = [
    FloodKind::OrphanResponses,
    FloodKind::StrayAcks,
    FloodKind::UnmatchedCancels,
    FloodKind::UnknownRequests,
    FloodKind::Retransmissions,
    FloodKind::AbandonedInvites,
    FloodKind::HandlerPanics,
];

const OTHER_THREAD: [OtherThread; 5] = [OtherThread::Dialog, OtherThread::Guard, OtherThread::DialogThenGuard, OtherThread::GuardThenDialog, OtherThread::RegisterUsage];

fn other_strategy() -> BoxedStrategy<Option<OtherThread>> {
    prop_oneof![1 => Just(None), 3 => prop::sample::select(OTHER_THREAD.to_vec()).prop_map(Some)].boxed()
}

fn kind_strategy() -> BoxedStrategy<Kind> {
    let delay = prop_oneof![Just(1u64), Just(300u64), Just(700u64), Just(5000u64), Just(33_000u64)];
    prop_oneof![
        2 => (reply_strategy(), delay.clone()).prop_map(|(reply, delay)| Kind::ClientNonInvite { reply, delay }),
        2 => (reply_strategy(), delay.clone()).prop_map(|(reply, delay)| Kind::ClientInvite { reply, delay }),
        2 => (0u8..4, life_strategy()).prop_map(|(copies, life)| Kind::ServerRequest { copies, life }),
        4 => (
            prop_oneof![Just(CallApp::Accept { ack: true }), Just(CallApp::Accept { ack: false }), Just(CallApp::Reject), Just(CallApp::DropAcceptor), Just(CallApp::Hold)],
            prop::option::of(prop_oneof![Just(1u64), Just(40u64), Just(600u64)]),
            prop::option::of(prop_oneof![Just(2u64), Just(50u64), Just(2000u64)]),
            life_strategy(),
            in_dialog_tags_strategy(),
        )
            .prop_map(|(app, cancel_at, bye_at, life, tags)| Kind::ServerCall { app, cancel_at, bye_at, life, tags }),
        4 => (any::<bool>(), reply_strategy(), prop::bool::weighted(0.8), peer_tags_strategy()).prop_map(|(ring, reply, contact, tags)| Kind::UacCall { ring, reply, contact, tags }),
        3 => (
            prop::sample::select(FLOOD_KINDS.to_vec()),
            prop_oneof![Just(100u16), Just(300u16), Just(1000u16), Just(2000u16)],
            life_strategy(),
        )
            .prop_map(|(kind, n, life)| Kind::Flood { kind, n, life }),
        3 => (any::<bool>(), fam_strategy(), conn_use_strategy()).prop_map(|(inbound, fam, usage)| Kind::Conn { inbound, fam, usage }),
        2 => any::<bool>().prop_map(|answered| Kind::Stun { answered }),
        2 => (any::<bool>(), prop::bool::weighted(0.3), prop_oneof![2 => Just(Order::DialogFirst), 1 => Just(Order::GuardFirst)], other_strategy())
            .prop_map(|(backlog, usage_bug, order, other)| Kind::AppDialog { backlog, usage_bug, order, other }),
    ]
    .boxed()
}

pub fn strategy() -> BoxedStrategy<Case> {
    (
        prop::collection::vec(
            (
                prop_oneof![Just(0u64), Just(10u64), Just(400u64), Just(3000u64), Just(20_000u64)],
                kind_strategy(),
                prop::option::weighted(0.5, prop_oneof![Just(0u64), Just(1u64), Just(250u64), Just(600u64), Just(4000u64), Just(31_000u64), Just(40_000u64)]),
                prop_oneof![3 => Just(Exit::Dropped), 1 => Just(Exit::Panics)],
            ),
            3..13,
        ),
        any::<u8>(),
    )
        .prop_map(|(atoms, rng)| Case {
            atoms: atoms.into_iter().map(|(start, kind, drop_at, exit)| Atom { start, kind, drop_at, exit }).collect(),
            rng,
        })
        .boxed()
}

/// every flood kind in isolation and next to one live scenario of each kind; request floods also with a peer-chosen lifetime
pub fn flood_cases(_tier: Tier) -> Vec<Case> {
    let mut out = vec![];
    let none = Lifetimes::default();
    let companions: Vec<Option<Kind>> = vec![
        None,
        Some(Kind::ClientNonInvite { reply: Reply::Never, delay: 1 }),
        Some(Kind::ServerCall { app: CallApp::Hold, cancel_at: None, bye_at: None, life: none, tags: Default::default() }),
        Some(Kind::UacCall { ring: true, reply: Reply::Ok, contact: true, tags: Default::default() }),
        Some(Kind::UacCall { ring: true, reply: Reply::Ok, contact: false, tags: Default::default() }),
        Some(Kind::ServerCall { app: CallApp::Accept { ack: true }, cancel_at: None, bye_at: None, life: none, tags: Default::default() }),
    ];
    for kind in FLOOD_KINDS {
        for n in [100u16, 1000, 2000] {
            for (i, comp) in companions.iter().enumerate() {
                let mut atoms = vec![];
                if let Some(c) = comp {
                    atoms.push(Atom { start: 0, kind: *c, drop_at: None, exit: Exit::Dropped });
                }
                atoms.push(Atom { start: 5, kind: Kind::Flood { kind, n, life: none }, drop_at: None, exit: Exit::Dropped });
                out.push(Case { atoms, rng: i as u8 });
            }
        }
    }
    for kind in [FloodKind::UnknownRequests, FloodKind::UnmatchedCancels, FloodKind::Retransmissions, FloodKind::AbandonedInvites, FloodKind::HandlerPanics] {
        for (j, life) in enum_lifetimes().into_iter().enumerate().skip(1) {
            out.push(Case { atoms: vec![Atom { start: 5, kind: Kind::Flood { kind, n: 300, life }, drop_at: None, exit: Exit::Dropped }], rng: j as u8 });
        }
    }
    out
}

fn enum_lifetimes() -> Vec<Lifetimes> {
    let d = Lifetimes::default();
    vec![
        d,
        Lifetimes { expires: Some(0), ..d },
        Lifetimes { expires: Some(3), ..d },
        Lifetimes { expires: Some(120), ..d },
        Lifetimes { expires: Some(3600), ..d },
        Lifetimes { expires: Some(u32::MAX), ..d },
        Lifetimes { session_expires: Some(90), ..d },
        Lifetimes { session_expires: Some(u32::MAX), ..d },
        Lifetimes { min_se: Some(u32::MAX), ..d },
        Lifetimes { expires: Some(7200), session_expires: Some(1800), min_se: Some(90) },
    ]
}

/// incoming calls: what the application does x peer-chosen lifetimes x when the application lets go x peer CANCEL
pub fn call_cases(_tier: Tier) -> Vec<Case> {
    let mut out = vec![];
    for app in [CallApp::Accept { ack: true }, CallApp::Accept { ack: false }, CallApp::Reject, CallApp::DropAcceptor, CallApp::Hold] {
        for life in enum_lifetimes() {
            for drop_at in [None, Some(0u64), Some(600), Some(40_000)] {
                for cancel_at in [None, Some(40u64)] {
                    let call = Kind::ServerCall { app, cancel_at, bye_at: None, life, tags: Default::default() };
                    out.push(Case { atoms: vec![Atom { start: 0, kind: call, drop_at, exit: Exit::Dropped }], rng: out.len() as u8 });
                }
            }
        }
    }
    // the same request outside a call
    for life in enum_lifetimes() {
        for copies in [0u8, 2] {
            out.push(Case { atoms: vec![Atom { start: 0, kind: Kind::ServerRequest { copies, life }, drop_at: None, exit: Exit::Dropped }], rng: out.len() as u8 });
        }
    }
    out
}

/// connections: direction x address family x what happens on it x when the application lets go
pub fn conn_cases(_tier: Tier) -> Vec<Case> {
    let mut out = vec![];
    for inbound in [true, false] {
        for fam in [Fam::V4, Fam::V6, Fam::V4Mapped] {
            for usage in [ConnUse::Requests, ConnUse::Idle, ConnUse::PeerCloses, ConnUse::Garbage] {
                for drop_at in [None, Some(0u64), Some(4000), Some(40_000)] {
                    for start in [0u64, 400] {
                        out.push(Case { atoms: vec![Atom { start, kind: Kind::Conn { inbound, fam, usage }, drop_at, exit: Exit::Dropped }], rng: out.len() as u8 });
                    }
                }
            }
        }
    }
    out
}

/// one scenario of every kind (each on its own and next to a held call) x when the application lets go x HOW: the owning
/// task panics instead of being cancelled
pub fn exit_cases(_tier: Tier) -> Vec<Case> {
    let none = Lifetimes::default();
    let long = Lifetimes { expires: Some(3600), ..none };
    let mut kinds = vec![
        Kind::ClientNonInvite { reply: Reply::Never, delay: 1 },
        Kind::ClientNonInvite { reply: Reply::Provisional, delay: 300 },
        Kind::ClientNonInvite { reply: Reply::Ok, delay: 700 },
        Kind::ClientInvite { reply: Reply::Never, delay: 1 },
        Kind::ClientInvite { reply: Reply::Provisional, delay: 300 },
        Kind::ClientInvite { reply: Reply::Ok, delay: 300 },
        Kind::ClientInvite { reply: Reply::Fail, delay: 700 },
        Kind::ServerRequest { copies: 2, life: none },
        Kind::UacCall { ring: true, reply: Reply::Never, contact: true, tags: Default::default() },
        Kind::UacCall { ring: true, reply: Reply::Ok, contact: true, tags: Default::default() },
        Kind::UacCall { ring: false, reply: Reply::Ok, contact: false, tags: Default::default() },
        Kind::UacCall { ring: true, reply: Reply::Fail, contact: true, tags: Default::default() },
        Kind::Conn { inbound: false, fam: Fam::V4, usage: ConnUse::Requests },
        Kind::Conn { inbound: false, fam: Fam::V4Mapped, usage: ConnUse::PeerCloses },
        Kind::Conn { inbound: true, fam: Fam::V6, usage: ConnUse::Requests },
        Kind::Stun { answered: false },
        Kind::Stun { answered: true },
        Kind::Flood { kind: FloodKind::HandlerPanics, n: 100, life: none },
        Kind::AppDialog { backlog: true, usage_bug: false, order: Order::DialogFirst, other: None },
        Kind::AppDialog { backlog: true, usage_bug: true, order: Order::GuardFirst, other: Some(OtherThread::Dialog) },
        Kind::AppDialog { backlog: false, usage_bug: false, order: Order::DialogFirst, other: Some(OtherThread::DialogThenGuard) },
    ];
    for app in [CallApp::Accept { ack: true }, CallApp::Accept { ack: false }, CallApp::Reject, CallApp::DropAcceptor, CallApp::Hold] {
        kinds.push(Kind::ServerCall { app, cancel_at: None, bye_at: None, life: none, tags: Default::default() });
    }
    kinds.push(Kind::ServerCall { app: CallApp::Hold, cancel_at: Some(40), bye_at: None, life: long, tags: Default::default() });
    kinds.push(Kind::ServerCall { app: CallApp::Accept { ack: true }, cancel_at: None, bye_at: Some(2000), life: none, tags: Default::default() });
    let mut out = vec![];
    for kind in kinds {
        for drop_at in [None, Some(0u64), Some(600), Some(4000)] {
            for with_call in [false, true] {
                let mut atoms = vec![Atom { start: 0, kind, drop_at, exit: Exit::Panics }];
                if with_call {
                    atoms.push(Atom { start: 10, kind: Kind::ServerCall { app: CallApp::Hold, cancel_at: None, bye_at: None, life: none, tags: Default::default() }, drop_at: None, exit: Exit::Dropped });
                }
                out.push(Case { atoms, rng: out.len() as u8 });
            }
        }
    }
    out
}

/// outgoing calls: ringing x forks x who answers with what x how it spells its tag (reply, retransmitted 2xx) x rewritten To
/// x when / how the application lets go; plus accepted incoming calls x spelling of both tags in the peer's ACK / BYE
pub fn uaccall_cases(_tier: Tier) -> Vec<Case> {
    let mut out = vec![];
    let sp = [Spelling::Same, Spelling::Upper, Spelling::Mixed];
    for reply in [Reply::Ok, Reply::Provisional, Reply::Fail] {
        for ring in [true, false] {
            for forks in [0u8, 2] {
                for answerer in [Answerer::Ringing, Answerer::Fork, Answerer::Stranger] {
                    // (nobody rang: whoever answers is a UAS not heard of before, one such case is enough)
                    if !ring && forks == 0 && answerer != Answerer::Ringing {
                        continue;
                    }
                    for reply_spelling in sp {
                        for retrans_spelling in if reply == Reply::Ok { &sp[..] } else { &sp[..1] } {
                            for to_rewritten in [false, true] {
                                let tags = PeerTags { forks, answerer, reply_spelling, retrans_spelling: *retrans_spelling, to_rewritten };
                                let kind = Kind::UacCall { ring, reply, contact: true, tags };
                                for (drop_at, exit) in [(None, Exit::Dropped), (None, Exit::Panics), (Some(30u64), Exit::Dropped), (Some(4000), Exit::Dropped)] {
                                    out.push(Case { atoms: vec![Atom { start: 0, kind, drop_at, exit }], rng: out.len() as u8 });
                                }
                            }
                        }
                    }
                }
            }
        }
    }
    for ack in [true, false] {
        for local in sp {
            for peer in sp {
                for bye_at in [None, Some(2000u64)] {
                    for drop_at in [None, Some(4000u64)] {
                        let kind = Kind::ServerCall { app: CallApp::Accept { ack }, cancel_at: None, bye_at, life: Lifetimes::default(), tags: InDialogTags { local, peer } };
                        out.push(Case { atoms: vec![Atom { start: 0, kind, drop_at, exit: Exit::Dropped }], rng: out.len() as u8 });
                    }
                }
            }
        }
    }
    out
}

/// application-run dialogs: backlog x bug in the usage x order x what the other thread lets go of x when x how the application lets go
pub fn appdialog_cases(_tier: Tier) -> Vec<Case> {
    let mut out = vec![];
    let mut others: Vec<Option<OtherThread>> = vec![None];
    others.extend(OTHER_THREAD.iter().copied().map(Some));
    for (backlog, usage_bug) in [(false, false), (true, false), (false, true), (true, true)] {
        for order in [Order::DialogFirst, Order::GuardFirst] {
            for other in others.iter().copied() {
                for drop_at in [None, Some(0u64), Some(4000)] {
                    for exit in [Exit::Dropped, Exit::Panics] {
                        out.push(Case { atoms: vec![Atom { start: 0, kind: Kind::AppDialog { backlog, usage_bug, order, other }, drop_at, exit }], rng: out.len() as u8 });
                    }
                }
            }
        }
    }
    out
}

// ---------------------------------------------------------------------------------------------

struct AcceptLayer {
    dialog_layer: LayerKey<DialogLayer>,
    invite_layer: LayerKey<InviteLayer>,
    calls: Arc<Mutex<HashMap<String, Acceptor>>>,
    app_dialogs: Arc<Mutex<HashMap<String, Dialog>>>,
}

fn planned_panic() -> ! {
    panic!("{}", PLANNED_PANIC)
}

#[async_trait::async_trait]
impl Layer for AcceptLayer {
    fn name(&self) -> &'static str {
        "accept"
    }
    async fn receive(&self, endpoint: &Endpoint, request: MayTake<'_, IncomingRequest>) {
        let call_id = request.base_headers.call_id.0.to_string();
        let contact: SipUri = "sip:ezk@10.0.0.1".parse().unwrap();
        let contact = Contact::new(NameAddr::uri(contact));
        if let Some(stage) = call_id.strip_prefix("boom").and_then(|r| r.bytes().next()).map(|b| b.wrapping_sub(b'0')) {
            // a bug in the application: handling this request panics, owning whatever was built up to `stage`
            if stage == 0 {
                // ... the request is still the endpoint's
                planned_panic();
            }
            let mut request = request.take();
            if stage == 1 {
                planned_panic();
            }
            if request.line.method != Method::INVITE || stage == 4 {
                // ... owning the request and its server transaction
                if request.line.method == Method::INVITE {
                    let _tsx = endpoint.create_server_inv_tsx(&mut request);
                    planned_panic();
                }
                let _tsx = endpoint.create_server_tsx(&mut request);
                planned_panic();
            }
            let Ok(dialog) = Dialog::new_server(endpoint.clone(), self.dialog_layer, &request, contact) else { return };
            if stage == 2 {
                planned_panic();
            }
            let Ok(mut acceptor) = Acceptor::new(dialog, self.invite_layer, request) else { return };
            if stage == 3 {
                planned_panic();
            }
            // ... after a 180 went out
            if let Ok(r) = acceptor.create_response(Code::from(180), None).await {
                let _ = acceptor.respond_provisional(r).await;
            }
            planned_panic();
        }
        if call_id.starts_with("dlg-") && request.line.method == Method::SUBSCRIBE {
            // a dialog the application runs itself
            let mut request = request.take();
            let Ok(dialog) = Dialog::new_server(endpoint.clone(), self.dialog_layer, &request, contact) else { return };
            let Ok(response) = dialog.create_response(&request, Code::OK, None) else { return };
            let tsx = endpoint.create_server_tsx(&mut request);
            let _ = tsx.respond(response).await;
            self.app_dialogs.lock().insert(call_id, dialog);
            return;
        }
        let keep = call_id.starts_with("call-");
        let abandon = call_id.starts_with("abandon-");
        if request.line.method != Method::INVITE || !(keep || abandon) {
            return;
        }
        let invite = request.take();
        let Ok(dialog) = Dialog::new_server(endpoint.clone(), self.dialog_layer, &invite, contact) else { return };
        if let Ok(acceptor) = Acceptor::new(dialog, self.invite_layer, invite) {
            if keep {
                self.calls.lock().insert(call_id, acceptor);
            }
            // abandon-*: the application gives up on the call right here: the acceptor (its only object) is dropped unanswered
        }
    }
}

/// rendezvous between the thread that removes a dialog entry and the thread that lets go of another dialog's objects
struct Gate {
    /// (tell the other thread to go, it is about to let go, it is done)
    ends: Mutex<(mpsc::Sender<()>, mpsc::Receiver<()>, mpsc::Receiver<()>)>,
}

impl Drop for Gate {
    fn drop(&mut self) {
        let ends = self.ends.lock();
        let _ = ends.0.send(());
        // (errors at once when the other thread is gone already; the 5 s are a safety net that is never used)
        if ends.1.recv_timeout(Duration::from_secs(5)).is_ok() {
            let _ = ends.2.recv_timeout(GRACE);
        }
    }
}

/// the application's own dialog usage: answers every in-dialog request with 200 (a MESSAGE trips a bug: it panics, owning
/// the request and its transaction); shutting it down (Drop) may take a moment
struct AppUsage {
    _gate: Option<Gate>,
}

#[async_trait::async_trait]
impl Usage for AppUsage {
    fn name(&self) -> &'static str {
        "c16-app-usage"
    }
    async fn receive(&self, endpoint: &Endpoint, request: MayTake<'_, IncomingRequest>) {
        if request.line.method == Method::ACK {
            return;
        }
        let mut request = request.take();
        if request.line.method == Method::INVITE {
            let response = endpoint.create_response(&request, Code::from(488), None);
            let tsx = endpoint.create_server_inv_tsx(&mut request);
            let _ = tsx.respond_failure(response).await;
        } else {
            let response = endpoint.create_response(&request, Code::OK, None);
            let tsx = endpoint.create_server_tsx(&mut request);
            if request.line.method == Method::MESSAGE {
                planned_panic();
            }
            let _ = tsx.respond(response).await;
        }
    }
}

struct OtherSide {
    dialog: Dialog,
    guard: UsageGuard,
    what: OtherThread,
    go: mpsc::Receiver<()>,
    about: mpsc::Sender<()>,
    done: mpsc::Sender<()>,
}

/// everything the application holds of an `AppDialog` scenario; letting go of it (Drop: task cancelled, task unwinding or
/// scenario over) is where the second thread comes in
struct Held {
    first: Option<(Dialog, UsageGuard)>,
    order: Order,
    other: Option<OtherSide>,
    go_fallback: mpsc::Sender<()>,
    flags: Flags,
    /// objects the application keeps beyond this scenario, until activity stops
    kept: Arc<Mutex<Vec<Dialog>>>,
}

impl Drop for Held {
    fn drop(&mut self) {
        let helper = self.other.take().map(|o| {
            std::thread::spawn(move || {
                let OtherSide { dialog, guard, what, go, about, done } = o;
                let _ = go.recv();
                let _ = about.send(());
                let rest: (Option<Dialog>, Option<UsageGuard>) = match what {
                    OtherThread::Dialog => {
                        drop(dialog);
                        (None, Some(guard))
                    }
                    OtherThread::Guard => {
                        drop(guard);
                        (Some(dialog), None)
                    }
                    OtherThread::DialogThenGuard => {
                        drop(dialog);
                        drop(guard);
                        (None, None)
                    }
                    OtherThread::GuardThenDialog => {
                        drop(guard);
                        drop(dialog);
                        (None, None)
                    }
                    OtherThread::RegisterUsage => {
                        let second = dialog.register_usage(AppUsage { _gate: None });
                        drop(guard);
                        drop(dialog);
                        drop(second);
                        (None, None)
                    }
                };
                let _ = done.send(());
                rest
            })
        });
        if let Some((dialog, guard)) = self.first.take() {
            match self.order {
                Order::DialogFirst => {
                    drop(dialog);
                    drop(guard);
                }
                Order::GuardFirst => {
                    drop(guard);
                    drop(dialog);
                }
            }
        }
        // (in case the usage's Drop has not run: the other thread must not wait for ever)
        let _ = self.go_fallback.send(());
        if let Some(h) = helper {
            match h.join() {
                // a guard the other thread did not let go of follows here, on the first thread; a Dialog stays with the application
                Ok((dialog, guard)) => {
                    drop(guard);
                    self.kept.lock().extend(dialog);
                }
                Err(_) => {
                    self.flags.lock().insert("other-thread-panicked");
                }
            }
        }
    }
}

type Flags = Arc<Mutex<BTreeSet<&'static str>>>;

#[derive(Clone, Copy, Debug, Default, PartialEq, Eq, Serialize)]
pub struct Counts {
    pub tsx: usize,
    pub transports: usize,
    pub stun: usize,
    pub dialogs: usize,
    pub backlog: usize,
    pub usages: usize,
    pub cancellables: usize,
}

impl Counts {
    fn is_zero(&self) -> bool {
        *self == Counts::default()
    }
}

#[derive(Clone)]
struct Ctx {
    clock: Clock,
    log: WireLog,
    endpoint: Endpoint,
    udp: TpHandle,
    dl: LayerKey<DialogLayer>,
    il: LayerKey<InviteLayer>,
    calls: Arc<Mutex<HashMap<String, Acceptor>>>,
    app_dialogs: Arc<Mutex<HashMap<String, Dialog>>>,
    kept: Arc<Mutex<Vec<Dialog>>>,
    flags: Flags,
    peer: SocketAddr,
}

/// messages of one call on the wire (cheap byte pre-filter before parsing: the log can hold thousands of flood answers)
fn call_messages(log: &WireLog, from: &mut usize, call_id: &str) -> Vec<WireMsg> {
    let sent = log.sent.lock();
    let needle = call_id.as_bytes();
    let out = sent[(*from).min(sent.len())..]
        .iter()
        .filter(|s| s.bytes.windows(needle.len()).any(|w| w == needle))
        .filter_map(|s| WireMsg::parse(&s.bytes))
        .filter(|m| m.call_id() == Some(call_id))
        .collect();
    *from = sent.len();
    out
}

fn find_request(log: &WireLog, call_id: &str, method: &str) -> Option<WireMsg> {
    let mut from = 0;
    call_messages(log, &mut from, call_id).into_iter().find(|m| m.is_request() && m.method() == Some(method))
}

fn peer_req(method: &str, branch: &str, call_id: &str, cseq: u32, to_tag: Option<&str>, extra: &[String]) -> Vec<u8> {
    peer_req_from(method, branch, call_id, cseq, "ptag", to_tag, extra)
}

fn peer_req_from(method: &str, branch: &str, call_id: &str, cseq: u32, from_tag: &str, to_tag: Option<&str>, extra: &[String]) -> Vec<u8> {
    let to = match to_tag {
        Some(t) => format!("<sip:ezk@10.0.0.1>;tag={t}"),
        None => "<sip:ezk@10.0.0.1>".to_string(),
    };
    let mut e = vec!["Contact: <sip:peer@192.0.2.9>".to_string()];
    e.extend(extra.iter().cloned());
    request_text(
        method,
        "sip:ezk@10.0.0.1",
        &[format!("SIP/2.0/UDP 192.0.2.9:5060;branch={branch}")],
        &format!("<sip:peer@192.0.2.9>;tag={from_tag}"),
        &to,
        call_id,
        cseq,
        method,
        &e,
        b"",
    )
}

/// a response of one of the UAS of a UAC call; `to_rewritten`: the To header comes back with a display name and a URI
/// parameter the request did not have
fn uas_response(req: &WireMsg, code: u16, tag: &str, extra: &[String], to_rewritten: bool) -> Vec<u8> {
    let bytes = response_text(req, code, Some(tag), extra);
    if !to_rewritten {
        return bytes;
    }
    let text = String::from_utf8_lossy(&bytes).into_owned();
    let mut out = String::new();
    for line in text.split_inclusive("\r\n") {
        if line.starts_with("To:") {
            out.push_str(&format!("To: \"Bob B.\" <sip:bob@192.0.2.9;user=phone>;tag={tag}\r\n"));
        } else {
            out.push_str(line);
        }
    }
    out.into_bytes()
}

async fn run_atom(ctx: Ctx, i: usize, atom: Atom) {
    let Ctx { clock, log, endpoint, udp, dl, il, calls, app_dialogs, kept, flags, peer } = ctx;
    clock.until(atom.start).await;
    let t0 = atom.start;
    match atom.kind {
        Kind::ClientNonInvite { reply, delay } | Kind::ClientInvite { reply, delay } => {
            let invite = matches!(atom.kind, Kind::ClientInvite { .. });
            let call_id = format!("cli-{i}");
            let uri: SipUri = "sip:bob@192.0.2.9:5060".parse().unwrap();
            let mut request = Request::new(if invite { Method::INVITE } else { Method::OPTIONS }, uri);
            request.headers.insert(Name::FROM, "<sip:ezk@10.0.0.1>;tag=loc");
            request.headers.insert(Name::TO, "<sip:bob@192.0.2.9>");
            request.headers.insert(Name::CALL_ID, call_id.as_str());
            request.headers.insert(Name::CSEQ, if invite { "1 INVITE" } else { "1 OPTIONS" });
            request.headers.insert(Name::MAX_FORWARDS, "70");
            let mut target = TargetTransportInfo { via_host_port: None, transport: Some((udp.clone(), peer)) };
            // the peer
            {
                let log = log.clone();
                let endpoint = endpoint.clone();
                let udp = udp.clone();
                let call_id = call_id.clone();
                tokio::spawn(async move {
                    clock.until(t0 + delay).await;
                    let code = match reply {
                        Reply::Never => return,
                        Reply::Provisional => 180,
                        Reply::Ok => 200,
                        Reply::Fail => 486,
                    };
                    if let Some(req) = find_request(&log, &call_id, if invite { "INVITE" } else { "OPTIONS" }) {
                        inject(&endpoint, &udp, peer, &response_text(&req, code, Some("pt"), &["Contact: <sip:bob@192.0.2.9>".into()]));
                    }
                });
            }
            if invite {
                if let Ok(mut tsx) = endpoint.send_invite(request, &mut target).await {
                    while let Ok(Some(_)) = tsx.receive().await {}
                }
            } else if let Ok(mut tsx) = endpoint.send_request(request, &mut target).await {
                loop {
                    match tsx.receive().await {
                        Ok(r) if r.line.code.into_u16() < 200 => continue,
                        _ => break,
                    }
                }
            }
        }
        Kind::ServerRequest { copies, life } => {
            let bytes = peer_req("MESSAGE", &format!("z9hG4bKsrv{i}"), &format!("srv-{i}"), 1, None, &life.headers());
            inject(&endpoint, &udp, peer, &bytes);
            for k in 0..copies {
                clock.until(t0 + 500 * (1 << k.min(3)) as u64).await;
                inject(&endpoint, &udp, peer, &bytes);
            }
        }
        Kind::ServerCall { app, cancel_at, bye_at, life, tags } => {
            let call_id = format!("call-{i}");
            let branch = format!("z9hG4bKcall{i}");
            let mut extra = vec!["Supported: timer".to_string()];
            extra.extend(life.headers());
            inject(&endpoint, &udp, peer, &peer_req("INVITE", &branch, &call_id, 1, None, &extra));
            settle().await;
            let Some(mut acceptor) = calls.lock().remove(&call_id) else { return };
            // the peer's side of the call
            {
                let log = log.clone();
                let endpoint = endpoint.clone();
                let udp = udp.clone();
                let call_id = call_id.clone();
                let branch = branch.clone();
                tokio::spawn(async move {
                    if let Some(c) = cancel_at {
                        clock.until(t0 + c).await;
                        inject(&endpoint, &udp, peer, &request_text("CANCEL", "sip:ezk@10.0.0.1", &[format!("SIP/2.0/UDP 192.0.2.9:5060;branch={branch}")], "<sip:peer@192.0.2.9>;tag=ptag", "<sip:ezk@10.0.0.1>", &call_id, 1, "CANCEL", &[], b""));
                    }
                    // ACK whatever final arrives (200: only when the scenario says so)
                    let mut from = 0;
                    for _ in 0..400 {
                        clock.advance(25).await;
                        let fin = call_messages(&log, &mut from, &call_id).into_iter().find(|m| !m.is_request() && m.cseq().map_or(false, |c| c.1 == "INVITE") && m.status().unwrap_or(0) >= 200);
                        if let Some(f) = fin {
                            let code = f.status().unwrap_or(0);
                            let ack_it = code >= 300 || matches!(app, CallApp::Accept { ack: true });
                            if ack_it {
                                let b = if code >= 300 { branch.clone() } else { format!("{branch}ack") };
                                // (the dialog's tags the way this peer writes them in its in-dialog requests)
                                let local = f.to_tag().map(|t| tags.local.of(&t));
                                inject(&endpoint, &udp, peer, &peer_req_from("ACK", &b, &call_id, 1, &tags.peer.of("ptag"), local.as_deref(), &[]));
                            }
                            if let (Some(b), true) = (bye_at, code < 300) {
                                clock.until(t0 + b).await;
                                let local = f.to_tag().map(|t| tags.local.of(&t));
                                inject(&endpoint, &udp, peer, &peer_req_from("BYE", &format!("{branch}bye"), &call_id, 2, &tags.peer.of("ptag"), local.as_deref(), &[]));
                            }
                            break;
                        }
                    }
                });
            }
            match app {
                CallApp::Hold => {
                    std::future::pending::<()>().await;
                    drop(acceptor);
                }
                CallApp::DropAcceptor => drop(acceptor),
                CallApp::Reject => {
                    if let Ok(r) = acceptor.create_response(Code::from(486), None).await {
                        let _ = acceptor.respond_failure(r).await;
                    }
                }
                CallApp::Accept { .. } => {
                    if let Ok(r) = acceptor.create_response(Code::from(180), None).await {
                        let _ = acceptor.respond_provisional(r).await;
                    }
                    clock.advance(20).await;
                    if let Ok(r) = acceptor.create_response(Code::OK, None).await {
                        if let Ok((mut session, _ack)) = acceptor.respond_success(r).await {
                            loop {
                                use sip_ua::invite::session::Event;
                                match session.drive().await {
                                    Ok(Event::Bye(e)) => {
                                        let _ = e.process_default().await;
                                    }
                                    Ok(Event::RefreshNeeded(_)) | Ok(Event::ReInviteReceived(_)) => {}
                                    Ok(Event::Terminated) | Err(_) => break,
                                }
                            }
                            // the application keeps the finished session object until it lets go of everything
                            std::future::pending::<()>().await;
                            drop(session);
                        }
                    }
                }
            }
        }
        Kind::UacCall { ring, reply, contact: peer_sends_contact, tags } => {
            let local: SipUri = "sip:ezk@10.0.0.1".parse().unwrap();
            let contact: SipUri = "sip:ezk@10.0.0.1:5060".parse().unwrap();
            let target: SipUri = "sip:bob@192.0.2.9".parse().unwrap();
            let mut initiator = Initiator::new(endpoint.clone(), dl, il, NameAddr::uri(local), Contact::new(NameAddr::uri(contact)), Box::new(target));
            let invite = initiator.create_invite();
            let call_id = invite.headers.iter().find(|(n, _)| n.as_print_str().eq_ignore_ascii_case("call-id")).map(|(_, v)| v.to_string()).unwrap_or_default();
            if initiator.send_invite(invite).await.is_err() {
                return;
            }
            {
                let log = log.clone();
                let endpoint = endpoint.clone();
                let udp = udp.clone();
                tokio::spawn(async move {
                    clock.advance(10).await;
                    let Some(req) = find_request(&log, &call_id, "INVITE") else { return };
                    let extra = if peer_sends_contact { vec!["Contact: <sip:bob@192.0.2.9>".to_string()] } else { vec![] };
                    // the UAS the (possibly forked) INVITE reached, by their To-tags
                    let answerer = match tags.answerer {
                        Answerer::Ringing => UAS_TAG,
                        Answerer::Fork if tags.forks > 0 => FORK_TAGS[0],
                        Answerer::Fork => UAS_TAG,
                        Answerer::Stranger => STRANGER_TAG,
                    };
                    if ring {
                        inject(&endpoint, &udp, peer, &uas_response(&req, 180, UAS_TAG, &extra, false));
                    }
                    for f in FORK_TAGS.iter().take(tags.forks as usize) {
                        clock.advance(1).await;
                        inject(&endpoint, &udp, peer, &uas_response(&req, 180, f, &extra, false));
                    }
                    if ring || tags.forks > 0 {
                        clock.advance(50).await;
                    }
                    let tag = tags.reply_spelling.of(answerer);
                    match reply {
                        Reply::Never => {}
                        Reply::Provisional => {
                            inject(&endpoint, &udp, peer, &uas_response(&req, 183, &tag, &extra, tags.to_rewritten));
                        }
                        Reply::Ok => {
                            inject(&endpoint, &udp, peer, &uas_response(&req, 200, &tag, &extra, tags.to_rewritten));
                            // the 2xx is retransmitted once (the application sends no ACK)
                            clock.advance(500).await;
                            inject(&endpoint, &udp, peer, &uas_response(&req, 200, &tags.retrans_spelling.of(answerer), &extra, tags.to_rewritten));
                        }
                        Reply::Fail => {
                            inject(&endpoint, &udp, peer, &uas_response(&req, 486, &tag, &extra, tags.to_rewritten));
                        }
                    }
                });
            }
            let mut kept_sessions = vec![];
            // early dialogs are polled by tasks of their own; they belong to this scenario and go away with it
            // (declared after the initiator: dropped, i.e. aborted, before it)
            let mut early_tasks = tokio::task::JoinSet::new();
            loop {
                match initiator.receive().await {
                    Ok(Response::Provisional(_)) | Ok(Response::Failure(_)) => {}
                    Ok(Response::Early(mut early, _, _)) => {
                        early_tasks.spawn(async move {
                            let mut sessions = vec![];
                            loop {
                                match early.receive().await {
                                    Ok(EarlyResponse::Provisional(..)) => {}
                                    Ok(EarlyResponse::Success(s, _)) => {
                                        sessions.push(s);
                                        break;
                                    }
                                    Ok(EarlyResponse::Terminated) | Err(_) => break,
                                }
                            }
                            drop(early);
                            std::future::pending::<()>().await;
                            drop(sessions);
                        });
                    }
                    Ok(Response::Session(s, _)) => kept_sessions.push(s),
                    Ok(Response::Finished) | Err(_) => break,
                }
            }
            std::future::pending::<()>().await;
            drop(early_tasks);
            drop((kept_sessions, initiator));
        }
        Kind::Flood { kind, n, life } => {
            let lh = life.headers();
            // a transaction the retransmission flood can hit
            let base = peer_req("MESSAGE", &format!("z9hG4bKflood{i}"), &format!("flood-{i}"), 1, None, &lh);
            if kind == FloodKind::Retransmissions {
                inject(&endpoint, &udp, peer, &base);
                settle().await;
            }
            for k in 0..n {
                let bytes = match kind {
                    FloodKind::OrphanResponses => format!(
                        "SIP/2.0 200 OK\r\nVia: SIP/2.0/UDP 10.0.0.1:5060;branch=z9hG4bKnone{i}x{k}\r\nFrom: <sip:ezk@10.0.0.1>;tag=a\r\nTo: <sip:x@192.0.2.9>;tag=b\r\nCall-ID: orphan-{i}-{k}\r\nCSeq: 1 {}\r\nContent-Length: 0\r\n\r\n",
                        if k % 2 == 0 { "INVITE" } else { "OPTIONS" }
                    )
                    .into_bytes(),
                    FloodKind::StrayAcks => peer_req("ACK", &format!("z9hG4bKack{i}x{k}"), &format!("stray-{i}-{k}"), 1, Some("nosuch"), &[]),
                    FloodKind::UnmatchedCancels => request_text("CANCEL", "sip:ezk@10.0.0.1", &[format!("SIP/2.0/UDP 192.0.2.9:5060;branch=z9hG4bKcan{i}x{k}")], "<sip:peer@192.0.2.9>;tag=ptag", "<sip:ezk@10.0.0.1>", &format!("can-{i}-{k}"), 1, "CANCEL", &lh, b""),
                    FloodKind::UnknownRequests => peer_req(if k % 3 == 0 { "INVITE" } else { "INFO" }, &format!("z9hG4bKunk{i}x{k}"), &format!("unk-{i}-{k}"), 1, if k % 2 == 0 { Some("nosuch") } else { None }, &lh),
                    FloodKind::Retransmissions => base.clone(),
                    FloodKind::AbandonedInvites => {
                        let mut extra = vec!["Supported: timer".to_string()];
                        extra.extend(lh.iter().cloned());
                        peer_req("INVITE", &format!("z9hG4bKabn{i}x{k}"), &format!("abandon-{i}-{k}"), 1, None, &extra)
                    }
                    FloodKind::HandlerPanics => {
                        // stage of the application's handler at which it panics: k % 6; every third round a MESSAGE
                        let mut extra = vec!["Supported: timer".to_string()];
                        extra.extend(lh.iter().cloned());
                        let method = if (k / 6) % 3 == 2 { "MESSAGE" } else { "INVITE" };
                        peer_req(method, &format!("z9hG4bKboom{i}x{k}"), &format!("boom{}-{i}-{k}", k % 6), 1, None, &extra)
                    }
                };
                inject(&endpoint, &udp, peer, &bytes);
                if k % 64 == 63 {
                    settle().await;
                }
            }
        }
        Kind::Conn { .. } => {
            // handled by the caller (needs the dialer / factory): see run()
        }
        Kind::AppDialog { backlog, usage_bug, order, other } => {
            let n = if other.is_some() { 2 } else { 1 };
            let ids: Vec<String> = (0..n).map(|j| format!("dlg-{i}-{j}")).collect();
            for (j, id) in ids.iter().enumerate() {
                inject(&endpoint, &udp, peer, &peer_req("SUBSCRIBE", &format!("z9hG4bKdlg{i}x{j}"), id, 1, None, &["Event: presence".to_string(), "Expires: 3600".to_string()]));
            }
            settle().await;
            let mut dialogs = vec![];
            for id in &ids {
                match app_dialogs.lock().remove(id) {
                    Some(d) => dialogs.push(d),
                    None => return,
                }
            }
            flags.lock().insert("app-dialog:established");
            let (go_tx, go_rx) = mpsc::channel();
            let (about_tx, about_rx) = mpsc::channel();
            let (done_tx, done_rx) = mpsc::channel();
            let first = dialogs.remove(0);
            let gate = other.map(|_| Gate { ends: Mutex::new((go_tx.clone(), about_rx, done_rx)) });
            let first_guard = first.register_usage(AppUsage { _gate: gate });
            let other_side = dialogs.pop().zip(other).map(|(dialog, what)| {
                let guard = dialog.register_usage(AppUsage { _gate: None });
                OtherSide { dialog, guard, what, go: go_rx, about: about_tx, done: done_tx }
            });
            let held = Held { first: Some((first, first_guard)), order, other: other_side, go_fallback: go_tx, flags: flags.clone(), kept: kept.clone() };
            // the peer: an in-order request the usage answers, and one with a CSeq gap that has to wait for the missing ones
            for (j, id) in ids.iter().enumerate() {
                let mut from = 0;
                let ok = call_messages(&log, &mut from, id).into_iter().find(|m| !m.is_request() && m.status() == Some(200));
                let Some(tag) = ok.and_then(|m| m.to_tag()) else { continue };
                inject(&endpoint, &udp, peer, &peer_req("INFO", &format!("z9hG4bKdlg{i}x{j}a"), id, 2, Some(&tag), &[]));
                if backlog {
                    inject(&endpoint, &udp, peer, &peer_req("INFO", &format!("z9hG4bKdlg{i}x{j}b"), id, 6, Some(&tag), &[]));
                }
                if usage_bug {
                    settle().await;
                    inject(&endpoint, &udp, peer, &peer_req("INFO", &format!("z9hG4bKdlg{i}x{j}c"), id, 4, Some(&tag), &[]));
                    settle().await;
                    inject(&endpoint, &udp, peer, &peer_req("MESSAGE", &format!("z9hG4bKdlg{i}x{j}d"), id, 3, Some(&tag), &[]));
                }
            }
            std::future::pending::<()>().await;
            drop(held);
        }
        Kind::Stun { answered } => {
            let server: SocketAddr = "198.51.100.3:3478".parse().unwrap();
            if answered {
                let log = log.clone();
                let endpoint = endpoint.clone();
                let udp = udp.clone();
                tokio::spawn(async move {
                    clock.advance(700).await;
                    let req = log.snapshot().into_iter().rev().find(|s| s.dest == server && s.t_ms >= t0);
                    if let Some(s) = req {
                        if s.bytes.len() >= 20 {
                            let mut tid = [0u8; 12];
                            tid.copy_from_slice(&s.bytes[8..20]);
                            let resp = ref_stun::encode(&RMsg {
                                class: RClass::Success,
                                method: 1,
                                tid,
                                attrs: vec![RAttr::XorMappedAddress(RAddr::V4 { ip: [203, 0, 113, 7], port: 40000 })],
                                tail: vec![],
                            });
                            inject(&endpoint, &udp, server, &resp);
                        }
                    }
                });
            }
            let _ = endpoint.discover_public_address(server, &udp).await;
        }
    }
}

pub struct Observed {
    pub samples: Vec<(u64, Counts)>,
    pub end: Counts,
    pub end_t: u64,
    /// what the scenarios reached (for the class histogram) / went wrong outside the case's thread
    pub flags: BTreeSet<&'static str>,
}

/// a scenario's task: runs until the application lets go (`let_go`), which either cancels it (the caller aborts the task)
/// or makes it panic right where it is, owning everything the scenario holds at that moment
async fn scenario(ctx: Ctx, i: usize, atom: Atom, let_go: Arc<tokio::sync::Notify>) {
    let fut = run_atom(ctx, i, atom);
    tokio::pin!(fut);
    tokio::select! {
        biased;
        _ = let_go.notified() => planned_panic(),
        _ = &mut fut => {}
    }
}

struct Scn {
    task: tokio::task::JoinHandle<()>,
    let_go: Arc<tokio::sync::Notify>,
    exit: Exit,
}

impl Scn {
    fn let_go(self) {
        match self.exit {
            Exit::Dropped => self.task.abort(),
            Exit::Panics => self.let_go.notify_one(),
        }
    }
}

/// the application lets go of a connection handle: dropped, or owned by a task that panics
fn let_go_handle(h: Option<TpHandle>, exit: Exit) {
    if let (Some(h), Exit::Panics) = (h, exit) {
        tokio::spawn(async move {
            let _owned = h;
            planned_panic();
        });
    }
}

fn counts(endpoint: &Endpoint, dl: LayerKey<DialogLayer>, il: LayerKey<InviteLayer>) -> Counts {
    let (tsx, transports, stun) = endpoint.verif_counts();
    let (dialogs, backlog, usages) = endpoint[dl].verif_counts();
    Counts { tsx, transports, stun, dialogs, backlog, usages, cancellables: endpoint[il].verif_counts() }
}

pub fn run(case: &Case) -> Observed {
    let case = case.clone();
    run_world(case.rng as u64, |clock| async move {
        let log = WireLog::new(clock);
        let (udp, _) = mock_datagram(&log, "UDP", false, false, "10.0.0.1:5060");
        let (factory, probe) = mock_factory::<false>(clock, &log);
        let (lb, dialer) = mock_listener::<false>(clock, &log, "10.0.0.1:5060");
        let calls: Arc<Mutex<HashMap<String, Acceptor>>> = Default::default();
        let app_dialogs: Arc<Mutex<HashMap<String, Dialog>>> = Default::default();
        let flags: Flags = Default::default();
        let kept: Arc<Mutex<Vec<Dialog>>> = Default::default();
        let mut b = offline_builder();
        b.add_unmanaged_transport(udp.clone());
        b.add_transport_factory(Arc::new(factory));
        let dl = b.add_layer(DialogLayer::default());
        let il = b.add_layer(InviteLayer::default());
        b.add_layer(AcceptLayer { dialog_layer: dl, invite_layer: il, calls: calls.clone(), app_dialogs: app_dialogs.clone() });
        use sip_core::transport::streaming::StreamingListenerBuilder;
        lb.spawn(&mut b, "10.0.0.1:5060").await.unwrap();
        let endpoint = b.build();
        settle().await;
        let peer: SocketAddr = "192.0.2.9:5060".parse().unwrap();
        let ctx = Ctx { clock, log: log.clone(), endpoint: endpoint.clone(), udp: udp.clone(), dl, il, calls: calls.clone(), app_dialogs: app_dialogs.clone(), kept: kept.clone(), flags: flags.clone(), peer };

        let mut tasks: Vec<Option<Scn>> = vec![];
        let mut drops: Vec<(u64, usize)> = vec![];
        let mut conn_handles: HashMap<usize, TpHandle> = HashMap::new();
        let mut peer_conns: HashMap<usize, PeerConn> = HashMap::new();
        let mut conn_followups: Vec<(u64, usize, ConnUse)> = vec![];
        for (i, atom) in case.atoms.iter().enumerate() {
            if let Some(d) = atom.drop_at {
                drops.push((atom.start + d, i));
            }
            let let_go = Arc::new(tokio::sync::Notify::new());
            tasks.push(Some(Scn { task: tokio::spawn(scenario(ctx.clone(), i, atom.clone(), let_go.clone())), let_go, exit: atom.exit }));
        }
        let last_start = case.atoms.iter().map(|a| a.start).max().unwrap_or(0);
        let active_until = last_start + 45_000;
        let mut samples = vec![];
        let mut t = 0;
        let mut conn_started: Vec<usize> = vec![];
        while t <= active_until {
            clock.until(t).await;
            settle().await;
            // connection scenarios are driven from here (they need the dialer / the factory's peer ends)
            for (i, atom) in case.atoms.iter().enumerate() {
                if let Kind::Conn { inbound, fam, usage } = atom.kind {
                    if atom.start <= t && !conn_started.contains(&i) {
                        conn_started.push(i);
                        // both ends as the stream reports them (ezk's end: what a listener bound to the wildcard address sees)
                        let (ezk_ip, peer_ip) = match fam {
                            Fam::V4 => ("10.0.0.1".to_string(), format!("192.0.2.{}", 20 + i)),
                            Fam::V6 => ("[fd00::1]".to_string(), format!("[2001:db8::{:x}]", 20 + i)),
                            Fam::V4Mapped => ("[::ffff:10.0.0.1]".to_string(), format!("[::ffff:192.0.2.{}]", 20 + i)),
                        };
                        if inbound {
                            let mut c = dialer.dial_on(&format!("{ezk_ip}:5060"), &format!("{peer_ip}:4{i:04}"));
                            settle().await;
                            if matches!(usage, ConnUse::Requests | ConnUse::PeerCloses) {
                                let opt = request_text("OPTIONS", "sip:ezk@10.0.0.1", &[format!("SIP/2.0/TCP 192.0.2.9:5060;branch=z9hG4bKconn{i}")], "<sip:p@192.0.2.9>;tag=c", "<sip:ezk@10.0.0.1>", &format!("conn-{i}"), 1, "OPTIONS", &[], b"");
                                c.write(&opt).await;
                                // ... and an INVITE nobody wants (481 over the reliable connection) that is never ACKed
                                let inv = request_text("INVITE", "sip:ezk@10.0.0.1", &[format!("SIP/2.0/TCP 192.0.2.9:5060;branch=z9hG4bKconninv{i}")], "<sip:p@192.0.2.9>;tag=c", "<sip:ezk@10.0.0.1>", &format!("conninv-{i}"), 1, "INVITE", &["Contact: <sip:p@192.0.2.9>".into()], b"");
                                c.write(&inv).await;
                            }
                            peer_conns.insert(i, c);
                        } else {
                            let uri: SipUri = format!("sip:x@{peer_ip}:5060;transport=tcp").parse().unwrap();
                            if let Ok((h, _)) = endpoint.select_transport(&uri).await {
                                if usage != ConnUse::Idle {
                                    conn_handles.insert(i, h);
                                }
                            }
                            // the peer's end of the connection the factory made for this scenario (the address is the scenario's own)
                            let want: std::net::IpAddr = peer_ip.trim_matches(|c| c == '[' || c == ']').parse().unwrap();
                            let mut made = probe.conns.lock();
                            if let Some(pos) = made.iter().position(|c| c.peer_addr.ip() == want) {
                                peer_conns.insert(i, made.remove(pos));
                            }
                        }
                        if matches!(usage, ConnUse::PeerCloses | ConnUse::Garbage) {
                            conn_followups.push((t + 1000, i, usage));
                        }
                        settle().await;
                    }
                }
            }
            for (due, i, usage) in &conn_followups {
                if *due == t {
                    if let Some(c) = peer_conns.get_mut(i) {
                        match usage {
                            ConnUse::Garbage => {
                                c.write(b"\x16\x03\x01\x00\x05hello this is not SIP\r\n\r\n").await;
                            }
                            _ => c.close().await,
                        }
                    }
                    settle().await;
                }
            }
            for (dt, i) in &drops {
                if *dt <= t {
                    if let Some(scn) = tasks[*i].take() {
                        scn.let_go();
                    }
                    let_go_handle(conn_handles.remove(i), case.atoms[*i].exit);
                }
            }
            settle().await;
            samples.push((t, counts(&endpoint, dl, il)));
            t += 500;
        }
        // activity stops: the application lets go of everything it still holds
        for scn in tasks.iter_mut() {
            if let Some(scn) = scn.take() {
                scn.let_go();
            }
        }
        let mut left: Vec<(usize, TpHandle)> = conn_handles.drain().collect();
        left.sort_by_key(|(i, _)| *i);
        for (i, h) in left {
            let_go_handle(Some(h), case.atoms[i].exit);
        }
        // (objects the accepting layer made for a scenario that was gone before it could pick them up)
        let unclaimed: Vec<Acceptor> = calls.lock().drain().map(|(_, a)| a).collect();
        drop(unclaimed);
        let unclaimed: Vec<Dialog> = app_dialogs.lock().drain().map(|(_, d)| d).collect();
        drop(unclaimed);
        settle().await;
        // (Dialogs the application kept beyond their scenario; the scenarios let go of just now have put theirs there by now)
        let kept_dialogs: Vec<Dialog> = kept.lock().drain(..).collect();
        drop(kept_dialogs);
        settle().await;
        // longest protocol timers: 64*T1 (+T2 slack), 32 s connection idle, T4, plus a margin
        clock.advance(TIMEOUT + 4000 + 32_000 + T4 + 60_000).await;
        settle().await;
        let end = counts(&endpoint, dl, il);
        let end_t = clock.now_ms();
        drop(peer_conns);
        let _ = probe.connects.lock().len();
        let flags = flags.lock().clone();
        Observed { samples, end, end_t, flags }
    })
}

/// the To-tags, as spelled, on the dialog-creating (101..299) responses of a UAC call
fn uac_tag_spellings(ring: bool, reply: Reply, tags: &PeerTags) -> BTreeSet<String> {
    let mut set = BTreeSet::new();
    if ring {
        set.insert(UAS_TAG.to_string());
    }
    for f in FORK_TAGS.iter().take(tags.forks as usize) {
        set.insert(f.to_string());
    }
    let answerer = match tags.answerer {
        Answerer::Ringing => UAS_TAG,
        Answerer::Fork if tags.forks > 0 => FORK_TAGS[0],
        Answerer::Fork => UAS_TAG,
        Answerer::Stranger => STRANGER_TAG,
    };
    if matches!(reply, Reply::Provisional | Reply::Ok) {
        set.insert(tags.reply_spelling.of(answerer));
    }
    if reply == Reply::Ok {
        set.insert(tags.retrans_spelling.of(answerer));
    }
    set
}

/// generous upper bound of every table at time t, from the live scenarios only
fn bound(case: &Case, t: u64) -> Counts {
    let mut b = Counts::default();
    for a in &case.atoms {
        if a.start > t {
            continue;
        }
        // a scenario keeps contributing until every timer it can have started has run out
        let retire = a.start + a.drop_at.unwrap_or(45_000).max(1) + TIMEOUT + 4000 + 32_000 + T4 + 2000;
        if t > retire + 45_000 {
            continue;
        }
        match a.kind {
            Kind::ClientNonInvite { .. } | Kind::ClientInvite { .. } => b.tsx += 1,
            Kind::ServerRequest { .. } => b.tsx += 1,
            Kind::ServerCall { .. } => {
                b.tsx += 4;
                b.dialogs += 1;
                b.usages += 1;
                b.cancellables += 1;
                b.backlog += 1;
            }
            Kind::UacCall { ring, reply, tags, .. } => {
                // one dialog per To-tag (as spelled) the peer put on a 101..299 response, at most one usage each
                // (at least the 2 of an ordinary peer: early dialog + session)
                let n = uac_tag_spellings(ring, reply, &tags).len().max(2);
                b.tsx += 2;
                b.dialogs += n;
                b.usages += n;
            }
            Kind::Flood { kind, n, .. } => {
                // only requests that get answered by a server transaction stay (64*T1) in the table; an abandoned INVITE
                // had a server transaction (generously: for 64*T1 as well) but the application holds nothing of it any more:
                // no dialog, usage or pending-cancel entry is accounted for, whatever lifetime the peer asked for
                match kind {
                    FloodKind::UnknownRequests | FloodKind::UnmatchedCancels | FloodKind::AbandonedInvites | FloodKind::HandlerPanics => {
                        if t <= a.start + TIMEOUT + 4000 + 1000 {
                            b.tsx += n as usize
                        }
                    }
                    FloodKind::Retransmissions => b.tsx += 1,
                    FloodKind::OrphanResponses | FloodKind::StrayAcks => {}
                }
            }
            Kind::Conn { .. } => {
                b.transports += 1;
                b.tsx += 2;
            }
            Kind::Stun { .. } => b.stun += 1,
            Kind::AppDialog { other, .. } => {
                // per dialog: the SUBSCRIBE, the answered INFO, up to two requests waiting in the backlog, the MESSAGE
                let n = if other.is_some() { 2 } else { 1 };
                b.dialogs += n;
                b.backlog += 2 * n;
                b.tsx += 5 * n;
                // usages are the application's objects alone, no protocol timer keeps one: none is left from the second sample
                // after the application let go of the scenario (even where it keeps a Dialog); until then n (+1: the other
                // thread may register one more)
                if a.drop_at.map_or(true, |d| t < a.start + d + 1000) {
                    b.usages += n + 1;
                }
            }
        }
    }
    b
}

pub fn check(case: &Case, out: &mut CaseOut) {
    // planned application panics (message PLANNED_PANIC) are part of the scenario; every other panic is reported the way the
    // engine does. The record is taken here so that the engine sees none of the planned ones.
    let ran = std::panic::catch_unwind(std::panic::AssertUnwindSafe(|| run(case)));
    let (planned, unplanned): (Vec<_>, Vec<_>) = crate::engine::panic_hook::take().into_iter().partition(|p| p.message == PLANNED_PANIC);
    let planned = planned.len();
    // (reported behind the oracle's own failures, where the engine puts the panics it records)
    let report_panics = |out: &mut CaseOut| {
        for p in &unplanned {
            out.fail(format!("panic/{}", p.location), format!("panic: {} at {}", p.message, p.location));
        }
    };
    let obs = match ran {
        Ok(obs) => obs,
        Err(_) => {
            report_panics(out);
            if unplanned.is_empty() {
                out.fail("panic/unknown", "panic without hook record");
            }
            return;
        }
    };
    if planned > 0 {
        out.class("planned-application-panic:fired");
    }
    for f in &obs.flags {
        out.class(f);
    }
    let has_flood = case.atoms.iter().any(|a| matches!(a.kind, Kind::Flood { .. }));
    let mut long_life_unanswered = false;
    let never = case.atoms.iter().any(|a| {
        matches!(
            a.kind,
            Kind::ClientNonInvite { reply: Reply::Never | Reply::Provisional, .. }
                | Kind::ClientInvite { reply: Reply::Never | Reply::Provisional, .. }
                | Kind::UacCall { reply: Reply::Never | Reply::Provisional, .. }
                | Kind::UacCall { contact: false, .. }
                | Kind::Stun { answered: false }
                | Kind::ServerCall { app: CallApp::Accept { ack: false } | CallApp::Hold, .. }
        )
    });
    let early_drop = case.atoms.iter().any(|a| a.drop_at.is_some());
    // the application lets go by panicking while it certainly still owns something of the scenario
    let mut panics_owning = false;
    let mut other_thread = false;
    let mut waits_in_backlog = false;
    // a UAC call whose peer forks / respells its tag / rewrites To; a UAS call whose peer respells the tags in ACK / BYE
    let mut uac_tags = false;
    let mut uas_tags = false;
    if has_flood {
        out.class("flood");
    }
    if never {
        out.class("peer-never-answers");
    }
    if early_drop {
        out.class("early-drop");
    }
    for a in &case.atoms {
        if a.exit == Exit::Panics {
            out.class("exit:panics");
            let owns = matches!(
                a.kind,
                Kind::ClientNonInvite { reply: Reply::Never | Reply::Provisional, .. }
                    | Kind::ClientInvite { reply: Reply::Never | Reply::Provisional, .. }
                    | Kind::UacCall { .. }
                    | Kind::ServerCall { app: CallApp::Accept { .. } | CallApp::Hold, .. }
                    | Kind::Stun { answered: false }
                    | Kind::AppDialog { .. }
                    | Kind::Conn { inbound: false, usage: ConnUse::Requests | ConnUse::PeerCloses | ConnUse::Garbage, .. }
            );
            if owns && planned > 0 {
                out.class("exit:panics-owning-objects");
                panics_owning = true;
            }
        }
        // shapes of the peer-chosen-lifetime and connection dimensions
        match a.kind {
            Kind::UacCall { ring, reply, contact, tags } => {
                if tags.any() {
                    out.class("uac-call:peer-tags-varied");
                }
                if tags.forks > 0 {
                    out.class("uac-call:forked/several-early-dialogs");
                }
                if tags.to_rewritten && reply != Reply::Never {
                    out.class("uac-call:to-header-rewritten");
                }
                // the UAS that answers has an early dialog (its 180 was seen)
                let has_early = match tags.answerer {
                    Answerer::Ringing => ring,
                    Answerer::Fork => tags.forks > 0 || ring,
                    Answerer::Stranger => false,
                };
                if reply != Reply::Never && !has_early && (ring || tags.forks > 0) {
                    out.class("uac-call:answer-from-uas-without-early-dialog");
                }
                if has_early && reply != Reply::Never && tags.reply_spelling != Spelling::Same {
                    out.class(match reply {
                        Reply::Ok => "uac-call:early-dialog/2xx-tag-respelled",
                        Reply::Provisional => "uac-call:early-dialog/18x-tag-respelled",
                        _ => "uac-call:early-dialog/failure-tag-respelled",
                    });
                    if contact {
                        uac_tags = true;
                    }
                }
                if reply == Reply::Ok && tags.retrans_spelling != tags.reply_spelling {
                    out.class("uac-call:2xx-retransmission-tag-respelled");
                    if contact {
                        uac_tags = true;
                    }
                }
                if contact && (tags.forks > 0 || (tags.to_rewritten && reply != Reply::Never)) {
                    uac_tags = true;
                }
            }
            Kind::ServerCall { life, app, tags, .. } => {
                if tags != InDialogTags::default() && matches!(app, CallApp::Accept { .. }) {
                    out.class("uas-call:peer-respells-tags-in-dialog");
                    uas_tags = true;
                }
                if life.any() {
                    out.class("uas-call:peer-lifetime-headers");
                }
                // the peer's lifetime is still running when the tables are looked at for the last time
                let long = [life.expires, life.session_expires, life.min_se].iter().flatten().any(|n| *n >= 400);
                if long && matches!(app, CallApp::DropAcceptor | CallApp::Hold) {
                    out.class("uas-call:unanswered+long-peer-lifetime");
                    long_life_unanswered = true;
                }
            }
            Kind::ServerRequest { life, .. } if life.any() => out.class("server-request:peer-lifetime-headers"),
            Kind::Flood { kind, life, .. } => {
                out.class(match kind {
                    FloodKind::OrphanResponses => "flood:orphan-responses",
                    FloodKind::StrayAcks => "flood:stray-acks",
                    FloodKind::UnmatchedCancels => "flood:unmatched-cancels",
                    FloodKind::UnknownRequests => "flood:unknown-requests",
                    FloodKind::Retransmissions => "flood:retransmissions",
                    FloodKind::AbandonedInvites => "flood:abandoned-invites",
                    FloodKind::HandlerPanics => "flood:handler-panics",
                });
                if life.any() && !matches!(kind, FloodKind::OrphanResponses | FloodKind::StrayAcks) {
                    out.class("flood:peer-lifetime-headers");
                    if kind == FloodKind::AbandonedInvites && [life.expires, life.session_expires, life.min_se].iter().flatten().any(|n| *n >= 400) {
                        long_life_unanswered = true;
                    }
                }
            }
            Kind::AppDialog { backlog, usage_bug, order, other } => {
                if backlog {
                    out.class("app-dialog:request-waits-in-backlog");
                    waits_in_backlog = true;
                }
                if usage_bug {
                    out.class("app-dialog:usage-panics-with-released-backlog");
                    waits_in_backlog = true;
                }
                if let Some(o) = other {
                    other_thread = true;
                    out.class(match o {
                        OtherThread::Dialog => "app-dialog:other-thread/dialog",
                        OtherThread::Guard => "app-dialog:other-thread/guard",
                        OtherThread::DialogThenGuard => "app-dialog:other-thread/dialog+guard",
                        OtherThread::GuardThenDialog => "app-dialog:other-thread/guard+dialog",
                        OtherThread::RegisterUsage => "app-dialog:other-thread/register-usage",
                    });
                    out.class(match order {
                        Order::DialogFirst => "app-dialog:other-thread-while-entry-is-removed",
                        Order::GuardFirst => "app-dialog:other-thread-while-usage-is-removed",
                    });
                }
            }
            Kind::Conn { inbound, fam, usage } => {
                out.class(match (inbound, fam) {
                    (true, Fam::V4) => "conn:in/v4",
                    (true, Fam::V6) => "conn:in/v6",
                    (true, Fam::V4Mapped) => "conn:in/v4-mapped",
                    (false, Fam::V4) => "conn:out/v4",
                    (false, Fam::V6) => "conn:out/v6",
                    (false, Fam::V4Mapped) => "conn:out/v4-mapped",
                });
                out.class(match usage {
                    ConnUse::Requests => "conn:requests-or-held",
                    ConnUse::Idle => "conn:idle",
                    ConnUse::PeerCloses => "conn:peer-closes",
                    ConnUse::Garbage => "conn:garbage",
                });
            }
            _ => {}
        }
        out.class(match a.kind {
            Kind::ClientNonInvite { .. } => "client-non-invite",
            Kind::ClientInvite { .. } => "client-invite",
            Kind::ServerRequest { .. } => "server-request",
            Kind::ServerCall { .. } => "uas-call",
            Kind::UacCall { .. } => "uac-call",
            Kind::Flood { .. } => "flood-scenario",
            Kind::Conn { .. } => "connection",
            Kind::Stun { .. } => "stun",
            Kind::AppDialog { .. } => "app-dialog",
        });
    }
    // a connection entry the stack has to get rid of on its own account: never used, closed / broken by the peer, or keyed by
    // addresses that have more than one spelling
    let conn_cleanup = case.atoms.iter().any(|a| matches!(a.kind, Kind::Conn { fam, usage, .. } if usage != ConnUse::Requests || fam != Fam::V4));
    let handler_panics = case.atoms.iter().any(|a| matches!(a.kind, Kind::Flood { kind: FloodKind::HandlerPanics, .. })) && planned > 0;
    let app_dialog = (other_thread || waits_in_backlog) && obs.flags.contains("app-dialog:established");
    if (early_drop && (has_flood || never)) || (has_flood && case.atoms.len() >= 2) || long_life_unanswered || conn_cleanup || panics_owning || handler_panics || app_dialog || uac_tags || uas_tags {
        out.nontrivial(case);
    }
    let peak = obs.samples.iter().fold(Counts::default(), |mut p, (_, c)| {
        p.tsx = p.tsx.max(c.tsx);
        p.transports = p.transports.max(c.transports);
        p.stun = p.stun.max(c.stun);
        p.dialogs = p.dialogs.max(c.dialogs);
        p.backlog = p.backlog.max(c.backlog);
        p.usages = p.usages.max(c.usages);
        p.cancellables = p.cancellables.max(c.cancellables);
        p
    });
    out.note = Some(format!("peak={peak:?} end={:?} at {} ms; planned application panics: {planned}; reached: {:?}", obs.end, obs.end_t, obs.flags));

    // (quiescence) nothing is left once activity has stopped and the longest timers have run out
    if !obs.end.is_zero() {
        let mut what = vec![];
        if obs.end.tsx > 0 {
            what.push("transactions");
        }
        if obs.end.transports > 0 {
            what.push("transports");
        }
        if obs.end.stun > 0 {
            what.push("stun");
        }
        if obs.end.dialogs > 0 || obs.end.usages > 0 || obs.end.backlog > 0 {
            what.push("dialogs");
        }
        if obs.end.cancellables > 0 {
            what.push("cancellables");
        }
        out.fail(format!("c16.quiescence/left-behind:{}", what.join("+")), format!("tables after activity stopped: {:?}", obs.end));
    }
    // (bound) tables never exceed what the live scenarios can account for
    for (t, c) in &obs.samples {
        let b = bound(case, *t);
        let mut over = vec![];
        if c.tsx > b.tsx {
            over.push(format!("transactions {} > {}", c.tsx, b.tsx));
        }
        if c.transports > b.transports {
            over.push(format!("transports {} > {}", c.transports, b.transports));
        }
        if c.stun > b.stun {
            over.push(format!("stun {} > {}", c.stun, b.stun));
        }
        if c.dialogs > b.dialogs {
            over.push(format!("dialogs {} > {}", c.dialogs, b.dialogs));
        }
        if c.usages > b.usages {
            over.push(format!("usages {} > {}", c.usages, b.usages));
        }
        if c.cancellables > b.cancellables {
            over.push(format!("cancellables {} > {}", c.cancellables, b.cancellables));
        }
        if c.backlog > b.backlog {
            over.push(format!("backlog {} > {}", c.backlog, b.backlog));
        }
        if !over.is_empty() {
            let table = over[0].split(' ').next().unwrap_or("").to_string();
            out.fail(format!("c16.bound/{table}-exceed-live-objects"), format!("at {t} ms: {}", over.join(", ")));
            break;
        }
    }
    if obs.flags.contains("other-thread-panicked") {
        out.fail("panic/other-thread", "the thread that let go of the second dialog's objects panicked");
    }
    report_panics(out);
}

pub fn property() -> Property {
    Property {
        fuzz: vec![],
        id: "C16",
        rule: "a case = workload of 3..12 overlapping scenarios on ONE endpoint (DialogLayer + InviteLayer + accepting application, datagram transport, connection factory and listener): client non-INVITE / INVITE transactions (peer never answers / provisional only / 200 / 486, after 1 ms .. 33 s), server requests with retransmissions, UAS calls (accept with/without ACK, reject, acceptor dropped, acceptor held; peer CANCEL / BYE), UAC calls through Initiator (ringing, 200 with retransmission, 486, silence; 3 in 5 with varied To-tags: 0..2 further UAS of a forked INVITE send a 180 with their own tag = more early dialogs, the 183 / 200 / 486 comes from the UAS that rang / the first fork / a UAS that sent no 18x, and carries that UAS's tag spelled as before / in upper case / in alternating case, the retransmitted 200 has a spelling of its own, 1 in 4 the To header of that response comes back with a display name and a URI parameter added), UAS calls whose peer (1 in 4) writes ezk's tag and / or its own tag in another case in its ACK and BYE, floods of 100..2000 orphan responses / stray ACKs / unmatched CANCELs / unknown requests / retransmissions / INVITEs the application takes and abandons unanswered at once, inbound and outbound connections (both ends IPv4, IPv6 or IPv4-mapped IPv6 as a dual-stack socket reports them; used for requests / handle held, never used, closed by the peer, fed bytes that are not SIP), STUN binding requests (answered or not), dialogs the application runs itself (SUBSCRIBE -> Dialog::new_server + 200 + an application Usage; the peer sends an in-order INFO and optionally one with a CSeq gap that waits in the dialog's backlog, optionally a further waiting one and then the missing MESSAGE whose handling makes the application's usage panic while the released requests are in the dialog layer's hands; optionally a second such dialog whose Dialog / usage guard / both are let go of - or which gets one more usage registered first - by ANOTHER OS THREAD that is started from the Drop of the first dialog's usage, i.e. - when the application drops the Dialog before the usage guard - while the first thread is inside the dialog layer removing the entry), floods of requests whose handling in the application's layer panics (6 stages: request not yet taken, taken, + server transaction, + dialog, + acceptor, + 180 sent). Every request the peer originates (call INVITE, MESSAGE, request floods) carries, 6 times out of 10, lifetime headers of the peer's choosing: Expires and/or Session-Expires and/or Min-SE, 0 s .. 2^32-1 s. Every scenario's application objects are optionally let go of 0 ms .. 40 s after its start, else when activity stops; HOW is generated per scenario: the owning task is cancelled (3 in 4) or it panics where it stands (1 in 4: the objects are dropped while the thread unwinds, tokio confines the panic to the task; for a connection handle: a task that owns it panics). Tables sampled every 500 ms of virtual time and once after everything is dropped and 64*T1 + 32 s + T4 + 64 s have passed. floods sub-check enumerates flood kind x size x companion scenario (+ request floods x lifetime headers); calls enumerates application behaviour x lifetime headers x drop time x CANCEL (+ MESSAGE x lifetime headers); conns enumerates direction x address family x use x drop time x start; exits enumerates 28 scenarios of every kind x drop time x alone / next to a held call, all let go of by a panicking task; appdialogs enumerates backlog x bug in the usage x drop order x what the other thread lets go of x drop time x cancelled / panicking; uaccalls enumerates UAC calls: 200 / 183 / 486 x ringing x forks {0,2} x who answers x spelling of its tag x spelling on the retransmitted 200 x rewritten To x let go (never / never, by a panic / 30 ms: between 180 and answer / 4 s), plus accepted UAS calls x spelling of either tag in ACK and BYE x ACK x BYE x drop time. Non-trivial = a UAC call (peer sends Contact) with forks, or whose answering UAS has an early dialog and respells its tag, or whose retransmitted 200 is spelled differently from the first, or with a rewritten To, or an accepted UAS call whose peer respells a tag in ACK / BYE, or a scenario let go of by a panic that really happened while it owned objects, or a handler-panic flood, or an application dialog with a request in its backlog or with a second thread, or an early drop together with a flood or a never-answering peer, or a flood next to another live scenario, or an unanswered call / abandoned-INVITE flood whose peer-chosen lifetime outlasts the observation, or a connection the stack must clean up by itself (unused, peer-closed, garbage, non-IPv4 spelling); distinct by workload.",
        assumptions: vec![
            "table sizes through the read-only hooks H3 (transactions, managed transports, pending STUN, dialogs, backlog, usages, pending-cancel entries)",
            "the bound is a generous per-scenario cap (e.g. 4 transactions per call) plus, for floods of requests the stack answers itself or the application abandons, one transaction per request for 64*T1 (no dialog / usage / pending-cancel entries: the application holds nothing of an abandoned INVITE); it detects growth with the number of unmatched messages, not off-by-one accounting",
            "lifetimes the peer states in Expires / Session-Expires / Min-SE are not among 'the longest protocol timer' the statement waits for (they are unbounded peer input); what the stack does with them (ignore, reject on expiry, ...) is not asserted, only that no table entry outlives the application objects + RFC transaction timers because of them",
            "connection addresses are whatever StreamingTransport::local_addr / peer_addr report; no assertion on which spelling ezk uses on the wire, only that the entry goes away (32 s idle timer, EOF, decode error)",
            "a To-tag that comes back in another case is peer input like any other: RFC 3261 compares tags byte-wise (then the response belongs to another UAS / the ACK or BYE to no dialog), a lenient stack may take it for the same dialog; neither reading is asserted, the bound allows one dialog + one usage per spelling seen on a 101..299 response (at least 2), and quiescence must hold under both",
            "single-threaded cooperative schedule, with ONE exception: the AppDialog scenario's second OS thread. It is started and joined inside the Drop of the scenario's objects and synchronised by a rendezvous (the first thread signals from inside the application usage's Drop, the second answers 'about to let go', lets go, answers 'done'; the first thread waits for 'done' at most 25 ms of REAL time). On a stack that serialises the two threads by its lock the outcome does not depend on that wait (the second thread finishes after the first left the dialog layer; the wait just runs out), so the verdict on a correct stack is timing-independent; the wait only has to outlast the few instructions between 'about to let go' and the second thread's attempt for a stack that does not wait for the lock to be observed",
            "planned application panics carry the message PLANNED_PANIC and are removed from the panic record by the check itself; every other panic (on the case's thread, or in the second thread: panic/other-thread) is a failure as usual. Whether the request whose handler panicked gets an answer is not asserted",
        ],
        explanation: "floods, calls, conns, exits, appdialogs and uaccalls sub-checks exhaustive over their products; workloads sampled",
        subs: vec![
            enum_sub("floods", flood_cases, check),
            enum_sub("calls", call_cases, check),
            enum_sub("conns", conn_cases, check),
            enum_sub("exits", exit_cases, check),
            enum_sub("appdialogs", appdialog_cases, check),
            enum_sub("uaccalls", uaccall_cases, check),
            prop_sub("workload", strategy, 600, 20000, check),
        ],
    }
}
