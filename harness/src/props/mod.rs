use crate::engine::Property;

pub mod c01;
pub mod c02;
pub mod c03;
pub mod c04;
pub mod c05;
pub mod c06;
pub mod c07;
pub mod c08;
pub mod c09;
pub mod c10;
pub mod c11;
pub mod c12;
pub mod c13;
pub mod c14;
pub mod c15;
pub mod c16;
pub mod c17;
pub mod c18;
pub mod c19;
pub mod c20;

pub fn lookup(id: &str) -> Option<Property> {
    Some(match id {
        "C01" => c01::property(),
        "C02" => c02::property(),
        "C03" => c03::property(),
        "C04" => c04::property(),
        "C05" => c05::property(),
        "C06" => c06::property(),
        "C07" => c07::property(),
        "C08" => c08::property(),
        "C09" => c09::property(),
        "C10" => c10::property(),
        "C11" => c11::property(),
        "C12" => c12::property(),
        "C13" => c13::property(),
        "C14" => c14::property(),
        "C15" => c15::property(),
        "C16" => c16::property(),
        "C17" => c17::property(),
        "C18" => c18::property(),
        "C19" => c19::property(),
        "C20" => c20::property(),
        _ => return None,
    })
}
