use crate::engine::Property;

pub mod c03;
pub mod c05;
pub mod c06;
pub mod c07;
pub mod c19;

pub fn lookup(id: &str) -> Option<Property> {
    Some(match id {
        "C03" => c03::property(),
        "C05" => c05::property(),
        "C06" => c06::property(),
        "C07" => c07::property(),
        "C19" => c19::property(),
        _ => return None,
    })
}
