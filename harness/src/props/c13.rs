//! C13 — UAC INVITE: responses map deterministically to early dialogs, sessions, failure
//!
//! **Generated.** One INVITE is sent through `Initiator` over a mock transport under the paused clock; a case is
//! * a history of 1..10 responses (status from {100,180,183,199,200,202,300,404,486,603}; To-tag none / one of 3
//!   forks; Contact present 93 %; 0..3 Record-Route; Supported timer/100rel; Require+RSeq; Session-Expires) at gaps
//!   1..31000 ms, each carrying a unique `X-Seq` marker; a quarter of the random cases are "chatty": 6..14 responses,
//!   mostly 101-199 of fork 0 at gaps 1..450 ms,
//! * the SPELLING of the forks' To-tags (`tags`, see `TAG_FAMILIES`): plain `t0 t1 t2`, tags that differ only in
//!   letter case, tags that are prefixes of each other, tags differing in one punctuation character of the token
//!   alphabet, long tags differing in the last character only, numeric look-alikes (`1`, `01`, `1.0`). To-tags are
//!   opaque tokens compared byte-wise (RFC 3261 19.3), so every pair of different strings is a pair of different forks,
//! * the TRANSPORT the INVITE goes out on (`reliable`): unreliable (UDP) or one that reports itself reliable (TCP).
//!   Nothing in the statement depends on it (the Accepted state lasts 64*T1 on every transport: it collects the 2xx
//!   of the other forks), so the oracle is the same for both,
//! * the APPLICATION's polling schedule of the initiator (`busy`): `busy[i]` ms pass between `Initiator::receive`
//!   handing response i to the application and the application's next call of `receive` (0 = it polls again at once;
//!   values 3 ms .. 40 s, i.e. also longer than 64*T1). While the application is busy responses queue up in the
//!   transaction; they are classified when it polls again,
//! * the APPLICATION's polling schedule of the early dialogs (`early_lag`): `early_lag[j]` ms pass between the
//!   application being handed the `Early` of fork j and its first `Early::receive` on it (0, 7 ms .. 70 s); from then
//!   on it polls that `Early` continuously and lets go of it when it yields a session or `Terminated`. Until then
//!   everything the initiator forwards to that early dialog piles up (1, 2, ... 10+ events, i.e. past any queue size).
//! Sub-checks: `exhaustive` = every history of length <= 4 (thorough 5) over {100,180,200,486} x {no tag,t0,t1},
//! UDP, continuous polling; `exhaustive-variants` = every history of length <= 3 (thorough 4) over the same alphabet
//! under each of: case-variant tags, prefix tags, 33 s busy after every / only the first / only the second response,
//! 600 ms busy after every response, reliable transport, every Early polled 33 s late, reliable + 600 ms busy + every
//! Early 613 ms late; `lazy-early` = 180 of fork 0, k = 0..8 (thorough 12) further 101-199 of fork 0, one of 7 endings
//! (nothing / 200 of the fork / 200 of another fork / 486 / 18x+2xx of another fork then the fork's 2xx / 2xx twice /
//! another fork's 18x,18x,603) x 5 lag vectors x gaps 1 / 450 ms x both transports; `random` = sampled histories with
//! all dimensions.
//!
//! **Oracle.** A reference classifier replays the history in arrival order (the transaction's queue is FIFO) with
//! the set of tags seen so far and the application's ready time R: response i is classified at d_i = max(arrival_i, R)
//! as 100 -> Provisional; 101-199 new tag -> new early dialog, known tag -> forwarded to exactly that early dialog;
//! 2xx -> session (through the early dialog of its tag if there is one) whose Call-ID / local tag come from the INVITE
//! and whose remote tag (byte-exact), remote target and route set come from THAT response; first 3xx-6xx -> Failure,
//! `Terminated` on every live early dialog, nothing delivered afterwards. Every response has exactly one recipient,
//! exactly once. What was forwarded to an early dialog comes out of its `Early` at max(d_i, the application's first
//! poll of that `Early`), however many events piled up before. While an `Early` is not polled yet the initiator may
//! or may not have to wait for room in that early dialog's queue when it forwards to it (the statement does not say
//! how many events the queue holds): R and every later moment become intervals [no wait, wait until that `Early` is
//! polled] and a delivery anywhere inside is accepted; without late `Early` objects the intervals are points. A
//! response that ARRIVED inside the Accepted window (earlier than 64*T1 - 3 ms after the arrival of the first 2xx)
//! must be delivered however late the application polls. `Finished` is reported once, at max(R_final, D) with
//! D = 64*T1 after the first 2xx, where "after the first 2xx" is accepted in both readings (its arrival, or the
//! moment the polling application made the transaction see it).
//!
//! **Not asserted.** What the application sees for a response whose tag already has its session (only: no second
//! dialog, at most one delivery), and everything after it if the application is busy after that response (R is then
//! unknown); anything from a dialog-creating response without Contact on; a non-2xx after a 2xx; responses arriving
//! between 64*T1 - 3 ms after the first 2xx's arrival and the moment `Finished` is certainly reported (incl. those
//! that arrive after the deadline while the application has not polled yet); the order of the route set (C11);
//! whether / how long the initiator waits for a not yet polled early dialog (only: nothing is lost, and it goes on
//! when that `Early` is polled at the latest); an application that drops an `Early` before it yielded a session or
//! `Terminated`, or polls it with pauses between the events.
//!
//! **Found with the lazily polled histories and repaired** (known_findings.txt, fix d9580d2): behind a 3xx-6xx that
//! follows a 2xx the failure empties `early_list`, a further 18x of a tag that had an early dialog created a second
//! `Dialog` with the same key; handled in one burst (application was busy) the first `Early` was dropped AFTER the
//! second was registered and took the dialog-layer entry with it, and the 2xx confirming the second hit
//! `expect("called by the dialog")` in `Dialog::register_usage`. History: 200, 100 (busy), 180 tag a, 300, 180 tag a,
//! 200 tag a (regress/C13-fixed-panic-register-usage-after-failure-following-2xx.json). Such tails are generated.

use crate::engine::*;
use crate::refmodel::ref_tsx::TIMEOUT;
use crate::world::*;
use parking_lot::Mutex;
use proptest::prelude::*;
use serde::{Deserialize, Serialize};
use sip_types::header::typed::Contact;
use sip_types::print::AppendCtx;
use sip_types::uri::sip::SipUri;
use sip_types::uri::NameAddr;
use sip_ua::dialog::{Dialog, DialogLayer};
use sip_ua::invite::initiator::{Early, EarlyResponse, Initiator, Response};
use sip_ua::invite::session::Session;
use sip_ua::invite::InviteLayer;
use std::collections::BTreeSet;
use std::net::SocketAddr;
use std::sync::Arc;

#[derive(Serialize, Deserialize, Clone, Debug, Hash)]
pub struct RespEv {
    pub gap: u64,
    pub code: u16,
    /// None = no To-tag, Some(i) = tag "t<i>"
    pub tag: Option<u8>,
    pub contact: bool,
    pub record_routes: u8,
    pub supported_timer: bool,
    pub supported_100rel: bool,
    pub rseq: bool,
    pub session_expires: Option<u32>,
    /// further raw header lines (used by C02 to put hostile values into the responses)
    #[serde(default)]
    pub extra: Vec<String>,
}

#[derive(Serialize, Deserialize, Clone, Debug, Hash)]
pub struct Case {
    pub responses: Vec<RespEv>,
    pub rng: u8,
}

/// A C13 case: the response history plus the spelling of the forks' To-tags and the application's polling schedule.
/// (`Case` above is the bare history; C02 drives `run` with it.)
#[derive(Serialize, Deserialize, Clone, Debug, Hash)]
pub struct AppCase {
    pub responses: Vec<RespEv>,
    pub rng: u8,
    /// index into `TAG_FAMILIES`: how the To-tags of the forks are spelled (0 = t0, t1, t2)
    #[serde(default)]
    pub tags: u8,
    /// `busy[i]` = ms between `Initiator::receive` handing response i to the application and the application's next
    /// call of `receive` (missing / 0 = at once). Irrelevant for responses that are forwarded to an early dialog or
    /// ignored inside `receive`.
    #[serde(default)]
    pub busy: Vec<u64>,
    /// the INVITE goes out over a transport that reports itself reliable (named TCP) instead of UDP
    #[serde(default)]
    pub reliable: bool,
    /// `early_lag[j]` = ms between the application being handed the `Early` of fork j (index into the tag family) and
    /// its first call of `Early::receive` on it; from then on it polls that `Early` continuously (missing / 0 = from
    /// the start)
    #[serde(default)]
    pub early_lag: Vec<u64>,
}

impl AppCase {
    fn lag_of(&self, fork: u8) -> u64 {
        self.early_lag.get(fork as usize).copied().unwrap_or(0)
    }
}

/// Spellings of the (up to 3) fork To-tags. Every family consists of three DIFFERENT tokens: To-tags are opaque and
/// compared byte-wise, so each is its own fork. `%` is left out (percent-decoding of header parameters is the open
/// finding of C09/C11).
pub const TAG_FAMILIES: &[(&str, [&str; 3])] = &[
    ("plain", ["t0", "t1", "t2"]),
    ("case-variants", ["7aF3", "7AF3", "7af3"]),
    ("prefix-of-each-other", ["ab", "abc", "a"]),
    ("one-punctuation-char", ["x.1-a_b", "x.1-a!b", "x.1-a~b"]),
    ("long-last-char-differs", ["0123456789abcdef0123456789abcdef0123456a", "0123456789abcdef0123456789abcdef0123456b", "0123456789abcdef0123456789abcdef0123456c"]),
    ("numeric-lookalike", ["1", "01", "1.0"]),
];

pub fn tag_text(family: u8, idx: u8) -> String {
    let f = &TAG_FAMILIES[(family as usize).min(TAG_FAMILIES.len() - 1)].1;
    f[(idx as usize).min(2)].to_string()
}

const CODES: &[u16] = &[100, 180, 183, 199, 200, 202, 300, 404, 486, 603];

/// `chatty` = the responses of a fork that keeps talking: mostly fork 0, mostly 101-199, short gaps
fn resp_strategy(chatty: bool) -> BoxedStrategy<RespEv> {
    let gap = if chatty {
        prop_oneof![Just(1u64), Just(1u64), Just(1u64), Just(20u64), Just(450u64)].boxed()
    } else {
        prop_oneof![Just(1u64), Just(1u64), Just(20u64), Just(450u64), Just(700u64), Just(31_000u64)].boxed()
    };
    // selector into CODES: uniform, or weighted towards the provisional ones
    let csel = if chatty {
        prop_oneof![
            1 => Just(0u16),                                       // 100
            9 => prop_oneof![Just(1u16), Just(2u16), Just(3u16)], // 180 183 199
            2 => prop_oneof![Just(4u16), Just(5u16)],             // 200 202
            1 => prop_oneof![Just(6u16), Just(7u16), Just(8u16), Just(9u16)],
        ]
        .prop_map(|i| (i as u32 * 65536 / CODES.len() as u32 + 1) as u16)
        .boxed()
    } else {
        any::<u16>().boxed()
    };
    let tag = if chatty {
        prop_oneof![1 => Just(None), 8 => Just(Some(0u8)), 2 => Just(Some(1u8)), 1 => Just(Some(2u8))].boxed()
    } else {
        prop_oneof![1 => Just(None), 8 => (0u8..3).prop_map(Some)].boxed()
    };
    (
        gap,
        csel,
        tag,
        prop::bool::weighted(0.93),
        0u8..4,
        any::<bool>(),
        any::<bool>(),
        prop::bool::weighted(0.3),
        prop_oneof![3 => Just(None), 1 => Just(Some(1800u32)), 1 => Just(Some(90u32))],
    )
        .prop_map(|(gap, csel, tag, contact, record_routes, supported_timer, supported_100rel, rseq, session_expires)| RespEv {
            gap,
            code: CODES[pick_idx(csel, CODES.len())],
            tag,
            contact,
            record_routes,
            supported_timer,
            supported_100rel,
            rseq,
            session_expires,
            extra: vec![],
        })
        .boxed()
}

/// how long the application is busy after being handed a response: not at all, a few ms, around T1, seconds, just
/// below / above / well above 64*T1
fn busy_strategy() -> BoxedStrategy<u64> {
    prop_oneof![
        6 => Just(0u64),
        1 => Just(3u64),
        1 => Just(40u64),
        1 => Just(600u64),
        1 => Just(2_530u64),
        1 => Just(31_600u64),
        2 => Just(33_010u64),
        1 => Just(40_020u64),
    ]
    .boxed()
}

/// how long the application takes to get around to an `Early` it was handed: not at all, a few ms, around T1,
/// seconds, longer than 64*T1, longer than two of them (never on a timer instant of the transaction)
fn lag_strategy() -> BoxedStrategy<u64> {
    prop_oneof![
        3 => Just(0u64),
        1 => Just(7u64),
        1 => Just(613u64),
        1 => Just(2_537u64),
        2 => Just(33_017u64),
        1 => Just(70_003u64),
    ]
    .boxed()
}

pub fn strategy() -> BoxedStrategy<AppCase> {
    let general = (
        prop::collection::vec((resp_strategy(false), busy_strategy()), 1..11),
        any::<u8>(),
        // tag spelling: plain 4/9, every other family 1/9
        prop_oneof![4 => Just(0u8), 1 => Just(1u8), 1 => Just(2u8), 1 => Just(3u8), 1 => Just(4u8), 1 => Just(5u8)],
        // half of the cases: the application polls the initiator continuously
        any::<bool>(),
        // a third over a reliable transport
        prop::bool::weighted(0.33),
        // a third with Early objects the application gets around to late
        prop_oneof![2 => Just(vec![]), 1 => prop::collection::vec(lag_strategy(), 3)],
    )
        .prop_map(|(evs, rng, tags, lazy, reliable, early_lag)| {
            let (responses, mut busy): (Vec<RespEv>, Vec<u64>) = evs.into_iter().unzip();
            if !lazy {
                busy.clear();
            }
            AppCase { responses, rng, tags, busy, reliable, early_lag }
        });
    // a fork that keeps talking (6..14 responses, mostly 101-199 of fork 0 at short gaps) while the application has
    // not got around to its Early yet: many events pile up for one early dialog
    let chatty = (
        prop::collection::vec((resp_strategy(true), busy_strategy()), 6..15),
        any::<u8>(),
        prop_oneof![4 => Just(0u8), 1 => Just(1u8), 1 => Just(2u8), 1 => Just(3u8), 1 => Just(4u8), 1 => Just(5u8)],
        prop::bool::weighted(0.25),
        prop::bool::weighted(0.33),
        (prop_oneof![Just(613u64), Just(2_537u64), Just(33_017u64), Just(33_017u64), Just(70_003u64)], lag_strategy(), lag_strategy()),
    )
        .prop_map(|(evs, rng, tags, lazy, reliable, (l0, l1, l2))| {
            let (responses, mut busy): (Vec<RespEv>, Vec<u64>) = evs.into_iter().unzip();
            if !lazy {
                busy.clear();
            }
            AppCase { responses, rng, tags, busy, reliable, early_lag: vec![l0, l1, l2] }
        });
    prop_oneof![3 => general, 1 => chatty].boxed()
}

/// every history of length <= max_len over a reduced alphabet (codes 100,180,200,486; tags none,#0,#1)
fn histories(max_len: usize) -> Vec<Case> {
    let codes = [100u16, 180, 200, 486];
    let tags = [None, Some(0u8), Some(1u8)];
    let mut alphabet = vec![];
    for c in codes {
        for t in tags {
            if c == 100 && t.is_some() {
                continue;
            }
            alphabet.push((c, t));
        }
    }
    let mut out = vec![];
    let mut stack: Vec<Vec<usize>> = vec![vec![]];
    while let Some(cur) = stack.pop() {
        if !cur.is_empty() {
            out.push(Case {
                responses: cur
                    .iter()
                    .enumerate()
                    .map(|(i, a)| RespEv {
                        gap: if i % 2 == 0 { 1 } else { 20 },
                        code: alphabet[*a].0,
                        tag: alphabet[*a].1,
                        contact: true,
                        record_routes: (i % 3) as u8,
                        supported_timer: false,
                        supported_100rel: false,
                        rseq: false,
                        session_expires: None,
                        extra: vec![],
                    })
                    .collect(),
                rng: cur.len() as u8,
            });
        }
        if cur.len() < max_len {
            for a in 0..alphabet.len() {
                let mut n = cur.clone();
                n.push(a);
                stack.push(n);
            }
        }
    }
    out
}

/// plain tags, continuous polling
pub fn exhaustive_cases(tier: Tier) -> Vec<AppCase> {
    histories(tier.pick(4usize, 5usize))
        .into_iter()
        .map(|c| AppCase { responses: c.responses, rng: c.rng, tags: 0, busy: vec![], reliable: false, early_lag: vec![] })
        .collect()
}

/// the same alphabet one step shorter, under each tag-spelling / polling / transport variant
pub fn variant_cases(tier: Tier) -> Vec<AppCase> {
    let max_len = tier.pick(3usize, 4usize);
    let mut out = vec![];
    for c in histories(max_len) {
        let n = c.responses.len();
        let only = |k: usize, b: u64| (0..n).map(|i| if i == k { b } else { 0 }).collect::<Vec<u64>>();
        // (tag family, busy, reliable, early_lag)
        let variants: Vec<(u8, Vec<u64>, bool, Vec<u64>)> = vec![
            (1, vec![], false, vec![]),
            (2, vec![], false, vec![]),
            (0, vec![33_010; n], false, vec![]),
            (0, vec![600; n], false, vec![]),
            (0, only(0, 33_010), false, vec![]),
            (0, only(1, 33_010), false, vec![]),
            (0, vec![], true, vec![]),
            (0, vec![], false, vec![33_017; 3]),
            (0, vec![600; n], true, vec![613; 3]),
        ];
        for (tags, busy, reliable, early_lag) in variants {
            out.push(AppCase { responses: c.responses.clone(), rng: c.rng, tags, busy, reliable, early_lag });
        }
    }
    out
}

/// One fork (#0) keeps talking while the application has not got around to its `Early`: 180 of fork 0, then k further
/// 101-199 of fork 0, then one of several endings; x the lag until the `Early` objects are polled x the gaps x the
/// transport. k runs past every plausible size of the queue between initiator and early dialog.
pub fn lazy_early_cases(tier: Tier) -> Vec<AppCase> {
    let max_k = tier.pick(8usize, 12usize);
    let ev = |gap: u64, code: u16, tag: Option<u8>, i: usize| RespEv {
        gap,
        code,
        tag,
        contact: true,
        record_routes: (i % 3) as u8,
        supported_timer: false,
        supported_100rel: false,
        rseq: false,
        session_expires: None,
        extra: vec![],
    };
    let endings: Vec<Vec<(u16, Option<u8>)>> = vec![
        vec![],
        vec![(200, Some(0))],
        vec![(200, Some(1))],
        vec![(486, None)],
        vec![(180, Some(1)), (200, Some(1)), (200, Some(0))],
        vec![(200, Some(0)), (200, Some(0))],
        vec![(183, Some(1)), (180, Some(1)), (603, Some(1))],
    ];
    let lags: Vec<Vec<u64>> = vec![vec![613; 3], vec![33_017; 3], vec![70_003; 3], vec![33_017, 0, 0], vec![7, 2_537, 0]];
    let mut out = vec![];
    for k in 0..=max_k {
        for (ei, ending) in endings.iter().enumerate() {
            for (li, lag) in lags.iter().enumerate() {
                for gap in [1u64, 450] {
                    for reliable in [false, true] {
                        if tier == Tier::Quick && reliable && gap == 450 && li >= 3 {
                            continue;
                        }
                        let mut seq: Vec<(u16, Option<u8>)> = vec![(180, Some(0))];
                        for j in 0..k {
                            seq.push(([183u16, 180, 199][j % 3], Some(0)));
                        }
                        seq.extend(ending.iter().cloned());
                        let responses = seq.iter().enumerate().map(|(i, (c, t))| ev(gap, *c, *t, i)).collect();
                        out.push(AppCase { responses, rng: (k * 7 + ei * 3 + li) as u8, tags: 0, busy: vec![], reliable, early_lag: lag.clone() });
                    }
                }
            }
        }
    }
    out
}

#[derive(Clone, Debug, PartialEq)]
pub struct DialogSummary {
    pub call_id: String,
    pub local_tag: String,
    pub peer_tag: String,
    pub target: String,
    pub routes: Vec<String>,
}

fn summarize(d: &Dialog) -> DialogSummary {
    DialogSummary {
        call_id: d.call_id.0.to_string(),
        local_tag: d.local_fromto.tag.as_ref().map(|t| t.to_string()).unwrap_or_default(),
        peer_tag: d.peer_fromto.tag.as_ref().map(|t| t.to_string()).unwrap_or_default(),
        target: d.peer_contact.uri.uri.default_print_ctx().to_string(),
        routes: d.route_set.iter().map(|r| r.uri.uri.default_print_ctx().to_string()).collect(),
    }
}

#[derive(Clone, Debug, PartialEq)]
pub enum Kind {
    Provisional,
    EarlyCreated,
    Session,
    Failure,
    Terminated,
    Finished,
    Error(String),
}

#[derive(Clone, Debug)]
pub struct Event {
    pub t_ms: u64,
    /// None = the initiator, Some(tag) = the early dialog created for that tag
    pub recipient: Option<String>,
    pub kind: Kind,
    pub marker: Option<String>,
    pub dialog: Option<DialogSummary>,
}

fn marker_of(r: &sip_core::transaction::TsxResponse) -> Option<String> {
    r.headers
        .iter()
        .find(|(n, _)| n.as_print_str().eq_ignore_ascii_case("x-seq"))
        .map(|(_, v)| v.to_string())
}

type Log = Arc<Mutex<Vec<Event>>>;

async fn early_task(clock: Clock, tag: String, lag: u64, mut early: Early, log: Log, sessions: Arc<Mutex<Vec<Session>>>) {
    // the application gets around to this early dialog only after `lag` ms, from then on it polls it continuously
    if lag > 0 {
        clock.advance(lag).await;
    }
    loop {
        match early.receive().await {
            Ok(EarlyResponse::Provisional(r, _)) => log.lock().push(Event {
                t_ms: clock.now_ms(),
                recipient: Some(tag.clone()),
                kind: Kind::Provisional,
                marker: marker_of(&r),
                dialog: None,
            }),
            Ok(EarlyResponse::Success(session, r)) => {
                log.lock().push(Event {
                    t_ms: clock.now_ms(),
                    recipient: Some(tag.clone()),
                    kind: Kind::Session,
                    marker: marker_of(&r),
                    dialog: Some(summarize(&session.dialog)),
                });
                sessions.lock().push(session);
                // the early dialog has become a session: the application lets go of it
                return;
            }
            Ok(EarlyResponse::Terminated) => {
                log.lock().push(Event {
                    t_ms: clock.now_ms(),
                    recipient: Some(tag.clone()),
                    kind: Kind::Terminated,
                    marker: None,
                    dialog: None,
                });
                return;
            }
            Err(e) => {
                log.lock().push(Event {
                    t_ms: clock.now_ms(),
                    recipient: Some(tag.clone()),
                    kind: Kind::Error(e.to_string()),
                    marker: None,
                    dialog: None,
                });
                return;
            }
        }
    }
}

pub struct Observed {
    pub events: Vec<Event>,
    pub invite: Option<WireMsg>,
}

fn contact_of(i: usize) -> String {
    format!("sip:c{i}@192.0.2.1:5062")
}
fn routes_of(i: usize, n: u8) -> Vec<String> {
    (0..n).map(|k| format!("p{i}x{k}.example.com")).collect()
}

/// the bare history: plain tags, an application that polls continuously (C02 uses this)
pub fn run(case: &Case) -> Observed {
    run_app(&AppCase { responses: case.responses.clone(), rng: case.rng, tags: 0, busy: vec![], reliable: false, early_lag: vec![] })
}

pub fn run_app(case: &AppCase) -> Observed {
    let case = case.clone();
    run_world(case.rng as u64, |clock| async move {
        let log = WireLog::new(clock);
        let (tp, _) = if case.reliable {
            mock_datagram(&log, "TCP", false, true, "10.0.0.1:5060")
        } else {
            mock_datagram(&log, "UDP", false, false, "10.0.0.1:5060")
        };
        let mut b = offline_builder();
        b.add_unmanaged_transport(tp.clone());
        let dl = b.add_layer(DialogLayer::default());
        let il = b.add_layer(InviteLayer::default());
        let endpoint = b.build();
        let peer: SocketAddr = "192.0.2.1:5060".parse().unwrap();

        let local: SipUri = "sip:alice@example.org".parse().unwrap();
        let contact: SipUri = "sip:alice@10.0.0.1:5060".parse().unwrap();
        let target: SipUri = "sip:bob@192.0.2.1".parse().unwrap();
        let mut initiator = Initiator::new(
            endpoint.clone(),
            dl,
            il,
            NameAddr::uri(local),
            Contact::new(NameAddr::uri(contact)),
            Box::new(target),
        );
        let events: Log = Default::default();
        let sessions: Arc<Mutex<Vec<Session>>> = Default::default();
        let invite = initiator.create_invite();
        if let Err(e) = initiator.send_invite(invite).await {
            events.lock().push(Event { t_ms: 0, recipient: None, kind: Kind::Error(format!("send: {e}")), marker: None, dialog: None });
            return Observed { events: events.lock().clone(), invite: None };
        }
        settle().await;
        let invite_msg = log.snapshot().first().and_then(|s| WireMsg::parse(&s.bytes));

        {
            let events = events.clone();
            let sessions = sessions.clone();
            let busy = case.busy.clone();
            let lags: Vec<(String, u64)> = (0..3u8).map(|j| (tag_text(case.tags, j), case.lag_of(j))).collect();
            tokio::spawn(async move {
                loop {
                    let r = initiator.receive().await;
                    let t_ms = clock.now_ms();
                    let handed: Option<String>;
                    match r {
                        Ok(Response::Provisional(r)) => {
                            handed = marker_of(&r);
                            events.lock().push(Event { t_ms, recipient: None, kind: Kind::Provisional, marker: marker_of(&r), dialog: None })
                        }
                        Ok(Response::Failure(r)) => {
                            handed = marker_of(&r);
                            events.lock().push(Event { t_ms, recipient: None, kind: Kind::Failure, marker: marker_of(&r), dialog: None })
                        }
                        Ok(Response::Early(early, r, _)) => {
                            handed = marker_of(&r);
                            let tag = r.base_headers.to.tag.as_ref().map(|t| t.to_string()).unwrap_or_default();
                            events.lock().push(Event { t_ms, recipient: None, kind: Kind::EarlyCreated, marker: marker_of(&r), dialog: None });
                            let lag = lags.iter().find(|(t, _)| *t == tag).map_or(0, |(_, l)| *l);
                            tokio::spawn(early_task(clock, tag, lag, early, events.clone(), sessions.clone()));
                        }
                        Ok(Response::Session(session, r)) => {
                            handed = marker_of(&r);
                            events.lock().push(Event { t_ms, recipient: None, kind: Kind::Session, marker: marker_of(&r), dialog: Some(summarize(&session.dialog)) });
                            sessions.lock().push(session);
                        }
                        Ok(Response::Finished) => {
                            events.lock().push(Event { t_ms, recipient: None, kind: Kind::Finished, marker: None, dialog: None });
                            break;
                        }
                        Err(e) => {
                            events.lock().push(Event { t_ms, recipient: None, kind: Kind::Error(e.to_string()), marker: None, dialog: None });
                            break;
                        }
                    }
                    // the application is busy with what it was handed before it gets back to the initiator
                    let b = handed
                        .and_then(|m| m.get(1..).and_then(|n| n.parse::<usize>().ok()))
                        .and_then(|i| busy.get(i).copied())
                        .unwrap_or(0);
                    if b > 0 {
                        clock.advance(b).await;
                    }
                }
                // keep the initiator alive until the world ends (early dialogs reference its channels)
                std::future::pending::<()>().await;
                drop(initiator);
            });
        }

        let mut t = 0;
        if let Some(inv) = &invite_msg {
            for (i, r) in case.responses.iter().enumerate() {
                t += r.gap;
                clock.until(t).await;
                let mut extra = vec![format!("X-Seq: m{i}")];
                if r.contact {
                    extra.push(format!("Contact: <{}>", contact_of(i)));
                }
                for h in routes_of(i, r.record_routes) {
                    extra.push(format!("Record-Route: <sip:{h};lr>"));
                }
                let mut sup = vec![];
                if r.supported_timer {
                    sup.push("timer");
                }
                if r.supported_100rel {
                    sup.push("100rel");
                }
                if !sup.is_empty() {
                    extra.push(format!("Supported: {}", sup.join(", ")));
                }
                if r.rseq && (101..200).contains(&r.code) {
                    extra.push("Require: 100rel".into());
                    extra.push(format!("RSeq: {}", 100 + i));
                }
                if let Some(se) = r.session_expires {
                    if (200..300).contains(&r.code) {
                        extra.push("Require: timer".into());
                        extra.push(format!("Session-Expires: {se};refresher=uas"));
                    }
                }
                extra.extend(r.extra.iter().cloned());
                let tag = r.tag.map(|t| tag_text(case.tags, t));
                let bytes = response_text(inv, r.code, tag.as_deref(), &extra);
                inject(&endpoint, &tp, peer, &bytes);
                settle().await;
            }
        }
        // every busy period / late Early delays the application by at most its own length
        clock.until(t + case.busy.iter().sum::<u64>() + case.early_lag.iter().sum::<u64>() + TIMEOUT + 5000).await;
        settle().await;
        let evs = events.lock().clone();
        sessions.lock().clear();
        Observed { events: evs, invite: invite_msg }
    })
}

pub fn check(case: &AppCase, out: &mut CaseOut) {
    let obs = run_app(case);
    let Some(invite) = obs.invite.clone() else {
        out.fail("c13.harness/no-invite", format!("INVITE not sent: {:?}", obs.events));
        return;
    };
    let call_id = invite.call_id().unwrap_or("").to_string();
    let local_tag = invite.from_tag().unwrap_or_default();
    let tag_of = |r: &RespEv| r.tag.map(|x| tag_text(case.tags, x));
    let busy_of = |i: usize| case.busy.get(i).copied().unwrap_or(0);

    // ---- reference classifier ----
    // Moments are intervals [lo, hi]: while an `Early` has not been polled yet the initiator, forwarding a response to
    // it, may or may not have to wait for room in that early dialog's queue (until the application starts polling it
    // at the latest). How many events such a queue holds is not part of the statement, both readings are accepted.
    // Without late `Early` objects lo == hi everywhere.
    #[derive(Debug, Clone, PartialEq)]
    struct Want {
        marker: String,
        /// when the response is delivered: its arrival, or the application's next poll if that is later
        t: (u64, u64),
        recipient: Option<String>,
        kinds: Vec<Kind>, // admissible kinds
        optional: bool,
        idx: usize,
        /// it waited in the transaction's queue while the application was busy
        queued: bool,
        /// it arrived inside the Accepted window but is polled only after the earliest reading of the 64*T1 deadline
        polled_after_deadline: bool,
        /// it was forwarded to an early dialog the application had not started to poll yet
        to_unpolled_early: bool,
    }
    let mut want: Vec<Want> = vec![];
    let mut early: BTreeSet<String> = BTreeSet::new(); // live early dialogs by tag
    let mut early_order: Vec<String> = vec![]; // ... in creation order
    // early dialogs the application gets around to late: tag -> the moment it starts polling the Early
    let mut poll_start: std::collections::BTreeMap<String, (u64, u64)> = Default::default();
    // events forwarded before the application started polling that Early if the initiator never had to wait (for the class labels only)
    let mut piled: std::collections::BTreeMap<String, usize> = Default::default();
    let mut upgraded: BTreeSet<String> = BTreeSet::new(); // tags whose early dialog became a session (early dropped)
    let mut direct_sessions: BTreeSet<String> = BTreeSet::new();
    // first 2xx seen by the transaction: (arrival, latest moment the polling application made the transaction see it)
    let mut accepted: Option<(u64, u64)> = None;
    let mut ended: Option<(usize, u64)> = None; // transaction over (non-2xx final): index, time it was handed over
    let mut gone = false; // Finished was certainly reported before this arrival
    let mut expect_terminated: Vec<(String, (u64, u64))> = vec![];
    let mut stop_at: Option<usize> = None; // classification result is not asserted from this index on
    let mut cut_t: Option<u64> = None; // ... i.e. from this moment on
    let mut t = 0u64;
    // R: the moment from which the application is (again) inside Initiator::receive and the initiator is not waiting
    // for an early dialog
    let mut ready = (0u64, 0u64);
    let mut dup_seen = false;
    let mut dup_markers: Vec<(String, &'static str)> = vec![];
    let mut busy_used = false;
    let mut late_early_used = false;
    let mut failure_with_unpolled_early = false;
    let mut after_first_2xx_asserted = false;
    // forwarding an event at moment `at` into the queue of the early dialog `tag`: -> (moment the initiator goes on,
    // moment the application gets the event out of the Early, was the Early not polled yet)
    let forward = |poll_start: &std::collections::BTreeMap<String, (u64, u64)>, tag: &str, at: (u64, u64)| -> ((u64, u64), (u64, u64), bool) {
        match poll_start.get(tag) {
            Some(&(s_lo, s_hi)) if at.0 < s_hi => ((at.0, at.1.max(s_hi)), (at.0.max(s_lo), at.1.max(s_hi)), true),
            _ => (at, at, false),
        }
    };
    for (i, r) in case.responses.iter().enumerate() {
        t += r.gap;
        let marker = format!("m{i}");
        if ended.is_some() || gone {
            continue; // orphan: the transaction has ended
        }
        if let Some((fa, fd)) = accepted {
            if t + 3 >= fa + TIMEOUT {
                // at / after the end of the Accepted state (in its earliest reading)
                if ready.1.max(fd + TIMEOUT) + 3 < t {
                    // the application was inside receive() when the deadline (latest reading) passed: Finished is out
                    gone = true;
                    continue;
                }
                // around the deadline, or after it while the application has not polled yet: not asserted
                stop_at = Some(i);
                cut_t = Some(t.max(ready.0));
                break;
            }
        }
        // FIFO: classified on arrival if the application is waiting in receive(), else at its next poll
        let d = (t.max(ready.0), t.max(ready.1));
        ready = d;
        let queued = d.1 > t;
        let polled_after_deadline = accepted.map_or(false, |(fa, _)| d.0 >= fa + TIMEOUT);
        let mk = |at: (u64, u64), recipient: Option<String>, kinds: Vec<Kind>, optional: bool, to_unpolled_early: bool| Want { marker: marker.clone(), t: at, recipient, kinds, optional, idx: i, queued, polled_after_deadline, to_unpolled_early };
        let tag = tag_of(r);
        let needs_dialog = (101..300).contains(&r.code) && tag.is_some();
        // handed = Initiator::receive returns this response to the application, which is then busy for busy[i]
        let mut handed = false;
        if r.code <= 100 {
            want.push(mk(d, None, vec![Kind::Provisional], false, false));
            handed = true;
            after_first_2xx_asserted |= accepted.is_some();
        } else if r.code >= 300 {
            if accepted.is_none() {
                // every early dialog is told, in creation order; the initiator may have to wait for each not yet polled one
                let mut at = d;
                for e in &early_order {
                    if !early.contains(e) {
                        continue;
                    }
                    let (go_on, got, unpolled) = forward(&poll_start, e, at);
                    at = go_on;
                    failure_with_unpolled_early |= unpolled;
                    expect_terminated.push((e.clone(), got));
                }
                early.clear();
                want.push(mk(at, None, vec![Kind::Failure], false, false));
                ready = at;
                ended = Some((i, at.1));
                handed = true;
            } else {
                // a non-2xx after a 2xx: what the initiator does with it is not asserted
                want.push(mk(d, None, vec![Kind::Failure], true, false));
                stop_at = Some(i + 1);
                cut_t = Some(d.0);
                break;
            }
        } else if tag.is_none() {
            // 1xx/2xx without To-tag: cannot create a dialog, ignored (the transaction still sees the 2xx)
            if (200..300).contains(&r.code) && accepted.is_none() {
                accepted = Some((t, d.1));
            }
        } else if needs_dialog && !r.contact && !early.contains(tag.as_ref().unwrap()) {
            // a dialog-creating response without Contact is malformed: error or ignore, nothing asserted after
            stop_at = Some(i);
            cut_t = Some(d.0);
            break;
        } else {
            let tag = tag.unwrap();
            let was_accepted = accepted.is_some();
            if (200..300).contains(&r.code) && accepted.is_none() {
                accepted = Some((t, d.1));
            }
            if early.contains(&tag) {
                // forwarded inside receive(): the application is not handed anything
                let (go_on, got, unpolled) = forward(&poll_start, &tag, d);
                ready = go_on;
                if unpolled && d.0 < poll_start[&tag].0 {
                    *piled.entry(tag.clone()).or_default() += 1;
                }
                after_first_2xx_asserted |= was_accepted;
                if r.code < 200 {
                    want.push(mk(got, Some(tag.clone()), vec![Kind::Provisional], false, unpolled));
                } else {
                    want.push(mk(got, Some(tag.clone()), vec![Kind::Session], false, unpolled));
                    early.remove(&tag);
                    upgraded.insert(tag);
                }
            } else if upgraded.contains(&tag) || direct_sessions.contains(&tag) {
                // a response for a tag that already has its session (retransmitted 2xx, late 18x):
                // what the application sees is not asserted, only that nothing breaks
                dup_seen = true;
                dup_markers.push((marker.clone(), if upgraded.contains(&tag) { "after-early-upgrade" } else { "direct" }));
                // It may go into the queue of an Early the application has not started to poll: the one whose session
                // it has not taken out yet, or one that an earlier such 18x got created for this tag (created or not
                // is not asserted; if it was, the application gets around to it as late as to any Early of that fork)
                let mut at = d;
                if poll_start.contains_key(&tag) {
                    let (go_on, got, _) = forward(&poll_start, &tag, d);
                    ready = go_on;
                    at = (d.0, got.1);
                } else if r.code < 200 && !upgraded.contains(&tag) {
                    let lag = r.tag.map_or(0, |j| case.lag_of(j));
                    if lag > 0 {
                        poll_start.insert(tag.clone(), (d.0 + lag, d.1 + lag));
                    }
                }
                want.push(mk(at, None, vec![Kind::Session, Kind::EarlyCreated, Kind::Provisional], true, false));
                if busy_of(i) > 0 {
                    // handed to the application or not: from here on the reference does not know when it polls
                    stop_at = Some(i + 1);
                    cut_t = Some(d.0);
                    break;
                }
            } else if r.code < 200 {
                want.push(mk(d, None, vec![Kind::EarlyCreated], false, false));
                let lag = r.tag.map_or(0, |j| case.lag_of(j));
                if lag > 0 {
                    poll_start.insert(tag.clone(), (d.0 + lag, d.1 + lag));
                    late_early_used = true;
                }
                early_order.push(tag.clone());
                early.insert(tag);
                handed = true;
                after_first_2xx_asserted |= was_accepted;
            } else {
                want.push(mk(d, None, vec![Kind::Session], false, false));
                direct_sessions.insert(tag);
                handed = true;
                after_first_2xx_asserted |= was_accepted;
            }
        }
        if handed && busy_of(i) > 0 {
            ready = (ready.0 + busy_of(i), ready.1 + busy_of(i));
            busy_used = true;
        }
    }
    let asserted = |idx: usize| stop_at.map_or(true, |s| idx < s);

    // ---- classes ----
    let tags: BTreeSet<_> = case.responses.iter().filter_map(|r| r.tag).collect();
    if tags.len() >= 2 {
        out.class("forked(>=2 tags)");
        out.class(match case.tags {
            0 => "fork-tags:plain",
            1 => "fork-tags:differ-only-in-case",
            2 => "fork-tags:prefix-of-each-other",
            3 => "fork-tags:one-punctuation-char-differs",
            4 => "fork-tags:long-last-char-differs",
            _ => "fork-tags:numeric-lookalike",
        });
    }
    let upgrade = !upgraded.is_empty();
    if upgrade {
        out.class("2xx-after-18x-same-tag");
    }
    if dup_seen {
        out.class("response-for-tag-with-session");
    }
    if ended.is_some() && !expect_terminated.is_empty() {
        out.class("failure-terminates-early-dialogs");
    }
    if stop_at.is_some() {
        out.class("unasserted-tail");
    }
    if busy_used {
        out.class("application-busy-between-polls");
    }
    let queued_any = want.iter().any(|w| w.queued && asserted(w.idx));
    if queued_any {
        out.class("response-queued-while-application-busy");
    }
    if want.iter().any(|w| w.queued && asserted(w.idx) && w.recipient.is_some()) {
        out.class("queued-response-forwarded-to-early-dialog");
    }
    if want.iter().any(|w| w.polled_after_deadline && asserted(w.idx)) {
        out.class("arrived-inside-accepted-window-polled-after-64T1");
    }
    if let Some((fa, fd)) = accepted {
        if fd > fa {
            out.class("first-2xx-queued-while-application-busy");
        }
    }
    if case.reliable {
        out.class("reliable-transport");
        if after_first_2xx_asserted {
            out.class("reliable-transport:asserted-response-after-first-2xx");
        }
    }
    if after_first_2xx_asserted {
        out.class("asserted-response-after-first-2xx");
    }
    if late_early_used {
        out.class("early-dialog-polled-late");
    }
    let to_unpolled_any = want.iter().any(|w| w.to_unpolled_early && asserted(w.idx));
    if to_unpolled_any {
        out.class("response-forwarded-to-early-dialog-not-yet-polled");
    }
    if want.iter().any(|w| w.to_unpolled_early && asserted(w.idx) && w.kinds[0] == Kind::Session) {
        out.class("2xx-forwarded-to-early-dialog-not-yet-polled");
    }
    match piled.values().max().copied().unwrap_or(0) {
        0 => {}
        1..=2 => out.class("events-piled-up-for-unpolled-early-dialog:1-2"),
        3..=4 => out.class("events-piled-up-for-unpolled-early-dialog:3-4"),
        5..=6 => out.class("events-piled-up-for-unpolled-early-dialog:5-6"),
        _ => out.class("events-piled-up-for-unpolled-early-dialog:7+"),
    }
    if failure_with_unpolled_early {
        out.class("failure-while-early-dialog-not-yet-polled");
    }
    if want.iter().any(|w| asserted(w.idx) && w.t.0 != w.t.1) {
        out.class("delivery-moment-depends-on-early-dialog-queue(interval-accepted)");
    }
    if tags.len() >= 2 || upgrade || dup_seen || queued_any || to_unpolled_any {
        out.nontrivial(case);
    }
    out.note = Some(format!(
        "{:?}",
        obs.events
            .iter()
            .map(|e| format!("{}ms {:?} {:?} {:?}", e.t_ms, e.recipient, e.kind, e.marker))
            .collect::<Vec<_>>()
    ));

    // ---- compare: each response exactly one recipient, exactly once ----
    for e in &obs.events {
        if let Kind::Error(msg) = &e.kind {
            let before_cut = cut_t.map_or(true, |c| e.t_ms < c);
            if before_cut {
                out.fail("c13.classify/error", format!("{:?} reported error `{msg}` at {} ms", e.recipient, e.t_ms));
            }
        }
    }
    for w in &want {
        if !asserted(w.idx) {
            continue;
        }
        let got: Vec<&Event> = obs.events.iter().filter(|e| e.marker.as_deref() == Some(w.marker.as_str())).collect();
        let r = &case.responses[w.idx];
        let what = format!("response {} ({}{})", w.marker, r.code, tag_of(r).map(|t| format!(" tag {t}")).unwrap_or_default());
        if got.is_empty() {
            if !w.optional {
                let locus = match w.kinds[0] {
                    _ if w.polled_after_deadline => "arrived-inside-accepted-window-polled-after-64T1",
                    Kind::Provisional if w.recipient.is_some() => "18x-known-tag-not-forwarded",
                    Kind::Provisional => "100-not-reported",
                    Kind::EarlyCreated => "18x-new-tag-no-early-dialog",
                    Kind::Session if w.recipient.is_some() => "2xx-not-delivered-through-early-dialog",
                    Kind::Session => "2xx-no-session",
                    Kind::Failure => "failure-not-reported",
                    _ => "other",
                };
                out.fail(format!("c13.lost/{locus}"), format!("{what} (classified at {}..={} ms) was delivered to nobody; events {:?}", w.t.0, w.t.1, out.note));
            }
            continue;
        }
        if got.len() > 1 {
            out.fail("c13.duplicate/delivered-twice", format!("{what} was delivered {} times: {:?}", got.len(), got.iter().map(|e| (&e.recipient, &e.kind)).collect::<Vec<_>>()));
        }
        let e = got[0];
        if !w.optional && (e.recipient != w.recipient || !w.kinds.contains(&e.kind)) {
            // delivered into the early dialog of ANOTHER To-tag: two forks were taken for one
            let other_fork = matches!((&e.recipient, tag_of(r)), (Some(x), Some(own)) if *x != own);
            out.fail(
                if other_fork { "c13.classify/forwarded-to-early-dialog-of-other-tag" } else { "c13.classify/wrong-recipient-or-kind" },
                format!("{what}: delivered to {:?} as {:?}, expected {:?} as {:?}", e.recipient, e.kind, w.recipient, w.kinds),
            );
        }
        if e.t_ms < w.t.0 || e.t_ms > w.t.1 {
            out.fail(
                "c13.classify/late",
                format!("{what}: delivered at {} ms, expected at {}..={} ms (arrival, or the application's next poll of the initiator / first poll of the early dialog)", e.t_ms, w.t.0, w.t.1),
            );
        }
        // session contents come from THAT response
        if e.kind == Kind::Session && !w.optional {
            if let Some(d) = &e.dialog {
                let want_routes: BTreeSet<String> = routes_of(w.idx, r.record_routes).into_iter().collect();
                let got_routes: BTreeSet<String> = d
                    .routes
                    .iter()
                    .map(|x| x.trim_start_matches("sip:").split(';').next().unwrap_or("").to_string())
                    .collect();
                let tag = tag_of(r).unwrap_or_default();
                if d.call_id != call_id || d.local_tag != local_tag || d.peer_tag != tag {
                    out.fail("c13.session/dialog-identifiers", format!("{what}: dialog ids {:?}, expected call-id {call_id} local {local_tag} peer {tag}", d));
                }
                // (a 2xx without Contact is malformed; the target then stays what the early dialog had)
                if r.contact && d.target != contact_of(w.idx) {
                    out.fail("c13.session/remote-target", format!("{what}: remote target {:?}, expected {:?}", d.target, contact_of(w.idx)));
                }
                if got_routes != want_routes || d.routes.len() != want_routes.len() {
                    out.fail("c13.session/route-set", format!("{what}: route set {:?}, expected the response's Record-Route {:?}", d.routes, want_routes));
                }
            }
        }
    }
    // a tag that already has its session must not get a second session / early dialog: the second Dialog would
    // share the dialog key with the live one (and unregister it when dropped)
    for (m, how) in &dup_markers {
        let idx: usize = m[1..].parse().unwrap_or(usize::MAX);
        if !asserted(idx) {
            continue;
        }
        if let Some(e) = obs.events.iter().find(|e| e.marker.as_deref() == Some(m.as_str()) && matches!(e.kind, Kind::Session | Kind::EarlyCreated)) {
            out.fail(
                format!("c13.duplicate/second-dialog-for-tag:{how}"),
                format!("response {m} for a tag that already has a session was reported as {:?}: a second dialog with the same identifiers", e.kind),
            );
        }
    }
    // responses that must NOT surface (orphans after the transaction ended)
    if let Some((end_idx, end_t)) = ended {
        for e in &obs.events {
            if let Some(m) = &e.marker {
                let idx: usize = m[1..].parse().unwrap_or(usize::MAX);
                if idx > end_idx {
                    out.fail("c13.classify/delivered-after-failure", format!("{m} delivered at {} ms although the final failure m{end_idx} was handed over at {end_t} ms", e.t_ms));
                }
            }
        }
        // failure terminates every early dialog
        for (tag, t) in &expect_terminated {
            let ok = obs.events.iter().any(|e| e.recipient.as_deref() == Some(tag.as_str()) && e.kind == Kind::Terminated && e.t_ms >= t.0 && e.t_ms <= t.1);
            if !ok && stop_at.is_none() {
                out.fail("c13.failure/early-dialog-not-terminated", format!("early dialog {tag} did not get Terminated at {}..={} ms", t.0, t.1));
            }
        }
    }
    // unknown markers / recipients
    for e in &obs.events {
        if let Some(m) = &e.marker {
            let idx: usize = m[1..].parse().unwrap_or(usize::MAX);
            let after_failure = ended.map_or(false, |(end_idx, _)| idx > end_idx); // reported above
            if !want.iter().any(|w| &w.marker == m) && asserted(idx) && !after_failure {
                out.fail("c13.classify/unexpected-delivery", format!("{m} delivered to {:?} as {:?} although the reference expects no delivery", e.recipient, e.kind));
            }
        }
    }
    // completion 64*T1 after the first 2xx (its arrival, or the moment the polling application let the transaction see
    // it), or as soon as the application polls again after that
    if let (Some((fa, fd)), None) = (accepted, stop_at) {
        let fin: Vec<u64> = obs.events.iter().filter(|e| e.kind == Kind::Finished).map(|e| e.t_ms).collect();
        let lo = ready.0.max(fa + TIMEOUT);
        let hi = ready.1.max(fd + TIMEOUT);
        if fin.len() != 1 || fin[0] + 2 < lo || fin[0] > hi + 2 {
            out.fail(
                "c13.finished/not-64T1-after-first-2xx",
                format!("Finished at {fin:?}; first 2xx arrived at {fa}, seen by the polling application at {fd}, application polling again from {ready:?}: expected once in {lo}..={hi}"),
            );
        }
    }
    if ended.is_some() && stop_at.is_none() {
        let fin = obs.events.iter().filter(|e| e.kind == Kind::Finished).count();
        if fin != 1 {
            out.fail("c13.finished/after-failure", format!("expected Finished once after the failure, got {fin}"));
        }
    }
}

pub fn property() -> Property {
    Property {
        fuzz: vec![],
        id: "C13",
        rule: "a case = history of 1..10 responses to one INVITE sent through Initiator (status from {100,180,183,199,200,202,300,404,486,603}, To-tag none / 3 forks, Contact present 93%, 0..3 Record-Route, Supported timer/100rel, Require+RSeq, Session-Expires) at gaps 1..31000 ms under a paused clock (a quarter of the random cases: 6..14 responses, mostly 101-199 of fork 0, gaps 1..450 ms), x the transport (UDP / one reporting itself reliable, a third of the random cases) x the spelling of the fork To-tags (plain; differing only in letter case; prefixes of each other; one punctuation character; 40 characters differing in the last; numeric look-alikes) x the application's polling schedule (after being handed response i it does not call Initiator::receive for busy[i] in {0,3,40,600,2530,31600,33010,40020} ms; half of the random cases poll continuously) x the application's schedule for the early dialogs (it first calls Early::receive on the Early of fork j early_lag[j] in {0,7,613,2537,33017,70003} ms after being handed it, then polls it continuously and lets go of it when it yields a session or Terminated; non-zero for some fork in ~45% of the random cases; meanwhile forwarded events pile up for that early dialog). exhaustive: every history of length <= 4 (thorough 5) over {100,180,200,486} x {no tag,#0,#1}, plain tags, UDP, continuous polling. exhaustive-variants: every such history of length <= 3 (thorough 4) under case-variant tags, prefix tags, 33 s busy after every / the first / the second response, 600 ms busy after every response, reliable transport, every Early polled 33 s late, reliable + 600 ms busy + every Early 613 ms late. lazy-early: 180 of fork 0 + k = 0..8 (thorough 12) further 101-199 of fork 0 + one of 7 endings x 5 early_lag vectors x gaps 1/450 ms x both transports. Oracle = reference classifier over the set of tags seen so far and the application's ready time (FIFO queue: a response is classified at max(arrival, next poll); what is forwarded to an early dialog comes out of its Early at max(that, first poll of the Early); while an Early is not polled yet the initiator may or may not wait for it when forwarding, later moments are intervals and any delivery inside is accepted); every response carries a unique X-Seq marker, so recipients are identified exactly. Non-trivial = >=2 distinct To-tags, or a 2xx after an 18x of the same tag, or a response for a tag that already has a session, or a response that waited in the queue while the application was busy, or a response forwarded to an early dialog the application had not started to poll; distinct by case.",
        assumptions: vec![
            "what the application sees for a response whose tag already has a session (retransmitted 2xx, late 18x) is not asserted beyond: delivered at most once, no second dialog, nothing panics, later responses are still classified; if the application is busy after such a response nothing after it is asserted (the reference cannot know whether it was handed over)",
            "a dialog-creating response without Contact is malformed: nothing is asserted from there on",
            "route set is compared as a set (its order is C11's subject)",
            "non-2xx after a 2xx is not asserted",
            "'64*T1 after the first 2xx' is accepted in both readings when the application polls lazily (arrival of the 2xx / the poll that made the transaction see it): responses arriving later than 3 ms before the earlier deadline are not asserted unless Finished has certainly been reported (then they must not surface); responses that arrived before it must be delivered even if the application polls only after 64*T1",
            "To-tags are opaque tokens compared byte-wise; '%' in tags is excluded (open finding of C09/C11)",
            "an Early is polled continuously from the application's first poll of it on (early_lag after it was handed over) and is let go of only when it yielded a session or Terminated; how many events the queue between initiator and early dialog holds is not part of the statement: whether the initiator waits for a not yet polled Early when forwarding to it is accepted either way (delivery moments are intervals), only loss / duplication / a wrong recipient are violations",
            "the transport's reliability changes nothing in the expected classification or in the 64*T1 completion (RFC 6026 7.2: the Accepted state collects the 2xx of other forks on every transport)",
        ],
        explanation: "exhaustive over the reduced alphabet up to the stated length (plain/UDP/continuous, and per listed variant one step shorter); the lazy-early grid is enumerated completely; random histories, tag spellings, transports and polling schedules (initiator and early dialogs) sampled",
        subs: vec![
            enum_sub("exhaustive", exhaustive_cases, check),
            enum_sub("exhaustive-variants", variant_cases, check),
            enum_sub("lazy-early", lazy_early_cases, check),
            prop_sub("random", strategy, 1200, 20000, check),
        ],
    }
}
