//! C13 — UAC INVITE: responses map deterministically to early dialogs, sessions, failure
//!
//! **Generated.** An INVITE is sent through `Initiator` over a mock transport under the paused clock; a case is
//! * a history of 1..10 responses (status from {100,180,183,199,200,202,300,404,486,603}; To-tag none / one of 3
//!   forks; Contact present 93 % / absent 6 % / present but unparsable 1 %; 0..3 Record-Route; Supported
//!   timer/100rel; Require+RSeq; Session-Expires) at gaps 1..31000 ms, each carrying a unique `X-Seq` marker; of the
//!   random cases 2/15 are "chatty" (6..14 responses, mostly 101-199 of fork 0 at gaps 1..450 ms) and 2/15 "shaky"
//!   (2..8 responses, mostly 101-299 of forks 0/1, Contact absent 35 % / unparsable 10 %),
//! * the SPELLING of the forks' To-tags (`tags`, see `TAG_FAMILIES`): plain `t0 t1 t2`, tags that differ only in
//!   letter case, tags that are prefixes of each other, tags differing in one punctuation character of the token
//!   alphabet, long tags differing in the last character only, numeric look-alikes (`1`, `01`, `1.0`). To-tags are
//!   opaque tokens compared byte-wise (RFC 3261 19.3), so every pair of different strings is a pair of different forks,
//! * the TRANSPORT the INVITE goes out on (`reliable`): unreliable (UDP) or one that reports itself reliable (TCP).
//!   Nothing in the statement depends on it (the Accepted state lasts 64*T1 on every transport: it collects the 2xx
//!   of the other forks), so the oracle is the same for both,
//! * the APPLICATION's polling schedule of the initiator (`busy`): `busy[i]` ms pass between `Initiator::receive`
//!   handing response i to the application and the application's next call of `receive` (0 = it polls again at once;
//!   values 3 ms .. 40 s, i.e. also longer than 64*T1). While the application is busy responses queue up in the
//!   transaction; they are classified when it polls again,
//! * the APPLICATION's polling schedule of the early dialogs (`early_lag`): `early_lag[j]` ms pass between the
//!   application being handed the `Early` of fork j and its first `Early::receive` on it (0, 7 ms .. 70 s); from then
//!   on it polls that `Early` continuously and lets go of it when it yields a session or `Terminated`. Until then
//!   everything the initiator forwards to that early dialog piles up (1, 2, ... 10+ events, i.e. past any queue size),
//! * what the APPLICATION does when `Initiator::receive` returns an ERROR (`go_on_after_error`; the only in-domain
//!   cause is a 101-299 of a new To-tag that cannot create its dialog because it has no usable Contact): it gives up
//!   (15 % of the random cases; nothing is asserted from there on) or calls `receive` again at once, so that further
//!   responses OF THE SAME To-tag (a complete 18x, the 2xx) and of other forks follow the rejected one,
//! * how many INVITEs the application sends through the SAME `Initiator` (`next`, a third of the random cases): when
//!   an INVITE failed (3xx-6xx reported, no session) it calls `create_invite` + `send_invite` again, as
//!   examples/send_invite.rs does after a 401, right after it has dealt with the failure or after it has polled
//!   `Finished` (`resend_after_finished`); up to 3 INVITEs. The peer answers each INVITE with a history of its own and
//!   RE-USES its To-tags (same tag family). The `Early` objects of the failed INVITE that reported `Terminated` are
//!   dropped or kept around unpolled (`hold_terminated`); those the application has not even started to poll
//!   (`early_lag`) stay alive into the next INVITE,
//! * how long the TRANSPORT's `send` of an INVITE stays pending (`send_pending`: 0 in 60 % of the random cases, else 2 /
//!   30 / 470 / 1203 ms): the bytes of the first transmission of every INVITE (also of the re-sent ones) are on the wire
//!   at once, but the transport reports the write as done only `send_pending` ms later, so `Initiator::send_invite`
//!   returns late. The peer's gaps count from the moment the bytes are out: every response with a cumulative gap below
//!   `send_pending` (1, 2, ... all of them: 100, 18x of new / known forks, 2xx, the failure) is handed to the endpoint
//!   while `send_invite` has not returned. The application calls `receive` as soon as `send_invite` is back.
//!   Retransmissions of the INVITE and the ACK of a failure are written without delay (they are sent from inside
//!   `receive`; how long they take would shift the moments the reference predicts, and is not what C13 is about).
//! Sub-checks: `exhaustive` = every history of length <= 4 (thorough 5) over {100,180,200,486} x {no tag,t0,t1},
//! UDP, continuous polling; `exhaustive-variants` = every history of length <= 3 (thorough 4) over the same alphabet
//! under each of: case-variant tags, prefix tags, 33 s busy after every / only the first / only the second response,
//! 600 ms busy after every response, reliable transport, every Early polled 33 s late, reliable + 600 ms busy + every
//! Early 613 ms late; `lazy-early` = 180 of fork 0, k = 0..8 (thorough 12) further 101-199 of fork 0, one of 7 endings
//! (nothing / 200 of the fork / 200 of another fork / 486 / 18x+2xx of another fork then the fork's 2xx / 2xx twice /
//! another fork's 18x,18x,603) x 5 lag vectors x gaps 1 / 450 ms x both transports; `retry` = first INVITE: one of 6
//! preludes (nothing / 180 t0 / 180 t1 / both / 180+183 t0 / 100) + 486 without tag or 404 of t0, second INVITE: every
//! history of length <= 2 (thorough 3) over the alphabet, x 5 application variants (resend at once / after Finished,
//! terminated Early dropped / kept, every Early polled 33 s late, reliable + 600 ms busy), plus two failed INVITEs
//! before the enumerated one; `rejected-then-same-fork` = one of 3 preludes (nothing / 100 / 180 t1) + a t0 response
//! that cannot create its dialog (180 without Contact / 183 with unparsable Contact / 200 without Contact) + every
//! continuation of length <= 2 (thorough 3) over the alphabet extended by a Contact-less 180 t0, x 3 application
//! variants, the application going on after the error; `answered-while-sending` = every history of length <= 3
//! (thorough 4) over the alphabet (arrivals 1, 21, 22, 42 ms after the INVITE is out) x send pending 2 ms UDP / 30 ms
//! UDP / 30 ms reliable / 470 ms reliable + 600 ms busy (`retry` has a variant with 30 ms for every INVITE as well);
//! `random` = sampled histories with all dimensions.
//!
//! **Oracle.** A reference classifier replays the history in arrival order (the transaction's queue is FIFO) with
//! the set of tags seen so far and the application's ready time R (initially the moment `send_invite` returns = the
//! INVITE's appearance in the wire log + `send_pending`; a response that arrived before that waits like one that
//! arrives while the application is busy, it is NOT lost): response i is classified at d_i = max(arrival_i, R)
//! as 100 -> Provisional; 101-199 new tag -> new early dialog, known tag -> forwarded to exactly that early dialog;
//! 2xx -> session (through the early dialog of its tag if there is one) whose Call-ID / local tag come from the INVITE
//! and whose remote tag (byte-exact), remote target and route set come from THAT response; first 3xx-6xx -> Failure,
//! `Terminated` on every live early dialog, nothing delivered afterwards. Every response has exactly one recipient,
//! exactly once. What was forwarded to an early dialog comes out of its `Early` at max(d_i, the application's first
//! poll of that `Early`), however many events piled up before. While an `Early` is not polled yet the initiator may
//! or may not have to wait for room in that early dialog's queue when it forwards to it (the statement does not say
//! how many events the queue holds): R and every later moment become intervals [no wait, wait until that `Early` is
//! polled] and a delivery anywhere inside is accepted; without late `Early` objects the intervals are points. A
//! response that ARRIVED inside the Accepted window (earlier than 64*T1 - 3 ms after the arrival of the first 2xx)
//! must be delivered however late the application polls. `Finished` is reported once, at max(R_final, D) with
//! D = 64*T1 after the first 2xx, where "after the first 2xx" is accepted in both readings (its arrival, or the
//! moment the polling application made the transaction see it).
//! A 101-299 of a new To-tag without usable Contact cannot create a dialog: if nothing was handed out for it (an
//! error from `receive` at d_i is accepted, so is silence) NOTHING was created, the To-tag is as unknown as before
//! and the next response carrying it is classified like any response of a new tag (early dialog / session from the
//! initiator); the transaction has seen a 2xx among them all the same (64*T1 runs).
//! Every further INVITE starts the classifier afresh: the failure terminated every early dialog, so no To-tag is
//! known, whatever the previous INVITEs saw; recipients are told apart by the INVITE they belong to (an early dialog
//! of INVITE #0 is never the recipient of a response to INVITE #1), Call-ID / local tag of a session are those of the
//! INVITE it answers. The time base of INVITE #k is the moment it appears in the wire log (when the application
//! re-sends is the application's business), the reference only predicts THAT it is sent (after a reported failure).
//! `Finished` of a failed INVITE: once if the application polls it to its end, not at all if it re-sends at once.
//!
//! **Not asserted.** What the application sees for a response whose tag already has its session (only: no second
//! dialog, at most one delivery), and everything after it if the application is busy after that response (R is then
//! unknown); whether a dialog-creating response without usable Contact is reported as error or ignored, and anything
//! from it on if an early dialog / session was handed out for it all the same, if its tag already has a session, or
//! if the application gives up at the error; a non-2xx after a 2xx (and further INVITEs after it); responses arriving
//! between 64*T1 - 3 ms after the first 2xx's arrival and the moment `Finished` is certainly reported (incl. those
//! that arrive after the deadline while the application has not polled yet); the order of the route set (C11);
//! whether / how long the initiator waits for a not yet polled early dialog (only: nothing is lost, and it goes on
//! when that `Early` is polled at the latest); an application that drops an `Early` before it yielded a session or
//! `Terminated`, polls it with pauses between the events, or polls it again after `Terminated`; a further INVITE
//! after one that yielded a session or has not been answered finally; the CSeq / branch of the re-sent INVITE; slow
//! retransmissions / ACKs; whether the INVITE is retransmitted although it was answered while its send was pending.
//!
//! **Found with the lazily polled histories and repaired** (known_findings.txt, fix d9580d2): behind a 3xx-6xx that
//! follows a 2xx the failure empties `early_list`, a further 18x of a tag that had an early dialog created a second
//! `Dialog` with the same key; handled in one burst (application was busy) the first `Early` was dropped AFTER the
//! second was registered and took the dialog-layer entry with it, and the 2xx confirming the second hit
//! `expect("called by the dialog")` in `Dialog::register_usage`. History: 200, 100 (busy), 180 tag a, 300, 180 tag a,
//! 200 tag a (regress/C13-fixed-panic-register-usage-after-failure-following-2xx.json). Such tails are generated.

use crate::engine::*;
use crate::refmodel::ref_tsx::TIMEOUT;
use crate::world::*;
use parking_lot::Mutex;
use proptest::prelude::*;
use serde::{Deserialize, Serialize};
use sip_types::header::typed::Contact;
use sip_types::print::AppendCtx;
use sip_types::uri::sip::SipUri;
use sip_types::uri::NameAddr;
use sip_ua::dialog::{Dialog, DialogLayer};
use sip_ua::invite::initiator::{Early, EarlyResponse, Initiator, Response};
use sip_ua::invite::session::Session;
use sip_ua::invite::InviteLayer;
use std::collections::BTreeSet;
use std::net::SocketAddr;
use std::sync::Arc;

#[derive(Serialize, Deserialize, Clone, Debug, Hash)]
pub struct RespEv {
    pub gap: u64,
    pub code: u16,
    /// None = no To-tag, Some(i) = tag "t<i>"
    pub tag: Option<u8>,
    pub contact: bool,
    pub record_routes: u8,
    pub supported_timer: bool,
    pub supported_100rel: bool,
    pub rseq: bool,
    pub session_expires: Option<u32>,
    /// further raw header lines (used by C02 to put hostile values into the responses)
    #[serde(default)]
    pub extra: Vec<String>,
}

#[derive(Serialize, Deserialize, Clone, Debug, Hash)]
pub struct Case {
    pub responses: Vec<RespEv>,
    pub rng: u8,
}

/// A C13 case: the response history plus the spelling of the forks' To-tags and the application's polling schedule.
/// (`Case` above is the bare history; C02 drives `run` with it.)
#[derive(Serialize, Deserialize, Clone, Debug, Hash)]
pub struct AppCase {
    pub responses: Vec<RespEv>,
    pub rng: u8,
    /// index into `TAG_FAMILIES`: how the To-tags of the forks are spelled (0 = t0, t1, t2)
    #[serde(default)]
    pub tags: u8,
    /// `busy[i]` = ms between `Initiator::receive` handing response i to the application and the application's next
    /// call of `receive` (missing / 0 = at once). Irrelevant for responses that are forwarded to an early dialog or
    /// ignored inside `receive`.
    #[serde(default)]
    pub busy: Vec<u64>,
    /// the INVITE goes out over a transport that reports itself reliable (named TCP) instead of UDP
    #[serde(default)]
    pub reliable: bool,
    /// `early_lag[j]` = ms between the application being handed the `Early` of fork j (index into the tag family) and
    /// its first call of `Early::receive` on it; from then on it polls that `Early` continuously (missing / 0 = from
    /// the start)
    #[serde(default)]
    pub early_lag: Vec<u64>,
    /// the application keeps calling `Initiator::receive` after it returned an error (false = it gives up at the first
    /// error, nothing is asserted from there on)
    #[serde(default)]
    pub go_on_after_error: bool,
    /// histories of the FURTHER INVITEs the application sends through the same `Initiator`: whenever the INVITE failed
    /// (a 3xx-6xx was reported and no session came out of it) and a further history is left, the application calls
    /// `create_invite` + `send_invite` again (as examples/send_invite.rs does after a 401) and the peer answers that
    /// INVITE with the next history (gaps count from the moment that INVITE is on the wire, or from the last response
    /// to the previous INVITE if that is later). The fork To-tags are the same family: the UAS may re-use them.
    #[serde(default)]
    pub next: Vec<Vec<RespEv>>,
    /// false: the next INVITE goes out as soon as the application has dealt with the failure response (busy[i] after it);
    /// true: it first polls the initiator until `Finished`
    #[serde(default)]
    pub resend_after_finished: bool,
    /// the application keeps the `Early` objects that reported `Terminated` (without polling them again) instead of
    /// dropping them
    #[serde(default)]
    pub hold_terminated: bool,
    /// the transport's `send` of the FIRST transmission of every INVITE stays pending for this many ms after the bytes
    /// are on the wire (the socket reports the write as done late); `Initiator::send_invite` returns only then, the
    /// peer's gaps count from the moment the bytes are out, so a response with a cumulative gap below this value is
    /// handed to the endpoint while `send_invite` has not returned yet (0 / missing = `send` returns at once)
    #[serde(default)]
    pub send_pending: u64,
}

impl AppCase {
    fn lag_of(&self, fork: u8) -> u64 {
        self.early_lag.get(fork as usize).copied().unwrap_or(0)
    }
    /// one INVITE, plain tags, UDP, an application that polls everything continuously and gives up at the first error
    pub fn bare(responses: Vec<RespEv>, rng: u8) -> AppCase {
        AppCase {
            responses,
            rng,
            tags: 0,
            busy: vec![],
            reliable: false,
            early_lag: vec![],
            go_on_after_error: false,
            next: vec![],
            resend_after_finished: false,
            hold_terminated: false,
            send_pending: 0,
        }
    }
    /// the histories of all INVITEs, in the order they are sent
    fn histories(&self) -> Vec<&Vec<RespEv>> {
        std::iter::once(&self.responses).chain(self.next.iter()).collect()
    }
}

/// Spellings of the (up to 3) fork To-tags. Every family consists of three DIFFERENT tokens: To-tags are opaque and
/// compared byte-wise, so each is its own fork. `%` is left out (percent-decoding of header parameters is the open
/// finding of C09/C11).
pub const TAG_FAMILIES: &[(&str, [&str; 3])] = &[
    ("plain", ["t0", "t1", "t2"]),
    ("case-variants", ["7aF3", "7AF3", "7af3"]),
    ("prefix-of-each-other", ["ab", "abc", "a"]),
    ("one-punctuation-char", ["x.1-a_b", "x.1-a!b", "x.1-a~b"]),
    ("long-last-char-differs", ["0123456789abcdef0123456789abcdef0123456a", "0123456789abcdef0123456789abcdef0123456b", "0123456789abcdef0123456789abcdef0123456c"]),
    ("numeric-lookalike", ["1", "01", "1.0"]),
];

pub fn tag_text(family: u8, idx: u8) -> String {
    let f = &TAG_FAMILIES[(family as usize).min(TAG_FAMILIES.len() - 1)].1;
    f[(idx as usize).min(2)].to_string()
}

const CODES: &[u16] = &[100, 180, 183, 199, 200, 202, 300, 404, 486, 603];

/// what kind of peer the responses of a history come from
#[derive(Clone, Copy, PartialEq)]
enum Flavour {
    /// everything uniformly
    General,
    /// the responses of a fork that keeps talking: mostly fork 0, mostly 101-199, short gaps
    Chatty,
    /// a peer that often leaves the Contact out of its responses (or sends one that cannot be parsed): mostly forks 0
    /// and 1, mostly 101-299, so that responses of the same fork follow a Contact-less one
    Shaky,
    /// what precedes the failure of an INVITE that is going to be sent again: mostly 101-199 with a To-tag, short gaps
    Prelude,
}

/// a Contact header that cannot be parsed (RespEv.contact = false + this line in `extra`)
const MALFORMED_CONTACT: &str = "Contact: <sip:";

fn resp_strategy(flavour: Flavour) -> BoxedStrategy<RespEv> {
    let gap = match flavour {
        Flavour::Chatty => prop_oneof![Just(1u64), Just(1u64), Just(1u64), Just(20u64), Just(450u64)].boxed(),
        Flavour::Prelude => prop_oneof![Just(1u64), Just(1u64), Just(20u64), Just(450u64)].boxed(),
        _ => prop_oneof![Just(1u64), Just(1u64), Just(20u64), Just(450u64), Just(700u64), Just(31_000u64)].boxed(),
    };
    let sel = |s: BoxedStrategy<u16>| s.prop_map(|i| (i as u32 * 65536 / CODES.len() as u32 + 1) as u16).boxed();
    // selector into CODES: uniform, or weighted towards the provisional ones
    let csel = match flavour {
        Flavour::Chatty => sel(prop_oneof![
            1 => Just(0u16),                                       // 100
            9 => prop_oneof![Just(1u16), Just(2u16), Just(3u16)], // 180 183 199
            2 => prop_oneof![Just(4u16), Just(5u16)],             // 200 202
            1 => prop_oneof![Just(6u16), Just(7u16), Just(8u16), Just(9u16)],
        ]
        .boxed()),
        Flavour::Shaky => sel(prop_oneof![
            1 => Just(0u16),
            6 => prop_oneof![Just(1u16), Just(2u16), Just(3u16)],
            4 => prop_oneof![Just(4u16), Just(5u16)],
            1 => prop_oneof![Just(6u16), Just(7u16), Just(8u16), Just(9u16)],
        ]
        .boxed()),
        Flavour::Prelude => sel(prop_oneof![1 => Just(0u16), 8 => prop_oneof![Just(1u16), Just(2u16), Just(3u16)]].boxed()),
        Flavour::General => any::<u16>().boxed(),
    };
    let tag = match flavour {
        Flavour::Chatty => prop_oneof![1 => Just(None), 8 => Just(Some(0u8)), 2 => Just(Some(1u8)), 1 => Just(Some(2u8))].boxed(),
        Flavour::Shaky => prop_oneof![1 => Just(None), 6 => Just(Some(0u8)), 3 => Just(Some(1u8)), 1 => Just(Some(2u8))].boxed(),
        Flavour::Prelude => prop_oneof![1 => Just(None), 5 => Just(Some(0u8)), 3 => Just(Some(1u8)), 1 => Just(Some(2u8))].boxed(),
        Flavour::General => prop_oneof![1 => Just(None), 8 => (0u8..3).prop_map(Some)].boxed(),
    };
    // Contact: present / absent / present but unparsable
    let contact = match flavour {
        Flavour::Shaky => prop_oneof![11 => Just((true, false)), 7 => Just((false, false)), 2 => Just((false, true))].boxed(),
        _ => prop_oneof![93 => Just((true, false)), 6 => Just((false, false)), 1 => Just((false, true))].boxed(),
    };
    (
        gap,
        csel,
        tag,
        contact,
        0u8..4,
        any::<bool>(),
        any::<bool>(),
        prop::bool::weighted(0.3),
        prop_oneof![3 => Just(None), 1 => Just(Some(1800u32)), 1 => Just(Some(90u32))],
    )
        .prop_map(|(gap, csel, tag, (contact, malformed), record_routes, supported_timer, supported_100rel, rseq, session_expires)| RespEv {
            gap,
            code: CODES[pick_idx(csel, CODES.len())],
            tag,
            contact,
            record_routes,
            supported_timer,
            supported_100rel,
            rseq,
            session_expires,
            extra: if malformed { vec![MALFORMED_CONTACT.to_string()] } else { vec![] },
        })
        .boxed()
}

/// the 3xx-6xx that ends an INVITE which is going to be sent again
fn failure_strategy() -> BoxedStrategy<RespEv> {
    (
        prop_oneof![Just(1u64), Just(20u64), Just(450u64), Just(700u64)],
        prop_oneof![Just(300u16), Just(404u16), Just(486u16), Just(603u16)],
        prop_oneof![1 => Just(None), 2 => (0u8..3).prop_map(Some)],
        any::<bool>(),
    )
        .prop_map(|(gap, code, tag, contact)| RespEv {
            gap,
            code,
            tag,
            contact,
            record_routes: 0,
            supported_timer: false,
            supported_100rel: false,
            rseq: false,
            session_expires: None,
            extra: vec![],
        })
        .boxed()
}

/// how long the application is busy after being handed a response: not at all, a few ms, around T1, seconds, just
/// below / above / well above 64*T1
fn busy_strategy() -> BoxedStrategy<u64> {
    prop_oneof![
        6 => Just(0u64),
        1 => Just(3u64),
        1 => Just(40u64),
        1 => Just(600u64),
        1 => Just(2_530u64),
        1 => Just(31_600u64),
        2 => Just(33_010u64),
        1 => Just(40_020u64),
    ]
    .boxed()
}

/// how long the application takes to get around to an `Early` it was handed: not at all, a few ms, around T1,
/// seconds, longer than 64*T1, longer than two of them (never on a timer instant of the transaction)
fn lag_strategy() -> BoxedStrategy<u64> {
    prop_oneof![
        3 => Just(0u64),
        1 => Just(7u64),
        1 => Just(613u64),
        1 => Just(2_537u64),
        2 => Just(33_017u64),
        1 => Just(70_003u64),
    ]
    .boxed()
}

fn family_strategy() -> BoxedStrategy<u8> {
    // tag spelling: plain 4/9, every other family 1/9
    prop_oneof![4 => Just(0u8), 1 => Just(1u8), 1 => Just(2u8), 1 => Just(3u8), 1 => Just(4u8), 1 => Just(5u8)].boxed()
}

pub fn strategy() -> BoxedStrategy<AppCase> {
    let one_invite = |flavour: Flavour, len: std::ops::Range<usize>| {
        (
            prop::collection::vec((resp_strategy(flavour), busy_strategy()), len),
            any::<u8>(),
            family_strategy(),
            // half of the cases: the application polls the initiator continuously
            any::<bool>(),
            // a third over a reliable transport
            prop::bool::weighted(0.33),
            // a third with Early objects the application gets around to late
            prop_oneof![2 => Just(vec![]), 1 => prop::collection::vec(lag_strategy(), 3)],
            // most applications go on polling after an error
            prop::bool::weighted(0.85),
        )
            .prop_map(|(evs, rng, tags, lazy, reliable, early_lag, go_on_after_error)| {
                let (responses, mut busy): (Vec<RespEv>, Vec<u64>) = evs.into_iter().unzip();
                if !lazy {
                    busy.clear();
                }
                AppCase { tags, busy, reliable, early_lag, go_on_after_error, ..AppCase::bare(responses, rng) }
            })
    };
    let general = one_invite(Flavour::General, 1..11);
    // a peer that leaves the Contact out of many responses: dialog-creating responses that are rejected, followed by
    // responses of the same fork
    let shaky = one_invite(Flavour::Shaky, 2..9);
    // a fork that keeps talking (6..14 responses, mostly 101-199 of fork 0 at short gaps) while the application has
    // not got around to its Early yet: many events pile up for one early dialog
    let chatty = (
        prop::collection::vec((resp_strategy(Flavour::Chatty), busy_strategy()), 6..15),
        any::<u8>(),
        family_strategy(),
        prop::bool::weighted(0.25),
        prop::bool::weighted(0.33),
        (prop_oneof![Just(613u64), Just(2_537u64), Just(33_017u64), Just(33_017u64), Just(70_003u64)], lag_strategy(), lag_strategy()),
        prop::bool::weighted(0.85),
    )
        .prop_map(|(evs, rng, tags, lazy, reliable, (l0, l1, l2), go_on_after_error)| {
            let (responses, mut busy): (Vec<RespEv>, Vec<u64>) = evs.into_iter().unzip();
            if !lazy {
                busy.clear();
            }
            AppCase { tags, busy, reliable, early_lag: vec![l0, l1, l2], go_on_after_error, ..AppCase::bare(responses, rng) }
        });
    // the INVITE fails once or twice (0..3 responses, mostly 101-199 with a To-tag, then a 3xx-6xx, now and then a
    // straggler behind it) and is sent again through the same Initiator; the last INVITE gets a general / shaky history
    let failed_attempt = (
        prop::collection::vec((resp_strategy(Flavour::Prelude), busy_strategy()), 0..4),
        (failure_strategy(), busy_strategy()),
        prop_oneof![9 => Just(None), 1 => (resp_strategy(Flavour::Prelude), busy_strategy()).prop_map(Some)],
    )
        .prop_map(|(mut evs, failure, straggler)| {
            evs.push(failure);
            evs.extend(straggler);
            evs
        });
    let retry = (
        prop::collection::vec(failed_attempt, 1..3),
        prop_oneof![
            2 => prop::collection::vec((resp_strategy(Flavour::General), busy_strategy()), 1..7),
            1 => prop::collection::vec((resp_strategy(Flavour::Shaky), busy_strategy()), 1..7),
        ],
        (any::<u8>(), family_strategy(), any::<bool>(), prop::bool::weighted(0.33)),
        prop_oneof![2 => Just(vec![]), 1 => prop::collection::vec(lag_strategy(), 3)],
        (prop::bool::weighted(0.85), prop::bool::weighted(0.3), prop::bool::weighted(0.4)),
    )
        .prop_map(|(failed, last, (rng, tags, lazy, reliable), early_lag, (go_on_after_error, resend_after_finished, hold_terminated))| {
            let mut busy = vec![];
            let mut histories: Vec<Vec<RespEv>> = vec![];
            for h in failed.into_iter().chain(std::iter::once(last)) {
                let (r, b): (Vec<RespEv>, Vec<u64>) = h.into_iter().unzip();
                histories.push(r);
                busy.extend(b);
            }
            if !lazy {
                busy.clear();
            }
            let first = histories.remove(0);
            AppCase { tags, busy, reliable, early_lag, go_on_after_error, next: histories, resend_after_finished, hold_terminated, ..AppCase::bare(first, rng) }
        });
    // 40 % of the cases over a transport whose `send` of an INVITE stays pending while the peer already answers
    (prop_oneof![6 => general, 2 => chatty, 2 => shaky, 5 => retry], send_pending_strategy())
        .prop_map(|(mut c, send_pending)| {
            c.send_pending = send_pending;
            c
        })
        .boxed()
}

/// how long the transport's `send` of an INVITE stays pending after the bytes are out: not at all, or longer than one
/// / two / three / four of the peer's shortest gaps (1, 20, 450, 700 ms)
fn send_pending_strategy() -> BoxedStrategy<u64> {
    prop_oneof![6 => Just(0u64), 1 => Just(2u64), 1 => Just(30u64), 1 => Just(470u64), 1 => Just(1_203u64)].boxed()
}

/// The peer answers while the transport's `send` of the INVITE is still pending (`send_invite` has not returned):
/// every history of length <= 3 (thorough 4) over the reduced alphabet (arrivals 1, 21, 22, 42 ms after the INVITE is
/// out) x 4 variants: send pending 2 ms (the first response arrives meanwhile) / 30 ms (the first three) on UDP, 30 ms
/// on a reliable transport, 470 ms (all of them) on a reliable transport with an application that is busy 600 ms
/// after every response.
pub fn during_send_cases(tier: Tier) -> Vec<AppCase> {
    let max_len = tier.pick(3usize, 4usize);
    let mut out = vec![];
    for c in histories(max_len) {
        let n = c.responses.len();
        for (send_pending, reliable, busy) in [(2u64, false, vec![]), (30, false, vec![]), (30, true, vec![]), (470, true, vec![600u64; n])] {
            out.push(AppCase { send_pending, reliable, busy, go_on_after_error: true, ..AppCase::bare(c.responses.clone(), c.rng) });
        }
    }
    out
}

/// the reduced alphabet: codes 100,180,200,486 x tags none,#0,#1 (a 100 has no tag), every response with Contact
fn alphabet() -> Vec<(u16, Option<u8>, bool)> {
    let mut alphabet = vec![];
    for c in [100u16, 180, 200, 486] {
        for t in [None, Some(0u8), Some(1u8)] {
            if c == 100 && t.is_some() {
                continue;
            }
            alphabet.push((c, t, true));
        }
    }
    alphabet
}

/// a response of the enumerated sub-checks: `i` = its position (decides gap and number of Record-Routes)
fn plain_ev(i: usize, code: u16, tag: Option<u8>, contact: bool) -> RespEv {
    RespEv {
        gap: if i % 2 == 0 { 1 } else { 20 },
        code,
        tag,
        contact,
        record_routes: (i % 3) as u8,
        supported_timer: false,
        supported_100rel: false,
        rseq: false,
        session_expires: None,
        extra: vec![],
    }
}

/// every history of length 1..=max_len over the reduced alphabet
fn histories(max_len: usize) -> Vec<Case> {
    histories_over(&alphabet(), max_len)
}

/// every history of length 1..=max_len over `alphabet` = (code, tag, with Contact)
fn histories_over(alphabet: &[(u16, Option<u8>, bool)], max_len: usize) -> Vec<Case> {
    let mut out = vec![];
    let mut stack: Vec<Vec<usize>> = vec![vec![]];
    while let Some(cur) = stack.pop() {
        if !cur.is_empty() {
            out.push(Case {
                responses: cur.iter().enumerate().map(|(i, a)| plain_ev(i, alphabet[*a].0, alphabet[*a].1, alphabet[*a].2)).collect(),
                rng: cur.len() as u8,
            });
        }
        if cur.len() < max_len {
            for a in 0..alphabet.len() {
                let mut n = cur.clone();
                n.push(a);
                stack.push(n);
            }
        }
    }
    out
}

/// plain tags, continuous polling
pub fn exhaustive_cases(tier: Tier) -> Vec<AppCase> {
    histories(tier.pick(4usize, 5usize))
        .into_iter()
        .map(|c| AppCase::bare(c.responses, c.rng))
        .collect()
}

/// the same alphabet one step shorter, under each tag-spelling / polling / transport variant
pub fn variant_cases(tier: Tier) -> Vec<AppCase> {
    let max_len = tier.pick(3usize, 4usize);
    let mut out = vec![];
    for c in histories(max_len) {
        let n = c.responses.len();
        let only = |k: usize, b: u64| (0..n).map(|i| if i == k { b } else { 0 }).collect::<Vec<u64>>();
        // (tag family, busy, reliable, early_lag)
        let variants: Vec<(u8, Vec<u64>, bool, Vec<u64>)> = vec![
            (1, vec![], false, vec![]),
            (2, vec![], false, vec![]),
            (0, vec![33_010; n], false, vec![]),
            (0, vec![600; n], false, vec![]),
            (0, only(0, 33_010), false, vec![]),
            (0, only(1, 33_010), false, vec![]),
            (0, vec![], true, vec![]),
            (0, vec![], false, vec![33_017; 3]),
            (0, vec![600; n], true, vec![613; 3]),
        ];
        for (tags, busy, reliable, early_lag) in variants {
            out.push(AppCase { tags, busy, reliable, early_lag, ..AppCase::bare(c.responses.clone(), c.rng) });
        }
    }
    out
}

/// One fork (#0) keeps talking while the application has not got around to its `Early`: 180 of fork 0, then k further
/// 101-199 of fork 0, then one of several endings; x the lag until the `Early` objects are polled x the gaps x the
/// transport. k runs past every plausible size of the queue between initiator and early dialog.
pub fn lazy_early_cases(tier: Tier) -> Vec<AppCase> {
    let max_k = tier.pick(8usize, 12usize);
    let ev = |gap: u64, code: u16, tag: Option<u8>, i: usize| RespEv {
        gap,
        code,
        tag,
        contact: true,
        record_routes: (i % 3) as u8,
        supported_timer: false,
        supported_100rel: false,
        rseq: false,
        session_expires: None,
        extra: vec![],
    };
    let endings: Vec<Vec<(u16, Option<u8>)>> = vec![
        vec![],
        vec![(200, Some(0))],
        vec![(200, Some(1))],
        vec![(486, None)],
        vec![(180, Some(1)), (200, Some(1)), (200, Some(0))],
        vec![(200, Some(0)), (200, Some(0))],
        vec![(183, Some(1)), (180, Some(1)), (603, Some(1))],
    ];
    let lags: Vec<Vec<u64>> = vec![vec![613; 3], vec![33_017; 3], vec![70_003; 3], vec![33_017, 0, 0], vec![7, 2_537, 0]];
    let mut out = vec![];
    for k in 0..=max_k {
        for (ei, ending) in endings.iter().enumerate() {
            for (li, lag) in lags.iter().enumerate() {
                for gap in [1u64, 450] {
                    for reliable in [false, true] {
                        if tier == Tier::Quick && reliable && gap == 450 && li >= 3 {
                            continue;
                        }
                        let mut seq: Vec<(u16, Option<u8>)> = vec![(180, Some(0))];
                        for j in 0..k {
                            seq.push(([183u16, 180, 199][j % 3], Some(0)));
                        }
                        seq.extend(ending.iter().cloned());
                        let responses = seq.iter().enumerate().map(|(i, (c, t))| ev(gap, *c, *t, i)).collect();
                        out.push(AppCase { reliable, early_lag: lag.clone(), ..AppCase::bare(responses, (k * 7 + ei * 3 + li) as u8) });
                    }
                }
            }
        }
    }
    out
}

/// The INVITE fails and the application sends it again through the same `Initiator`: first INVITE = one of 6 preludes
/// (nothing / 180 of fork 0 / 180 of fork 1 / 180 of both / 180+183 of fork 0 / 100) + a failure (486 without tag / 404
/// of fork 0); the second INVITE gets every history of length <= 2 (thorough 3) over the reduced alphabet (the UAS
/// re-uses its To-tags); x 5 application variants (resend at once / after `Finished`; terminated `Early` dropped /
/// kept; every `Early` polled 33 s late; reliable transport + 600 ms busy after every response). Plus two failed
/// INVITEs in a row before it.
pub fn retry_cases(tier: Tier) -> Vec<AppCase> {
    let max_len = tier.pick(2usize, 3usize);
    let preludes: Vec<Vec<(u16, Option<u8>)>> = vec![
        vec![],
        vec![(180, Some(0))],
        vec![(180, Some(1))],
        vec![(180, Some(0)), (180, Some(1))],
        vec![(180, Some(0)), (183, Some(0))],
        vec![(100, None)],
    ];
    let failures: [(u16, Option<u8>); 2] = [(486, None), (404, Some(0))];
    let build = |seq: &[(u16, Option<u8>)]| seq.iter().enumerate().map(|(i, (c, t))| plain_ev(i, *c, *t, true)).collect::<Vec<RespEv>>();
    let mut out = vec![];
    for last in histories(max_len) {
        for (pi, prelude) in preludes.iter().enumerate() {
            for (fi, failure) in failures.iter().enumerate() {
                let mut first = prelude.clone();
                first.push(*failure);
                let n = first.len() + last.responses.len();
                // (resend after Finished, hold terminated, reliable, early_lag, busy, send of every INVITE pending)
                let variants: Vec<(bool, bool, bool, Vec<u64>, Vec<u64>, u64)> = vec![
                    (false, false, false, vec![], vec![], 0),
                    (false, true, false, vec![], vec![], 0),
                    (true, false, false, vec![], vec![], 0),
                    (false, false, false, vec![33_017; 3], vec![], 0),
                    (false, true, true, vec![], vec![600; n], 0),
                    (false, false, pi % 2 == 1, vec![], vec![], 30),
                ];
                for (resend_after_finished, hold_terminated, reliable, early_lag, busy, send_pending) in variants {
                    out.push(AppCase {
                        busy,
                        reliable,
                        early_lag,
                        send_pending,
                        go_on_after_error: true,
                        next: vec![last.responses.clone()],
                        resend_after_finished,
                        hold_terminated,
                        ..AppCase::bare(build(&first), (pi * 5 + fi * 3 + last.responses.len()) as u8)
                    });
                }
            }
        }
        // three INVITEs: the first two fail
        for hold_terminated in [false, true] {
            out.push(AppCase {
                go_on_after_error: true,
                next: vec![build(&[(180, Some(0)), (183, Some(0)), (404, Some(0))]), last.responses.clone()],
                resend_after_finished: hold_terminated,
                hold_terminated,
                ..AppCase::bare(build(&[(180, Some(0)), (486, None)]), last.responses.len() as u8 + 40)
            });
        }
    }
    out
}

/// A dialog-creating response of a new fork that cannot create the dialog (no Contact / unparsable Contact), then the
/// same fork goes on: one of 3 preludes (nothing / 100 / 180 of fork 1) + one of 3 such responses of fork 0 (180
/// without Contact, 183 with an unparsable Contact, 200 without Contact) + every continuation of length <= 2
/// (thorough 3) over the reduced alphabet extended by a Contact-less 180 of fork 0; x 3 application variants
/// (continuous / reliable + 600 ms busy / every Early polled 613 ms late). The application goes on after the error.
pub fn rejected_cases(tier: Tier) -> Vec<AppCase> {
    let max_len = tier.pick(2usize, 3usize);
    let mut alpha = alphabet();
    alpha.push((180, Some(0), false));
    let preludes: Vec<Vec<(u16, Option<u8>)>> = vec![vec![], vec![(100, None)], vec![(180, Some(1))]];
    // (code, malformed Contact instead of none)
    let rejected: [(u16, bool); 3] = [(180, false), (183, true), (200, false)];
    let mut out = vec![];
    for cont in histories_over(&alpha, max_len) {
        for (pi, prelude) in preludes.iter().enumerate() {
            for (ri, (code, malformed)) in rejected.iter().enumerate() {
                let mut responses: Vec<RespEv> = prelude.iter().enumerate().map(|(i, (c, t))| plain_ev(i, *c, *t, true)).collect();
                let mut rej = plain_ev(responses.len(), *code, Some(0), false);
                if *malformed {
                    rej.extra.push(MALFORMED_CONTACT.to_string());
                }
                responses.push(rej);
                let k = responses.len();
                responses.extend(cont.responses.iter().enumerate().map(|(i, r)| RespEv { ..plain_ev(k + i, r.code, r.tag, r.contact) }));
                let n = responses.len();
                let variants: Vec<(bool, Vec<u64>, Vec<u64>)> = vec![(false, vec![], vec![]), (true, vec![600; n], vec![]), (false, vec![], vec![613; 3])];
                for (reliable, busy, early_lag) in variants {
                    out.push(AppCase { busy, reliable, early_lag, go_on_after_error: true, ..AppCase::bare(responses.clone(), (pi * 3 + ri + n) as u8) });
                }
            }
        }
    }
    out
}

#[derive(Clone, Debug, PartialEq)]
pub struct DialogSummary {
    pub call_id: String,
    pub local_tag: String,
    pub peer_tag: String,
    pub target: String,
    pub routes: Vec<String>,
}

fn summarize(d: &Dialog) -> DialogSummary {
    DialogSummary {
        call_id: d.call_id.0.to_string(),
        local_tag: d.local_fromto.tag.as_ref().map(|t| t.to_string()).unwrap_or_default(),
        peer_tag: d.peer_fromto.tag.as_ref().map(|t| t.to_string()).unwrap_or_default(),
        target: d.peer_contact.uri.uri.default_print_ctx().to_string(),
        routes: d.route_set.iter().map(|r| r.uri.uri.default_print_ctx().to_string()).collect(),
    }
}

#[derive(Clone, Debug, PartialEq)]
pub enum Kind {
    Provisional,
    EarlyCreated,
    Session,
    Failure,
    Terminated,
    Finished,
    Error(String),
}

#[derive(Clone, Debug)]
pub struct Event {
    pub t_ms: u64,
    /// None = the initiator, Some(tag) = the early dialog created for that tag
    pub recipient: Option<String>,
    pub kind: Kind,
    pub marker: Option<String>,
    pub dialog: Option<DialogSummary>,
    /// which INVITE of the initiator (0 = the first): for the initiator the one it is polled for, for an early dialog
    /// the one it was created by
    pub attempt: usize,
}

fn marker_of(r: &sip_core::transaction::TsxResponse) -> Option<String> {
    r.headers
        .iter()
        .find(|(n, _)| n.as_print_str().eq_ignore_ascii_case("x-seq"))
        .map(|(_, v)| v.to_string())
}

type Log = Arc<Mutex<Vec<Event>>>;

/// what the application's tasks share
#[derive(Clone)]
struct App {
    clock: Clock,
    log: Log,
    sessions: Arc<Mutex<Vec<Session>>>,
    /// `Early` objects that reported `Terminated` and are kept (never polled again)
    held: Option<Arc<Mutex<Vec<Early>>>>,
    /// a session came out of the current INVITE
    got_session: Arc<std::sync::atomic::AtomicBool>,
}

async fn early_task(app: App, attempt: usize, tag: String, lag: u64, mut early: Early) {
    let App { clock, log, sessions, held, got_session } = app;
    // the application gets around to this early dialog only after `lag` ms, from then on it polls it continuously
    if lag > 0 {
        clock.advance(lag).await;
    }
    loop {
        match early.receive().await {
            Ok(EarlyResponse::Provisional(r, _)) => log.lock().push(Event {
                t_ms: clock.now_ms(),
                recipient: Some(tag.clone()),
                kind: Kind::Provisional,
                marker: marker_of(&r),
                dialog: None,
                attempt,
            }),
            Ok(EarlyResponse::Success(session, r)) => {
                log.lock().push(Event {
                    t_ms: clock.now_ms(),
                    recipient: Some(tag.clone()),
                    kind: Kind::Session,
                    marker: marker_of(&r),
                    dialog: Some(summarize(&session.dialog)),
                    attempt,
                });
                got_session.store(true, std::sync::atomic::Ordering::SeqCst);
                sessions.lock().push(session);
                // the early dialog has become a session: the application lets go of it
                return;
            }
            Ok(EarlyResponse::Terminated) => {
                log.lock().push(Event {
                    t_ms: clock.now_ms(),
                    recipient: Some(tag.clone()),
                    kind: Kind::Terminated,
                    marker: None,
                    dialog: None,
                    attempt,
                });
                // a terminated Early must not be polled again; the application drops it or keeps the object around
                if let Some(held) = held {
                    held.lock().push(early);
                }
                return;
            }
            Err(e) => {
                log.lock().push(Event {
                    t_ms: clock.now_ms(),
                    recipient: Some(tag.clone()),
                    kind: Kind::Error(e.to_string()),
                    marker: None,
                    dialog: None,
                    attempt,
                });
                return;
            }
        }
    }
}

pub struct Observed {
    pub events: Vec<Event>,
    /// the first INVITE
    pub invite: Option<WireMsg>,
    /// every INVITE the initiator sent (retransmissions not counted): moment it went on the wire, message
    pub invites: Vec<(u64, WireMsg)>,
}

fn contact_of(i: usize) -> String {
    format!("sip:c{i}@192.0.2.1:5062")
}
fn routes_of(i: usize, n: u8) -> Vec<String> {
    (0..n).map(|k| format!("p{i}x{k}.example.com")).collect()
}

/// the INVITE transactions on the wire: first transmission of every distinct Via branch
fn invites_on(log: &WireLog) -> Vec<(u64, WireMsg)> {
    let mut seen: BTreeSet<String> = BTreeSet::new();
    let mut out = vec![];
    for (s, m) in log.parsed() {
        let Some(m) = m else { continue };
        if m.is_request() && m.method() == Some("INVITE") && seen.insert(m.via_branch().unwrap_or_default()) {
            out.push((s.t_ms, m));
        }
    }
    out
}

/// A datagram transport writing to the world's wire log like `MockDatagram`, whose `send` of the FIRST transmission of
/// every INVITE transaction (a Via branch not seen before) stays pending for `pending_ms` of virtual time after the
/// bytes are out: the socket reports the write as done late, the peer already has the request. Retransmissions and
/// ACKs return at once (they are sent from inside `receive`; how long they take is the subject of C05, not of the
/// classification of responses).
struct PendingSendTp {
    name: &'static str,
    reliable: bool,
    bound: SocketAddr,
    log: WireLog,
    pending_ms: u64,
    seen: Mutex<BTreeSet<String>>,
}

impl std::fmt::Debug for PendingSendTp {
    fn fmt(&self, f: &mut std::fmt::Formatter<'_>) -> std::fmt::Result {
        write!(f, "PendingSendTp({} {})", self.name, self.bound)
    }
}
impl std::fmt::Display for PendingSendTp {
    fn fmt(&self, f: &mut std::fmt::Formatter<'_>) -> std::fmt::Result {
        write!(f, "mock:{}:{}", self.name, self.bound)
    }
}

#[async_trait::async_trait]
impl sip_core::transport::Transport for PendingSendTp {
    fn name(&self) -> &'static str {
        self.name
    }
    fn secure(&self) -> bool {
        false
    }
    fn reliable(&self) -> bool {
        self.reliable
    }
    fn bound(&self) -> SocketAddr {
        self.bound
    }
    fn sent_by(&self) -> SocketAddr {
        self.bound
    }
    fn direction(&self) -> sip_core::transport::Direction {
        sip_core::transport::Direction::None
    }
    async fn send(&self, message: &[u8], target: SocketAddr) -> std::io::Result<()> {
        let first_of_invite = WireMsg::parse(message).map_or(false, |m| {
            m.is_request() && m.method() == Some("INVITE") && self.seen.lock().insert(m.via_branch().unwrap_or_default())
        });
        self.log.sent.lock().push(Sent { t_ms: self.log.clock.now_ms(), tp: 0xffff, dest: target, bytes: bytes::Bytes::copy_from_slice(message) });
        if first_of_invite && self.pending_ms > 0 {
            tokio::time::sleep(std::time::Duration::from_millis(self.pending_ms)).await;
        }
        Ok(())
    }
}

/// the peer's response number `i` (over all INVITEs of the case) to the INVITE `inv`
fn response_bytes(inv: &WireMsg, i: usize, r: &RespEv, family: u8) -> Vec<u8> {
    let mut extra = vec![format!("X-Seq: m{i}")];
    if r.contact {
        extra.push(format!("Contact: <{}>", contact_of(i)));
    }
    for h in routes_of(i, r.record_routes) {
        extra.push(format!("Record-Route: <sip:{h};lr>"));
    }
    let mut sup = vec![];
    if r.supported_timer {
        sup.push("timer");
    }
    if r.supported_100rel {
        sup.push("100rel");
    }
    if !sup.is_empty() {
        extra.push(format!("Supported: {}", sup.join(", ")));
    }
    if r.rseq && (101..200).contains(&r.code) {
        extra.push("Require: 100rel".into());
        extra.push(format!("RSeq: {}", 100 + i));
    }
    if let Some(se) = r.session_expires {
        if (200..300).contains(&r.code) {
            extra.push("Require: timer".into());
            extra.push(format!("Session-Expires: {se};refresher=uas"));
        }
    }
    extra.extend(r.extra.iter().cloned());
    let tag = r.tag.map(|t| tag_text(family, t));
    response_text(inv, r.code, tag.as_deref(), &extra)
}

/// the bare history: plain tags, an application that polls continuously (C02 uses this)
pub fn run(case: &Case) -> Observed {
    run_app(&AppCase::bare(case.responses.clone(), case.rng))
}

pub fn run_app(case: &AppCase) -> Observed {
    let case = case.clone();
    run_world(case.rng as u64, |clock| async move {
        let log = WireLog::new(clock);
        let name = if case.reliable { "TCP" } else { "UDP" };
        let tp = if case.send_pending > 0 {
            sip_core::transport::TpHandle::new(PendingSendTp {
                name,
                reliable: case.reliable,
                bound: "10.0.0.1:5060".parse().unwrap(),
                log: log.clone(),
                pending_ms: case.send_pending,
                seen: Default::default(),
            })
        } else {
            mock_datagram(&log, name, false, case.reliable, "10.0.0.1:5060").0
        };
        let mut b = offline_builder();
        b.add_unmanaged_transport(tp.clone());
        let dl = b.add_layer(DialogLayer::default());
        let il = b.add_layer(InviteLayer::default());
        let endpoint = b.build();
        let peer: SocketAddr = "192.0.2.1:5060".parse().unwrap();

        let local: SipUri = "sip:alice@example.org".parse().unwrap();
        let contact: SipUri = "sip:alice@10.0.0.1:5060".parse().unwrap();
        let target: SipUri = "sip:bob@192.0.2.1".parse().unwrap();
        let mut initiator = Initiator::new(
            endpoint.clone(),
            dl,
            il,
            NameAddr::uri(local),
            Contact::new(NameAddr::uri(contact)),
            Box::new(target),
        );
        let events: Log = Default::default();
        let sessions: Arc<Mutex<Vec<Session>>> = Default::default();
        let held: Arc<Mutex<Vec<Early>>> = Default::default();

        let histories: Vec<Vec<RespEv>> = case.histories().into_iter().cloned().collect();
        let n_total: usize = histories.iter().map(|h| h.len()).sum();
        // the application tells the peer's script that it is about to send the next INVITE (the peer sees it on the wire
        // and answers from then on, whether or not `send_invite` has returned)
        let (resent_tx, mut resent_rx) = tokio::sync::mpsc::unbounded_channel::<()>();

        {
            let app = App {
                clock,
                log: events.clone(),
                sessions: sessions.clone(),
                held: case.hold_terminated.then(|| held.clone()),
                got_session: Default::default(),
            };
            let events = events.clone();
            let sessions = sessions.clone();
            let busy = case.busy.clone();
            let lags: Vec<(String, u64)> = (0..3u8).map(|j| (tag_text(case.tags, j), case.lag_of(j))).collect();
            let further = case.next.len();
            let go_on_after_error = case.go_on_after_error;
            let resend_after_finished = case.resend_after_finished;
            tokio::spawn(async move {
                use std::sync::atomic::Ordering::SeqCst;
                let mut attempt = 0usize;
                // a 3xx-6xx was reported for the current INVITE
                let mut failed = false;
                let mut errors = 0usize;
                // the first INVITE; the peer's script runs while `send_invite` is pending
                let invite = initiator.create_invite();
                if let Err(e) = initiator.send_invite(invite).await {
                    events.lock().push(Event { t_ms: clock.now_ms(), recipient: None, kind: Kind::Error(format!("send: {e}")), marker: None, dialog: None, attempt: 0 });
                    std::future::pending::<()>().await;
                }
                loop {
                    let r = initiator.receive().await;
                    let t_ms = clock.now_ms();
                    let handed: Option<String>;
                    let mut finished = false;
                    match r {
                        Ok(Response::Provisional(r)) => {
                            handed = marker_of(&r);
                            events.lock().push(Event { t_ms, recipient: None, kind: Kind::Provisional, marker: marker_of(&r), dialog: None, attempt })
                        }
                        Ok(Response::Failure(r)) => {
                            handed = marker_of(&r);
                            failed = true;
                            events.lock().push(Event { t_ms, recipient: None, kind: Kind::Failure, marker: marker_of(&r), dialog: None, attempt })
                        }
                        Ok(Response::Early(early, r, _)) => {
                            handed = marker_of(&r);
                            let tag = r.base_headers.to.tag.as_ref().map(|t| t.to_string()).unwrap_or_default();
                            events.lock().push(Event { t_ms, recipient: None, kind: Kind::EarlyCreated, marker: marker_of(&r), dialog: None, attempt });
                            let lag = lags.iter().find(|(t, _)| *t == tag).map_or(0, |(_, l)| *l);
                            tokio::spawn(early_task(app.clone(), attempt, tag, lag, early));
                        }
                        Ok(Response::Session(session, r)) => {
                            handed = marker_of(&r);
                            events.lock().push(Event { t_ms, recipient: None, kind: Kind::Session, marker: marker_of(&r), dialog: Some(summarize(&session.dialog)), attempt });
                            app.got_session.store(true, SeqCst);
                            sessions.lock().push(session);
                        }
                        Ok(Response::Finished) => {
                            handed = None;
                            finished = true;
                            events.lock().push(Event { t_ms, recipient: None, kind: Kind::Finished, marker: None, dialog: None, attempt });
                        }
                        Err(e) => {
                            events.lock().push(Event { t_ms, recipient: None, kind: Kind::Error(e.to_string()), marker: None, dialog: None, attempt });
                            errors += 1;
                            // an application that goes on polls again at once (bounded: an initiator that keeps failing
                            // ends the application)
                            if go_on_after_error && errors <= n_total + 2 {
                                continue;
                            }
                            break;
                        }
                    }
                    // the application is busy with what it was handed before it gets back to the initiator
                    let b = handed
                        .and_then(|m| m.get(1..).and_then(|n| n.parse::<usize>().ok()))
                        .and_then(|i| busy.get(i).copied())
                        .unwrap_or(0);
                    if b > 0 {
                        clock.advance(b).await;
                    }
                    // the INVITE failed without yielding a session: the application sends it again through the same
                    // initiator, at once or after it has seen `Finished`
                    let resend = failed && attempt < further && !app.got_session.load(SeqCst) && (finished || !resend_after_finished);
                    if resend {
                        let invite = initiator.create_invite();
                        let _ = resent_tx.send(());
                        if let Err(e) = initiator.send_invite(invite).await {
                            events.lock().push(Event { t_ms: clock.now_ms(), recipient: None, kind: Kind::Error(format!("send: {e}")), marker: None, dialog: None, attempt });
                            break;
                        }
                        attempt += 1;
                        failed = false;
                    } else if finished {
                        break;
                    }
                }
                // keep the initiator alive until the world ends (early dialogs reference its channels)
                std::future::pending::<()>().await;
                drop(initiator);
            });
        }

        // every busy period / late Early delays the application by at most its own length
        let slack = case.busy.iter().sum::<u64>() + (case.early_lag.iter().sum::<u64>() + case.send_pending) * histories.len() as u64 + TIMEOUT + 5000;
        // the first INVITE is on the wire (its `send` may still be pending)
        settle().await;
        let invite_msg = log.snapshot().first().and_then(|s| WireMsg::parse(&s.bytes));
        if invite_msg.is_none() {
            return Observed { events: events.lock().clone(), invite: None, invites: vec![] };
        }
        let mut t = 0;
        let mut g = 0usize;
        for (k, hist) in histories.iter().enumerate() {
            if k > 0 {
                // the peer answers the next INVITE once it is out (never, if the application does not send one)
                match tokio::time::timeout(std::time::Duration::from_millis(slack), resent_rx.recv()).await {
                    Ok(Some(())) => {}
                    _ => break,
                }
                settle().await;
                t = clock.now_ms();
            }
            let Some((_, inv)) = invites_on(&log).into_iter().nth(k) else { break };
            for (j, r) in hist.iter().enumerate() {
                t += r.gap;
                clock.until(t).await;
                let bytes = response_bytes(&inv, g + j, r, case.tags);
                inject(&endpoint, &tp, peer, &bytes);
                settle().await;
            }
            g += hist.len();
        }
        clock.until(t + slack).await;
        settle().await;
        let evs = events.lock().clone();
        let invites = invites_on(&log);
        sessions.lock().clear();
        held.lock().clear();
        Observed { events: evs, invite: invite_msg, invites }
    })
}

pub fn check(case: &AppCase, out: &mut CaseOut) {
    let obs = run_app(case);
    if obs.invite.is_none() || obs.invites.is_empty() {
        out.fail("c13.harness/no-invite", format!("INVITE not sent: {:?}", obs.events));
        return;
    }
    // every response of the case in the order the peer sends them, with the INVITE (0 = first) it answers; the
    // position in this list is the number in the response's X-Seq marker and its index into `busy`
    let histories = case.histories();
    let all: Vec<(usize, &RespEv)> = histories.iter().enumerate().flat_map(|(k, h)| h.iter().map(move |r| (k, r))).collect();
    let tag_of = |r: &RespEv| r.tag.map(|x| tag_text(case.tags, x));
    let busy_of = |i: usize| case.busy.get(i).copied().unwrap_or(0);

    // ---- reference classifier ----
    // Moments are intervals [lo, hi]: while an `Early` has not been polled yet the initiator, forwarding a response to
    // it, may or may not have to wait for room in that early dialog's queue (until the application starts polling it
    // at the latest). How many events such a queue holds is not part of the statement, both readings are accepted.
    // Without late `Early` objects lo == hi everywhere.
    #[derive(Debug, Clone, PartialEq)]
    struct Want {
        marker: String,
        /// when the response is delivered: its arrival, or the application's next poll if that is later
        t: (u64, u64),
        recipient: Option<String>,
        kinds: Vec<Kind>, // admissible kinds
        optional: bool,
        idx: usize,
        /// the INVITE it answers (the recipient is the initiator polled for that INVITE / an early dialog created by it)
        attempt: usize,
        /// it waited in the transaction's queue while the application was busy
        queued: bool,
        /// it arrived inside the Accepted window but is polled only after the earliest reading of the 64*T1 deadline
        polled_after_deadline: bool,
        /// it was forwarded to an early dialog the application had not started to poll yet
        to_unpolled_early: bool,
        /// an earlier response of this INVITE with the same To-tag could not create its dialog (no usable Contact)
        after_rejected: bool,
        /// its To-tag had an early dialog in an earlier, failed INVITE of this initiator
        reused_tag: bool,
        /// it was handed to the endpoint while the transport's `send` of the INVITE it answers was still pending
        /// (`Initiator::send_invite` had not returned yet)
        during_send: bool,
    }
    /// how the reference saw an INVITE end
    struct AttemptEnd {
        /// first 2xx seen by the transaction: (arrival, latest moment the polling application made the transaction see it)
        accepted: Option<(u64, u64)>,
        /// transaction over (non-2xx final): index, time it was handed over
        ended: Option<(usize, u64)>,
        /// from when on the application is back inside Initiator::receive after the last response
        ready: (u64, u64),
        /// indices [first, first + len) are the responses to this INVITE
        first: usize,
        len: usize,
    }
    let mut want: Vec<Want> = vec![];
    let mut attempts_done: Vec<AttemptEnd> = vec![];
    // (INVITE, tag of the early dialog, when it gets Terminated)
    let mut expect_terminated: Vec<(usize, String, (u64, u64))> = vec![];
    let mut stop_at: Option<usize> = None; // classification result is not asserted from this index on
    let mut cut_t: Option<u64> = None; // ... i.e. from this moment on
    // tags that had an early dialog in an earlier (failed) INVITE
    let mut prev_early_tags: BTreeSet<String> = BTreeSet::new();
    // dialog-creating responses that cannot create the dialog: when `Initiator::receive` may report the error
    let mut rejected_at: Vec<(u64, u64)> = vec![];
    let mut dup_seen = false;
    let mut dup_markers: Vec<(String, &'static str)> = vec![];
    let mut busy_used = false;
    let mut late_early_used = false;
    let mut failure_with_unpolled_early = false;
    let mut after_first_2xx_asserted = false;
    let mut any_upgraded = false;
    let mut piled_max = 0usize;
    let mut resent_while_early_unpolled = false;
    // forwarding an event at moment `at` into the queue of the early dialog `tag`: -> (moment the initiator goes on,
    // moment the application gets the event out of the Early, was the Early not polled yet)
    let forward = |poll_start: &std::collections::BTreeMap<String, (u64, u64)>, tag: &str, at: (u64, u64)| -> ((u64, u64), (u64, u64), bool) {
        match poll_start.get(tag) {
            Some(&(s_lo, s_hi)) if at.0 < s_hi => ((at.0, at.1.max(s_hi)), (at.0.max(s_lo), at.1.max(s_hi)), true),
            _ => (at, at, false),
        }
    };
    let mut g = 0usize; // index of the first response to the current INVITE
    let mut prev_last_t = 0u64; // when the peer sent its last response to the previous INVITE
    for (k, hist) in histories.iter().enumerate() {
        // The peer answers INVITE k from the moment it is on the wire (observed in the wire log: WHEN the application
        // sends it is the application's business) or from its last response to the previous INVITE, if that is later
        let Some((t_sent, _)) = obs.invites.get(k) else { break };
        let mut t = (*t_sent).max(prev_last_t);
        // R: the moment from which the application is (again) inside Initiator::receive and the initiator is not waiting
        // for an early dialog
        // (`send_invite` returns when the transport's `send` is done; the application polls from then on)
        let sent_done = *t_sent + case.send_pending;
        let mut ready = (sent_done, sent_done);
        // a new INVITE: no To-tag is known, no early dialog exists (the failure terminated all of the previous INVITE)
        let mut early: BTreeSet<String> = BTreeSet::new(); // live early dialogs by tag
        let mut early_order: Vec<String> = vec![]; // ... in creation order
        // early dialogs the application gets around to late: tag -> the moment it starts polling the Early
        let mut poll_start: std::collections::BTreeMap<String, (u64, u64)> = Default::default();
        // events forwarded before the application started polling that Early if the initiator never had to wait (for the class labels only)
        let mut piled: std::collections::BTreeMap<String, usize> = Default::default();
        let mut upgraded: BTreeSet<String> = BTreeSet::new(); // tags whose early dialog became a session (early dropped)
        let mut direct_sessions: BTreeSet<String> = BTreeSet::new();
        let mut rejected_tags: BTreeSet<String> = BTreeSet::new(); // tags of responses that could not create their dialog
        let mut accepted: Option<(u64, u64)> = None;
        let mut ended: Option<(usize, u64)> = None;
        let mut gone = false; // Finished was certainly reported before this arrival
        if k > 0 {
            // (class label) Early objects of the previous INVITE the application has not even started to poll
            resent_while_early_unpolled |= expect_terminated.iter().any(|(a, _, at)| *a + 1 == k && at.1 > *t_sent);
        }
        'hist: for (j, r) in hist.iter().enumerate() {
            let i = g + j;
            t += r.gap;
            let marker = format!("m{i}");
            if ended.is_some() || gone {
                continue; // orphan: the transaction has ended
            }
            if let Some((fa, fd)) = accepted {
                if t + 3 >= fa + TIMEOUT {
                    // at / after the end of the Accepted state (in its earliest reading)
                    if ready.1.max(fd + TIMEOUT) + 3 < t {
                        // the application was inside receive() when the deadline (latest reading) passed: Finished is out
                        gone = true;
                        continue;
                    }
                    // around the deadline, or after it while the application has not polled yet: not asserted
                    stop_at = Some(i);
                    cut_t = Some(t.max(ready.0));
                    break 'hist;
                }
            }
            // FIFO: classified on arrival if the application is waiting in receive(), else at its next poll
            let d = (t.max(ready.0), t.max(ready.1));
            ready = d;
            let queued = d.1 > t;
            let polled_after_deadline = accepted.map_or(false, |(fa, _)| d.0 >= fa + TIMEOUT);
            let tag = tag_of(r);
            let after_rejected = tag.as_ref().map_or(false, |x| rejected_tags.contains(x));
            let reused_tag = tag.as_ref().map_or(false, |x| prev_early_tags.contains(x));
            let during_send = t < sent_done;
            let mk = |at: (u64, u64), recipient: Option<String>, kinds: Vec<Kind>, optional: bool, to_unpolled_early: bool| Want {
                marker: marker.clone(),
                t: at,
                recipient,
                kinds,
                optional,
                idx: i,
                attempt: k,
                queued,
                polled_after_deadline,
                to_unpolled_early,
                after_rejected,
                reused_tag,
                during_send,
            };
            let needs_dialog = (101..300).contains(&r.code) && tag.is_some();
            // handed = Initiator::receive returns this response to the application, which is then busy for busy[i]
            let mut handed = false;
            if r.code <= 100 {
                want.push(mk(d, None, vec![Kind::Provisional], false, false));
                handed = true;
                after_first_2xx_asserted |= accepted.is_some();
            } else if r.code >= 300 {
                if accepted.is_none() {
                    // every early dialog is told, in creation order; the initiator may have to wait for each not yet polled one
                    let mut at = d;
                    for e in &early_order {
                        if !early.contains(e) {
                            continue;
                        }
                        let (go_on, got, unpolled) = forward(&poll_start, e, at);
                        at = go_on;
                        failure_with_unpolled_early |= unpolled;
                        expect_terminated.push((k, e.clone(), got));
                    }
                    early.clear();
                    want.push(mk(at, None, vec![Kind::Failure], false, false));
                    ready = at;
                    ended = Some((i, at.1));
                    handed = true;
                } else {
                    // a non-2xx after a 2xx: what the initiator does with it is not asserted
                    want.push(mk(d, None, vec![Kind::Failure], true, false));
                    stop_at = Some(i + 1);
                    cut_t = Some(d.0);
                    break 'hist;
                }
            } else if tag.is_none() {
                // 1xx/2xx without To-tag: cannot create a dialog, ignored (the transaction still sees the 2xx)
                if (200..300).contains(&r.code) && accepted.is_none() {
                    accepted = Some((t, d.1));
                }
            } else if needs_dialog && !r.contact && !early.contains(tag.as_ref().unwrap()) {
                // A dialog-creating response without usable Contact is malformed: the dialog cannot be created. The
                // statement is silent about it; the reading in which the initiator reports an error (or ignores the
                // response) and creates NOTHING is followed as long as the application goes on polling: the To-tag
                // is then as unknown as before. Any other outcome (an early dialog / session was handed out all the
                // same, the tag already has its session, the application gives up): nothing is asserted from here on.
                let tag = tag.unwrap();
                let created_anyway = obs.events.iter().any(|e| e.marker.as_deref() == Some(marker.as_str()) && matches!(e.kind, Kind::EarlyCreated | Kind::Session));
                if !case.go_on_after_error || created_anyway || upgraded.contains(&tag) || direct_sessions.contains(&tag) {
                    stop_at = Some(i);
                    cut_t = Some(d.0);
                    break 'hist;
                }
                if (200..300).contains(&r.code) && accepted.is_none() {
                    accepted = Some((t, d.1)); // the transaction has seen it
                }
                rejected_at.push(d);
                rejected_tags.insert(tag);
            } else {
                let tag = tag.unwrap();
                let was_accepted = accepted.is_some();
                if (200..300).contains(&r.code) && accepted.is_none() {
                    accepted = Some((t, d.1));
                }
                if early.contains(&tag) {
                    // forwarded inside receive(): the application is not handed anything
                    let (go_on, got, unpolled) = forward(&poll_start, &tag, d);
                    ready = go_on;
                    if unpolled && d.0 < poll_start[&tag].0 {
                        *piled.entry(tag.clone()).or_default() += 1;
                    }
                    after_first_2xx_asserted |= was_accepted;
                    if r.code < 200 {
                        want.push(mk(got, Some(tag.clone()), vec![Kind::Provisional], false, unpolled));
                    } else {
                        want.push(mk(got, Some(tag.clone()), vec![Kind::Session], false, unpolled));
                        early.remove(&tag);
                        upgraded.insert(tag);
                        any_upgraded = true;
                    }
                } else if upgraded.contains(&tag) || direct_sessions.contains(&tag) {
                    // a response for a tag that already has its session (retransmitted 2xx, late 18x):
                    // what the application sees is not asserted, only that nothing breaks
                    dup_seen = true;
                    dup_markers.push((marker.clone(), if upgraded.contains(&tag) { "after-early-upgrade" } else { "direct" }));
                    // It may go into the queue of an Early the application has not started to poll: the one whose session
                    // it has not taken out yet, or one that an earlier such 18x got created for this tag (created or not
                    // is not asserted; if it was, the application gets around to it as late as to any Early of that fork)
                    let mut at = d;
                    if poll_start.contains_key(&tag) {
                        let (go_on, got, _) = forward(&poll_start, &tag, d);
                        ready = go_on;
                        at = (d.0, got.1);
                    } else if r.code < 200 && !upgraded.contains(&tag) {
                        let lag = r.tag.map_or(0, |j| case.lag_of(j));
                        if lag > 0 {
                            poll_start.insert(tag.clone(), (d.0 + lag, d.1 + lag));
                        }
                    }
                    want.push(mk(at, None, vec![Kind::Session, Kind::EarlyCreated, Kind::Provisional], true, false));
                    if busy_of(i) > 0 {
                        // handed to the application or not: from here on the reference does not know when it polls
                        stop_at = Some(i + 1);
                        cut_t = Some(d.0);
                        break 'hist;
                    }
                } else if r.code < 200 {
                    want.push(mk(d, None, vec![Kind::EarlyCreated], false, false));
                    let lag = r.tag.map_or(0, |j| case.lag_of(j));
                    if lag > 0 {
                        poll_start.insert(tag.clone(), (d.0 + lag, d.1 + lag));
                        late_early_used = true;
                    }
                    early_order.push(tag.clone());
                    early.insert(tag);
                    handed = true;
                    after_first_2xx_asserted |= was_accepted;
                } else {
                    want.push(mk(d, None, vec![Kind::Session], false, false));
                    direct_sessions.insert(tag);
                    handed = true;
                    after_first_2xx_asserted |= was_accepted;
                }
            }
            if handed && busy_of(i) > 0 {
                ready = (ready.0 + busy_of(i), ready.1 + busy_of(i));
                busy_used = true;
            }
        }
        piled_max = piled_max.max(piled.values().max().copied().unwrap_or(0));
        prev_early_tags.extend(early_order.iter().cloned());
        attempts_done.push(AttemptEnd { accepted, ended, ready, first: g, len: hist.len() });
        // the application sends the INVITE again only after it was told the failure of this one
        if stop_at.is_some() || ended.is_none() {
            break;
        }
        g += hist.len();
        prev_last_t = t;
    }
    let asserted = |idx: usize| stop_at.map_or(true, |s| idx < s);
    let is_asserted_want = |w: &Want| asserted(w.idx) && !w.optional;

    // ---- classes ----
    let tags: BTreeSet<_> = all.iter().filter_map(|(_, r)| r.tag).collect();
    if tags.len() >= 2 {
        out.class("forked(>=2 tags)");
        out.class(match case.tags {
            0 => "fork-tags:plain",
            1 => "fork-tags:differ-only-in-case",
            2 => "fork-tags:prefix-of-each-other",
            3 => "fork-tags:one-punctuation-char-differs",
            4 => "fork-tags:long-last-char-differs",
            _ => "fork-tags:numeric-lookalike",
        });
    }
    let upgrade = any_upgraded;
    if upgrade {
        out.class("2xx-after-18x-same-tag");
    }
    if dup_seen {
        out.class("response-for-tag-with-session");
    }
    if !expect_terminated.is_empty() {
        out.class("failure-terminates-early-dialogs");
    }
    if stop_at.is_some() {
        out.class("unasserted-tail");
    }
    if busy_used {
        out.class("application-busy-between-polls");
    }
    let queued_any = want.iter().any(|w| w.queued && asserted(w.idx));
    if queued_any {
        out.class("response-queued-while-application-busy");
    }
    if want.iter().any(|w| w.queued && asserted(w.idx) && w.recipient.is_some()) {
        out.class("queued-response-forwarded-to-early-dialog");
    }
    if want.iter().any(|w| w.polled_after_deadline && asserted(w.idx)) {
        out.class("arrived-inside-accepted-window-polled-after-64T1");
    }
    if let Some((fa, fd)) = attempts_done.last().and_then(|a| a.accepted) {
        if fd > fa {
            out.class("first-2xx-queued-while-application-busy");
        }
    }
    if case.reliable {
        out.class("reliable-transport");
        if after_first_2xx_asserted {
            out.class("reliable-transport:asserted-response-after-first-2xx");
        }
    }
    if after_first_2xx_asserted {
        out.class("asserted-response-after-first-2xx");
    }
    if late_early_used {
        out.class("early-dialog-polled-late");
    }
    let to_unpolled_any = want.iter().any(|w| w.to_unpolled_early && asserted(w.idx));
    if to_unpolled_any {
        out.class("response-forwarded-to-early-dialog-not-yet-polled");
    }
    if want.iter().any(|w| w.to_unpolled_early && asserted(w.idx) && w.kinds[0] == Kind::Session) {
        out.class("2xx-forwarded-to-early-dialog-not-yet-polled");
    }
    match piled_max {
        0 => {}
        1..=2 => out.class("events-piled-up-for-unpolled-early-dialog:1-2"),
        3..=4 => out.class("events-piled-up-for-unpolled-early-dialog:3-4"),
        5..=6 => out.class("events-piled-up-for-unpolled-early-dialog:5-6"),
        _ => out.class("events-piled-up-for-unpolled-early-dialog:7+"),
    }
    if failure_with_unpolled_early {
        out.class("failure-while-early-dialog-not-yet-polled");
    }
    if want.iter().any(|w| asserted(w.idx) && w.t.0 != w.t.1) {
        out.class("delivery-moment-depends-on-early-dialog-queue(interval-accepted)");
    }
    // -- the transport's send of the INVITE returns late, the peer answers meanwhile
    if case.send_pending > 0 {
        out.class("send-of-invite-stays-pending");
    }
    let during_send_any = want.iter().any(|w| w.during_send && is_asserted_want(w));
    {
        let mut cl: BTreeSet<&'static str> = BTreeSet::new();
        for w in want.iter().filter(|w| w.during_send && is_asserted_want(w)) {
            cl.insert(match w.kinds[0] {
                Kind::Provisional if w.recipient.is_some() => "response-arrived-while-send-of-invite-pending:18x-forwarded-to-early-dialog",
                Kind::Provisional => "response-arrived-while-send-of-invite-pending:100",
                Kind::EarlyCreated => "response-arrived-while-send-of-invite-pending:18x-creates-early-dialog",
                Kind::Session if w.recipient.is_some() => "response-arrived-while-send-of-invite-pending:2xx-through-early-dialog",
                Kind::Session => "response-arrived-while-send-of-invite-pending:2xx-creates-session",
                _ => "response-arrived-while-send-of-invite-pending:failure",
            });
            if w.attempt > 0 {
                cl.insert("response-arrived-while-send-of-invite-pending:re-sent-invite");
            }
        }
        if during_send_any {
            out.class("response-arrived-while-send-of-invite-pending");
            if want.iter().filter(|w| w.during_send && is_asserted_want(w)).count() >= 2 {
                out.class("response-arrived-while-send-of-invite-pending:2-or-more");
            }
            out.class(if case.reliable { "response-arrived-while-send-of-invite-pending:reliable-transport" } else { "response-arrived-while-send-of-invite-pending:unreliable-transport" });
        }
        for c in cl {
            out.class(c);
        }
    }
    // -- a dialog-creating response that cannot create its dialog, and what follows it
    if !rejected_at.is_empty() {
        out.class("dialog-creating-response-without-usable-contact:rejected,application-goes-on");
    }
    let after_rejected_any = want.iter().any(|w| w.after_rejected && is_asserted_want(w));
    let mut shape_classes: BTreeSet<&'static str> = BTreeSet::new();
    for w in want.iter().filter(|w| w.after_rejected && is_asserted_want(w)) {
        shape_classes.insert(match w.kinds[0] {
            Kind::EarlyCreated => "same-tag-after-rejected-response:18x-creates-early-dialog",
            Kind::Session if w.recipient.is_none() => "same-tag-after-rejected-response:2xx-creates-session",
            Kind::Session => "same-tag-after-rejected-response:2xx-through-early-dialog",
            Kind::Provisional => "same-tag-after-rejected-response:18x-forwarded-to-early-dialog",
            _ => "same-tag-after-rejected-response:failure",
        });
    }
    // -- the INVITE sent again through the same initiator
    if attempts_done.len() >= 2 {
        out.class(if attempts_done.len() == 2 { "invite-sent-again-after-failure:2-invites" } else { "invite-sent-again-after-failure:3-invites" });
        out.class(if case.resend_after_finished { "invite-sent-again:after-finished" } else { "invite-sent-again:right-after-the-failure" });
        if !expect_terminated.is_empty() {
            out.class(if case.hold_terminated { "invite-sent-again:terminated-early-kept-by-application" } else { "invite-sent-again:terminated-early-dropped" });
        }
        if resent_while_early_unpolled {
            out.class("invite-sent-again:while-early-of-previous-invite-not-yet-polled");
        }
    } else if histories.len() >= 2 {
        out.class("further-invite-not-sent(previous-did-not-fail-or-unasserted)");
    }
    let reused_any = want.iter().any(|w| w.reused_tag && is_asserted_want(w));
    for w in want.iter().filter(|w| w.reused_tag && is_asserted_want(w)) {
        shape_classes.insert(match w.kinds[0] {
            Kind::EarlyCreated => "to-tag-of-terminated-early-dialog-reused-in-next-invite:18x-creates-early-dialog",
            Kind::Session if w.recipient.is_none() => "to-tag-of-terminated-early-dialog-reused-in-next-invite:2xx-creates-session",
            Kind::Session => "to-tag-of-terminated-early-dialog-reused-in-next-invite:2xx-through-new-early-dialog",
            Kind::Provisional => "to-tag-of-terminated-early-dialog-reused-in-next-invite:18x-forwarded-to-new-early-dialog",
            _ => "to-tag-of-terminated-early-dialog-reused-in-next-invite:failure",
        });
    }
    for c in shape_classes {
        out.class(c);
    }
    if tags.len() >= 2 || upgrade || dup_seen || queued_any || to_unpolled_any || after_rejected_any || reused_any || during_send_any {
        out.nontrivial(case);
    }
    out.note = Some(format!(
        "{:?}",
        obs.events
            .iter()
            .map(|e| format!("{}ms #{} {:?} {:?} {:?}", e.t_ms, e.attempt, e.recipient, e.kind, e.marker))
            .collect::<Vec<_>>()
    ));

    // ---- compare: each response exactly one recipient, exactly once ----
    let describe = |w: &Want| {
        let r = all[w.idx].1;
        format!(
            "response {} ({}{}{})",
            w.marker,
            r.code,
            tag_of(r).map(|t| format!(" tag {t}")).unwrap_or_default(),
            if histories.len() > 1 { format!(", INVITE #{}", w.attempt) } else { String::new() }
        )
    };
    let report_lost = |w: &Want, out: &mut CaseOut| {
        let locus = match w.kinds[0] {
            _ if w.polled_after_deadline => "arrived-inside-accepted-window-polled-after-64T1",
            Kind::Provisional if w.recipient.is_some() => "18x-known-tag-not-forwarded",
            Kind::Provisional => "100-not-reported",
            Kind::EarlyCreated => "18x-new-tag-no-early-dialog",
            Kind::Session if w.recipient.is_some() => "2xx-not-delivered-through-early-dialog",
            Kind::Session => "2xx-no-session",
            Kind::Failure => "failure-not-reported",
            _ => "other",
        };
        // the history that makes this response special, if any
        let ctx = if w.during_send {
            "arrived-while-send-of-invite-pending:"
        } else if w.after_rejected {
            "tag-of-rejected-contactless-response:"
        } else if w.reused_tag {
            "tag-of-early-dialog-terminated-by-previous-invite:"
        } else {
            ""
        };
        let msg = format!("{} (classified at {}..={} ms) was delivered to nobody; events {:?}", describe(w), w.t.0, w.t.1, out.note);
        out.fail(format!("c13.lost/{ctx}{locus}"), msg);
    };
    let delivered = |w: &Want| obs.events.iter().any(|e| e.marker.as_deref() == Some(w.marker.as_str()));
    // A response that was handed to the endpoint while the send of its INVITE was pending and reached nobody is
    // reported first: what follows from it (the transaction timing out although the peer answered, later responses of
    // that fork classified as if they were its first) is a consequence
    for w in want.iter().filter(|w| w.during_send && is_asserted_want(w) && !delivered(w)) {
        report_lost(w, out);
    }
    // an error is accepted only as the report of a response that cannot create its dialog, at the moment that one is classified
    let mut rejected_open = rejected_at.clone();
    for e in &obs.events {
        if let Kind::Error(msg) = &e.kind {
            let before_cut = cut_t.map_or(true, |c| e.t_ms < c);
            if !before_cut {
                continue;
            }
            if e.recipient.is_none() {
                if let Some(p) = rejected_open.iter().position(|(lo, hi)| e.t_ms >= *lo && e.t_ms <= *hi) {
                    rejected_open.remove(p);
                    continue;
                }
            }
            out.fail("c13.classify/error", format!("{:?} reported error `{msg}` at {} ms", e.recipient, e.t_ms));
        }
    }
    for w in &want {
        if !asserted(w.idx) {
            continue;
        }
        let got: Vec<&Event> = obs.events.iter().filter(|e| e.marker.as_deref() == Some(w.marker.as_str())).collect();
        let r = all[w.idx].1;
        let what = describe(w);
        if got.is_empty() {
            // (those that arrived while the send of their INVITE was pending were reported above)
            if !w.optional && !w.during_send {
                report_lost(w, out);
            }
            continue;
        }
        if got.len() > 1 {
            out.fail("c13.duplicate/delivered-twice", format!("{what} was delivered {} times: {:?}", got.len(), got.iter().map(|e| (&e.recipient, &e.kind)).collect::<Vec<_>>()));
        }
        let e = got[0];
        if !w.optional && (e.recipient != w.recipient || !w.kinds.contains(&e.kind) || e.attempt != w.attempt) {
            // delivered into the early dialog of ANOTHER To-tag: two forks were taken for one
            let other_fork = matches!((&e.recipient, tag_of(r)), (Some(x), Some(own)) if *x != own);
            // delivered into an early dialog that an earlier INVITE created (and whose failure terminated)
            let other_invite = e.recipient.is_some() && e.attempt != w.attempt;
            out.fail(
                if other_invite {
                    "c13.classify/forwarded-to-early-dialog-of-previous-invite"
                } else if other_fork {
                    "c13.classify/forwarded-to-early-dialog-of-other-tag"
                } else {
                    "c13.classify/wrong-recipient-or-kind"
                },
                format!("{what}: delivered to {:?} (of INVITE #{}) as {:?}, expected {:?} as {:?}", e.recipient, e.attempt, e.kind, w.recipient, w.kinds),
            );
        }
        if e.t_ms < w.t.0 || e.t_ms > w.t.1 {
            out.fail(
                "c13.classify/late",
                format!("{what}: delivered at {} ms, expected at {}..={} ms (arrival, or the application's next poll of the initiator / first poll of the early dialog)", e.t_ms, w.t.0, w.t.1),
            );
        }
        // session contents come from THAT response, Call-ID and local tag from the INVITE it answers
        if e.kind == Kind::Session && !w.optional {
            if let (Some(d), Some((_, invite))) = (&e.dialog, obs.invites.get(w.attempt)) {
                let call_id = invite.call_id().unwrap_or("").to_string();
                let local_tag = invite.from_tag().unwrap_or_default();
                let want_routes: BTreeSet<String> = routes_of(w.idx, r.record_routes).into_iter().collect();
                let got_routes: BTreeSet<String> = d
                    .routes
                    .iter()
                    .map(|x| x.trim_start_matches("sip:").split(';').next().unwrap_or("").to_string())
                    .collect();
                let tag = tag_of(r).unwrap_or_default();
                if d.call_id != call_id || d.local_tag != local_tag || d.peer_tag != tag {
                    out.fail("c13.session/dialog-identifiers", format!("{what}: dialog ids {:?}, expected call-id {call_id} local {local_tag} peer {tag}", d));
                }
                // (a 2xx without Contact is malformed; the target then stays what the early dialog had)
                if r.contact && d.target != contact_of(w.idx) {
                    out.fail("c13.session/remote-target", format!("{what}: remote target {:?}, expected {:?}", d.target, contact_of(w.idx)));
                }
                if got_routes != want_routes || d.routes.len() != want_routes.len() {
                    out.fail("c13.session/route-set", format!("{what}: route set {:?}, expected the response's Record-Route {:?}", d.routes, want_routes));
                }
            }
        }
    }
    // a tag that already has its session must not get a second session / early dialog: the second Dialog would
    // share the dialog key with the live one (and unregister it when dropped)
    for (m, how) in &dup_markers {
        let idx: usize = m[1..].parse().unwrap_or(usize::MAX);
        if !asserted(idx) {
            continue;
        }
        if let Some(e) = obs.events.iter().find(|e| e.marker.as_deref() == Some(m.as_str()) && matches!(e.kind, Kind::Session | Kind::EarlyCreated)) {
            out.fail(
                format!("c13.duplicate/second-dialog-for-tag:{how}"),
                format!("response {m} for a tag that already has a session was reported as {:?}: a second dialog with the same identifiers", e.kind),
            );
        }
    }
    // responses that must NOT surface (orphans after the transaction of their INVITE ended)
    for a in &attempts_done {
        if let Some((end_idx, end_t)) = a.ended {
            for e in &obs.events {
                if let Some(m) = &e.marker {
                    let idx: usize = m[1..].parse().unwrap_or(usize::MAX);
                    if idx > end_idx && idx < a.first + a.len {
                        out.fail("c13.classify/delivered-after-failure", format!("{m} delivered at {} ms although the final failure m{end_idx} was handed over at {end_t} ms", e.t_ms));
                    }
                }
            }
        }
    }
    // failure terminates every early dialog (of that INVITE)
    for (k, tag, t) in &expect_terminated {
        let ok = obs
            .events
            .iter()
            .any(|e| e.attempt == *k && e.recipient.as_deref() == Some(tag.as_str()) && e.kind == Kind::Terminated && e.t_ms >= t.0 && e.t_ms <= t.1);
        if !ok {
            out.fail("c13.failure/early-dialog-not-terminated", format!("early dialog {tag} of INVITE #{k} did not get Terminated at {}..={} ms", t.0, t.1));
        }
    }
    // unknown markers / recipients
    for e in &obs.events {
        if let Some(m) = &e.marker {
            let idx: usize = m[1..].parse().unwrap_or(usize::MAX);
            // reported above
            let after_failure = idx < all.len() && attempts_done.get(all[idx].0).and_then(|a| a.ended).map_or(false, |(end_idx, _)| idx > end_idx);
            if !want.iter().any(|w| &w.marker == m) && asserted(idx) && !after_failure {
                out.fail("c13.classify/unexpected-delivery", format!("{m} delivered to {:?} as {:?} although the reference expects no delivery", e.recipient, e.kind));
            }
        }
    }
    if stop_at.is_none() {
        for (k, a) in attempts_done.iter().enumerate() {
            let fin: Vec<u64> = obs.events.iter().filter(|e| e.kind == Kind::Finished && e.attempt == k).map(|e| e.t_ms).collect();
            // completion 64*T1 after the first 2xx (its arrival, or the moment the polling application made the
            // transaction see it), or as soon as the application polls again after that
            if let Some((fa, fd)) = a.accepted {
                let lo = a.ready.0.max(fa + TIMEOUT);
                let hi = a.ready.1.max(fd + TIMEOUT);
                if fin.len() != 1 || fin[0] + 2 < lo || fin[0] > hi + 2 {
                    out.fail(
                        "c13.finished/not-64T1-after-first-2xx",
                        format!("Finished at {fin:?}; first 2xx arrived at {fa}, seen by the polling application at {fd}, application polling again from {:?}: expected once in {lo}..={hi}", a.ready),
                    );
                }
            }
            if a.ended.is_some() {
                // an application that sends the INVITE again right after the failure does not poll this one to its end
                let polled_to_the_end = k + 1 >= histories.len() || case.resend_after_finished;
                let expected = usize::from(polled_to_the_end);
                if fin.len() != expected {
                    out.fail("c13.finished/after-failure", format!("expected Finished {expected} time(s) after the failure of INVITE #{k}, got {}", fin.len()));
                }
            }
        }
    }
}

pub fn property() -> Property {
    Property {
        fuzz: vec![],
        id: "C13",
        rule: "a case = history of 1..10 responses to an INVITE sent through Initiator (status from {100,180,183,199,200,202,300,404,486,603}, To-tag none / 3 forks, Contact present 93% / absent 6% / unparsable 1%, 0..3 Record-Route, Supported timer/100rel, Require+RSeq, Session-Expires) at gaps 1..31000 ms under a paused clock (random cases: 6/15 such, 2/15 chatty = 6..14 responses, mostly 101-199 of fork 0, gaps 1..450 ms, 2/15 shaky = 2..8 responses mostly 101-299 of forks 0/1 with Contact absent 35% / unparsable 10%, 5/15 retry = 1..2 INVITEs that fail (0..3 responses mostly 101-199 with To-tag, then a 3xx-6xx, 10% a straggler behind it) followed by an INVITE with a general or shaky history of 1..6) x the transport (UDP / one reporting itself reliable, a third of the random cases) x the spelling of the fork To-tags (plain; differing only in letter case; prefixes of each other; one punctuation character; 40 characters differing in the last; numeric look-alikes) x the application's polling schedule (after being handed response i it does not call Initiator::receive for busy[i] in {0,3,40,600,2530,31600,33010,40020} ms; half of the random cases poll continuously) x the application's schedule for the early dialogs (it first calls Early::receive on the Early of fork j early_lag[j] in {0,7,613,2537,33017,70003} ms after being handed it, then polls it continuously and lets go of it when it yields a session or Terminated; non-zero for some fork in ~45% of the random cases; meanwhile forwarded events pile up for that early dialog) x the application's reaction to an error from Initiator::receive (calls receive again at once, 85% of the random cases, or gives up) x the number of INVITEs sent through the same Initiator (after a reported failure without session the application calls create_invite + send_invite again, right after the failure or after Finished; the peer answers every INVITE with its own history and re-uses its To-tags; terminated Early objects dropped or kept unpolled) x how long the transport's send of the first transmission of every INVITE stays pending after the bytes are out (send_pending in {0 (60% of the random cases),2,30,470,1203} ms: send_invite returns that late, the peer's gaps count from the bytes being out, so responses with a cumulative gap below it reach the endpoint while send_invite has not returned; the application polls as soon as it has). exhaustive: every history of length <= 4 (thorough 5) over {100,180,200,486} x {no tag,#0,#1}, plain tags, UDP, continuous polling. exhaustive-variants: every such history of length <= 3 (thorough 4) under case-variant tags, prefix tags, 33 s busy after every / the first / the second response, 600 ms busy after every response, reliable transport, every Early polled 33 s late, reliable + 600 ms busy + every Early 613 ms late. lazy-early: 180 of fork 0 + k = 0..8 (thorough 12) further 101-199 of fork 0 + one of 7 endings x 5 early_lag vectors x gaps 1/450 ms x both transports. retry: first INVITE = one of 6 preludes of 0..2 provisional responses + 486 without tag / 404 of fork 0, second INVITE = every history of length <= 2 (thorough 3) over the alphabet, x 5 application variants (resend at once / after Finished, terminated Early dropped / kept, every Early polled 33 s late, reliable + 600 ms busy); plus two failed INVITEs before the enumerated history. rejected-then-same-fork: one of 3 preludes + a fork-0 response that cannot create its dialog (180 without Contact, 183 with unparsable Contact, 200 without Contact) + every continuation of length <= 2 (thorough 3) over the alphabet plus a Contact-less 180 of fork 0, x 3 application variants, application going on after the error. answered-while-sending: every history of length <= 3 (thorough 4) over the alphabet x (send pending 2 ms UDP, 30 ms UDP, 30 ms reliable, 470 ms reliable + 600 ms busy after every response); retry has a sixth variant with every INVITE's send pending 30 ms. Oracle = reference classifier over the set of tags seen so far IN THIS INVITE and the application's ready time (initially the return of send_invite = INVITE on the wire + send_pending; FIFO queue: a response is classified at max(arrival, next poll); what is forwarded to an early dialog comes out of its Early at max(that, first poll of the Early); while an Early is not polled yet the initiator may or may not wait for it when forwarding, later moments are intervals and any delivery inside is accepted; a response that could not create its dialog leaves its tag unknown; a new INVITE starts with no tag known); every response carries a unique X-Seq marker and every recipient the number of its INVITE, so recipients are identified exactly. Non-trivial = >=2 distinct To-tags, or a 2xx after an 18x of the same tag, or a response for a tag that already has a session, or a response that waited in the queue while the application was busy, or a response forwarded to an early dialog the application had not started to poll, or an asserted response whose To-tag was carried by a rejected Contact-less response before, or an asserted response to a re-sent INVITE whose To-tag had an early dialog in a previous INVITE, or an asserted response that arrived while the send of its INVITE was pending; distinct by case.",
        assumptions: vec![
            "what the application sees for a response whose tag already has a session (retransmitted 2xx, late 18x) is not asserted beyond: delivered at most once, no second dialog, nothing panics, later responses are still classified; if the application is busy after such a response nothing after it is asserted (the reference cannot know whether it was handed over)",
            "a dialog-creating response (101-299, new To-tag) without usable Contact is malformed: Initiator::receive may report an error for it or ignore it; if it handed out nothing for it, nothing was created and the To-tag counts as unknown for the following responses (asserted when the application goes on polling); if it handed out an early dialog / session all the same, if the tag already has a session, or if the application gives up at the error, nothing is asserted from there on",
            "an error from Initiator::receive is accepted only at the moment such a response is classified; the application then polls again at once",
            "route set is compared as a set (its order is C11's subject)",
            "non-2xx after a 2xx is not asserted",
            "'64*T1 after the first 2xx' is accepted in both readings when the application polls lazily (arrival of the 2xx / the poll that made the transaction see it): responses arriving later than 3 ms before the earlier deadline are not asserted unless Finished has certainly been reported (then they must not surface); responses that arrived before it must be delivered even if the application polls only after 64*T1",
            "To-tags are opaque tokens compared byte-wise; '%' in tags is excluded (open finding of C09/C11)",
            "an Early is polled continuously from the application's first poll of it on (early_lag after it was handed over) and is let go of only when it yielded a session or Terminated (then it is dropped, or kept without ever being polled again); how many events the queue between initiator and early dialog holds is not part of the statement: whether the initiator waits for a not yet polled Early when forwarding to it is accepted either way (delivery moments are intervals), only loss / duplication / a wrong recipient are violations",
            "the transport's reliability changes nothing in the expected classification or in the 64*T1 completion (RFC 6026 7.2: the Accepted state collects the 2xx of other forks on every transport)",
            "a transport may report the write of a request as done after the peer has received and answered it (Transport::send is async; nothing in its contract orders its return before incoming traffic): a response to an INVITE whose bytes are on the wire is a response to that INVITE whether or not send_invite has returned, 'no response is lost' covers it; it is expected at the application's first poll after send_invite returned. Only the first transmission of an INVITE is slow; retransmissions and ACKs written from inside receive() return at once (their duration would shift every predicted moment and is not C13's subject), an arrival exactly at the moment send returns is classified the same either way",
            "an Initiator may be used for a further INVITE once the previous one was reported failed and yielded no session (examples/send_invite.rs); the failure terminated every early dialog, so every To-tag is new for the next INVITE even if the UAS re-uses it; the moment the next INVITE goes out is read from the wire log; a further INVITE after a session or before a final response is not generated; responses to the previous INVITE that arrive after its failure must not surface",
        ],
        explanation: "exhaustive over the reduced alphabet up to the stated length (plain/UDP/continuous, and per listed variant one step shorter); the lazy-early, retry, rejected-then-same-fork and answered-while-sending grids are enumerated completely; random histories, tag spellings, transports, polling schedules (initiator and early dialogs), reaction to errors, re-sent INVITEs and the duration of the INVITE's send sampled",
        subs: vec![
            enum_sub("exhaustive", exhaustive_cases, check),
            enum_sub("exhaustive-variants", variant_cases, check),
            enum_sub("lazy-early", lazy_early_cases, check),
            enum_sub("retry", retry_cases, check),
            enum_sub("rejected-then-same-fork", rejected_cases, check),
            enum_sub("answered-while-sending", during_send_cases, check),
            prop_sub("random", strategy, 1600, 26000, check),
        ],
    }
}
