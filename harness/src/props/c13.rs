//! C13 — UAC INVITE: responses map deterministically to early dialogs, sessions, failure

use crate::engine::*;
use crate::refmodel::ref_tsx::TIMEOUT;
use crate::world::*;
use parking_lot::Mutex;
use proptest::prelude::*;
use serde::{Deserialize, Serialize};
use sip_types::header::typed::Contact;
use sip_types::print::AppendCtx;
use sip_types::uri::sip::SipUri;
use sip_types::uri::NameAddr;
use sip_ua::dialog::{Dialog, DialogLayer};
use sip_ua::invite::initiator::{Early, EarlyResponse, Initiator, Response};
use sip_ua::invite::session::Session;
use sip_ua::invite::InviteLayer;
use std::collections::BTreeSet;
use std::net::SocketAddr;
use std::sync::Arc;

#[derive(Serialize, Deserialize, Clone, Debug, Hash)]
pub struct RespEv {
    pub gap: u64,
    pub code: u16,
    /// None = no To-tag, Some(i) = tag "t<i>"
    pub tag: Option<u8>,
    pub contact: bool,
    pub record_routes: u8,
    pub supported_timer: bool,
    pub supported_100rel: bool,
    pub rseq: bool,
    pub session_expires: Option<u32>,
    /// further raw header lines (used by C02 to put hostile values into the responses)
    #[serde(default)]
    pub extra: Vec<String>,
}

#[derive(Serialize, Deserialize, Clone, Debug, Hash)]
pub struct Case {
    pub responses: Vec<RespEv>,
    pub rng: u8,
}

const CODES: &[u16] = &[100, 180, 183, 199, 200, 202, 300, 404, 486, 603];

fn resp_strategy() -> BoxedStrategy<RespEv> {
    (
        prop_oneof![Just(1u64), Just(1u64), Just(20u64), Just(450u64), Just(700u64), Just(31_000u64)],
        any::<u16>(),
        prop_oneof![1 => Just(None), 8 => (0u8..3).prop_map(Some)],
        prop::bool::weighted(0.93),
        0u8..4,
        any::<bool>(),
        any::<bool>(),
        prop::bool::weighted(0.3),
        prop_oneof![3 => Just(None), 1 => Just(Some(1800u32)), 1 => Just(Some(90u32))],
    )
        .prop_map(|(gap, csel, tag, contact, record_routes, supported_timer, supported_100rel, rseq, session_expires)| RespEv {
            gap,
            code: CODES[pick_idx(csel, CODES.len())],
            tag,
            contact,
            record_routes,
            supported_timer,
            supported_100rel,
            rseq,
            session_expires,
            extra: vec![],
        })
        .boxed()
}

pub fn strategy() -> BoxedStrategy<Case> {
    (prop::collection::vec(resp_strategy(), 1..11), any::<u8>())
        .prop_map(|(responses, rng)| Case { responses, rng })
        .boxed()
}

/// every history of length <= max_len over a reduced alphabet (codes 100,180,200,486; tags none,t0,t1)
pub fn exhaustive_cases(tier: Tier) -> Vec<Case> {
    let max_len = tier.pick(4usize, 5usize);
    let codes = [100u16, 180, 200, 486];
    let tags = [None, Some(0u8), Some(1u8)];
    let mut alphabet = vec![];
    for c in codes {
        for t in tags {
            if c == 100 && t.is_some() {
                continue;
            }
            alphabet.push((c, t));
        }
    }
    let mut out = vec![];
    let mut stack: Vec<Vec<usize>> = vec![vec![]];
    while let Some(cur) = stack.pop() {
        if !cur.is_empty() {
            out.push(Case {
                responses: cur
                    .iter()
                    .enumerate()
                    .map(|(i, a)| RespEv {
                        gap: if i % 2 == 0 { 1 } else { 20 },
                        code: alphabet[*a].0,
                        tag: alphabet[*a].1,
                        contact: true,
                        record_routes: (i % 3) as u8,
                        supported_timer: false,
                        supported_100rel: false,
                        rseq: false,
                        session_expires: None,
                        extra: vec![],
                    })
                    .collect(),
                rng: cur.len() as u8,
            });
        }
        if cur.len() < max_len {
            for a in 0..alphabet.len() {
                let mut n = cur.clone();
                n.push(a);
                stack.push(n);
            }
        }
    }
    out
}

#[derive(Clone, Debug, PartialEq)]
pub struct DialogSummary {
    pub call_id: String,
    pub local_tag: String,
    pub peer_tag: String,
    pub target: String,
    pub routes: Vec<String>,
}

fn summarize(d: &Dialog) -> DialogSummary {
    DialogSummary {
        call_id: d.call_id.0.to_string(),
        local_tag: d.local_fromto.tag.as_ref().map(|t| t.to_string()).unwrap_or_default(),
        peer_tag: d.peer_fromto.tag.as_ref().map(|t| t.to_string()).unwrap_or_default(),
        target: d.peer_contact.uri.uri.default_print_ctx().to_string(),
        routes: d.route_set.iter().map(|r| r.uri.uri.default_print_ctx().to_string()).collect(),
    }
}

#[derive(Clone, Debug, PartialEq)]
pub enum Kind {
    Provisional,
    EarlyCreated,
    Session,
    Failure,
    Terminated,
    Finished,
    Error(String),
}

#[derive(Clone, Debug)]
pub struct Event {
    pub t_ms: u64,
    /// None = the initiator, Some(tag) = the early dialog created for that tag
    pub recipient: Option<String>,
    pub kind: Kind,
    pub marker: Option<String>,
    pub dialog: Option<DialogSummary>,
}

fn marker_of(r: &sip_core::transaction::TsxResponse) -> Option<String> {
    r.headers
        .iter()
        .find(|(n, _)| n.as_print_str().eq_ignore_ascii_case("x-seq"))
        .map(|(_, v)| v.to_string())
}

type Log = Arc<Mutex<Vec<Event>>>;

async fn early_task(clock: Clock, tag: String, mut early: Early, log: Log, sessions: Arc<Mutex<Vec<Session>>>) {
    loop {
        match early.receive().await {
            Ok(EarlyResponse::Provisional(r, _)) => log.lock().push(Event {
                t_ms: clock.now_ms(),
                recipient: Some(tag.clone()),
                kind: Kind::Provisional,
                marker: marker_of(&r),
                dialog: None,
            }),
            Ok(EarlyResponse::Success(session, r)) => {
                log.lock().push(Event {
                    t_ms: clock.now_ms(),
                    recipient: Some(tag.clone()),
                    kind: Kind::Session,
                    marker: marker_of(&r),
                    dialog: Some(summarize(&session.dialog)),
                });
                sessions.lock().push(session);
                // the early dialog has become a session: the application lets go of it
                return;
            }
            Ok(EarlyResponse::Terminated) => {
                log.lock().push(Event {
                    t_ms: clock.now_ms(),
                    recipient: Some(tag.clone()),
                    kind: Kind::Terminated,
                    marker: None,
                    dialog: None,
                });
                return;
            }
            Err(e) => {
                log.lock().push(Event {
                    t_ms: clock.now_ms(),
                    recipient: Some(tag.clone()),
                    kind: Kind::Error(e.to_string()),
                    marker: None,
                    dialog: None,
                });
                return;
            }
        }
    }
}

pub struct Observed {
    pub events: Vec<Event>,
    pub invite: Option<WireMsg>,
}

fn contact_of(i: usize) -> String {
    format!("sip:c{i}@192.0.2.1:5062")
}
fn routes_of(i: usize, n: u8) -> Vec<String> {
    (0..n).map(|k| format!("p{i}x{k}.example.com")).collect()
}

pub fn run(case: &Case) -> Observed {
    let case = case.clone();
    run_world(case.rng as u64, |clock| async move {
        let log = WireLog::new(clock);
        let (tp, _) = mock_datagram(&log, "UDP", false, false, "10.0.0.1:5060");
        let mut b = offline_builder();
        b.add_unmanaged_transport(tp.clone());
        let dl = b.add_layer(DialogLayer::default());
        let il = b.add_layer(InviteLayer::default());
        let endpoint = b.build();
        let peer: SocketAddr = "192.0.2.1:5060".parse().unwrap();

        let local: SipUri = "sip:alice@example.org".parse().unwrap();
        let contact: SipUri = "sip:alice@10.0.0.1:5060".parse().unwrap();
        let target: SipUri = "sip:bob@192.0.2.1".parse().unwrap();
        let mut initiator = Initiator::new(
            endpoint.clone(),
            dl,
            il,
            NameAddr::uri(local),
            Contact::new(NameAddr::uri(contact)),
            Box::new(target),
        );
        let events: Log = Default::default();
        let sessions: Arc<Mutex<Vec<Session>>> = Default::default();
        let invite = initiator.create_invite();
        if let Err(e) = initiator.send_invite(invite).await {
            events.lock().push(Event { t_ms: 0, recipient: None, kind: Kind::Error(format!("send: {e}")), marker: None, dialog: None });
            return Observed { events: events.lock().clone(), invite: None };
        }
        settle().await;
        let invite_msg = log.snapshot().first().and_then(|s| WireMsg::parse(&s.bytes));

        {
            let events = events.clone();
            let sessions = sessions.clone();
            tokio::spawn(async move {
                loop {
                    let r = initiator.receive().await;
                    let t_ms = clock.now_ms();
                    match r {
                        Ok(Response::Provisional(r)) => events.lock().push(Event { t_ms, recipient: None, kind: Kind::Provisional, marker: marker_of(&r), dialog: None }),
                        Ok(Response::Failure(r)) => events.lock().push(Event { t_ms, recipient: None, kind: Kind::Failure, marker: marker_of(&r), dialog: None }),
                        Ok(Response::Early(early, r, _)) => {
                            let tag = r.base_headers.to.tag.as_ref().map(|t| t.to_string()).unwrap_or_default();
                            events.lock().push(Event { t_ms, recipient: None, kind: Kind::EarlyCreated, marker: marker_of(&r), dialog: None });
                            tokio::spawn(early_task(clock, tag, early, events.clone(), sessions.clone()));
                        }
                        Ok(Response::Session(session, r)) => {
                            events.lock().push(Event { t_ms, recipient: None, kind: Kind::Session, marker: marker_of(&r), dialog: Some(summarize(&session.dialog)) });
                            sessions.lock().push(session);
                        }
                        Ok(Response::Finished) => {
                            events.lock().push(Event { t_ms, recipient: None, kind: Kind::Finished, marker: None, dialog: None });
                            break;
                        }
                        Err(e) => {
                            events.lock().push(Event { t_ms, recipient: None, kind: Kind::Error(e.to_string()), marker: None, dialog: None });
                            break;
                        }
                    }
                }
                // keep the initiator alive until the world ends (early dialogs reference its channels)
                std::future::pending::<()>().await;
                drop(initiator);
            });
        }

        let mut t = 0;
        if let Some(inv) = &invite_msg {
            for (i, r) in case.responses.iter().enumerate() {
                t += r.gap;
                clock.until(t).await;
                let mut extra = vec![format!("X-Seq: m{i}")];
                if r.contact {
                    extra.push(format!("Contact: <{}>", contact_of(i)));
                }
                for h in routes_of(i, r.record_routes) {
                    extra.push(format!("Record-Route: <sip:{h};lr>"));
                }
                let mut sup = vec![];
                if r.supported_timer {
                    sup.push("timer");
                }
                if r.supported_100rel {
                    sup.push("100rel");
                }
                if !sup.is_empty() {
                    extra.push(format!("Supported: {}", sup.join(", ")));
                }
                if r.rseq && (101..200).contains(&r.code) {
                    extra.push("Require: 100rel".into());
                    extra.push(format!("RSeq: {}", 100 + i));
                }
                if let Some(se) = r.session_expires {
                    if (200..300).contains(&r.code) {
                        extra.push("Require: timer".into());
                        extra.push(format!("Session-Expires: {se};refresher=uas"));
                    }
                }
                extra.extend(r.extra.iter().cloned());
                let tag = r.tag.map(|t| format!("t{t}"));
                let bytes = response_text(inv, r.code, tag.as_deref(), &extra);
                inject(&endpoint, &tp, peer, &bytes);
                settle().await;
            }
        }
        clock.until(t + TIMEOUT + 5000).await;
        settle().await;
        let evs = events.lock().clone();
        sessions.lock().clear();
        Observed { events: evs, invite: invite_msg }
    })
}

pub fn check(case: &Case, out: &mut CaseOut) {
    let obs = run(case);
    let Some(invite) = obs.invite.clone() else {
        out.fail("c13.harness/no-invite", format!("INVITE not sent: {:?}", obs.events));
        return;
    };
    let call_id = invite.call_id().unwrap_or("").to_string();
    let local_tag = invite.from_tag().unwrap_or_default();

    // ---- reference classifier ----
    #[derive(Debug, Clone, PartialEq)]
    struct Want {
        marker: String,
        t: u64,
        recipient: Option<String>,
        kinds: Vec<Kind>, // admissible kinds
        optional: bool,
        idx: usize,
    }
    let mut want: Vec<Want> = vec![];
    let mut early: BTreeSet<String> = BTreeSet::new(); // live early dialogs by tag
    let mut upgraded: BTreeSet<String> = BTreeSet::new(); // tags whose early dialog became a session (early dropped)
    let mut direct_sessions: BTreeSet<String> = BTreeSet::new();
    let mut first_2xx: Option<u64> = None;
    let mut ended: Option<u64> = None; // transaction over (non-2xx final)
    let mut expect_terminated: Vec<(String, u64)> = vec![];
    let mut stop_at: Option<usize> = None; // malformed response: classification result is not asserted from here on
    let mut t = 0u64;
    let mut dup_seen = false;
    let mut dup_markers: Vec<(String, &'static str)> = vec![];
    for (i, r) in case.responses.iter().enumerate() {
        t += r.gap;
        let marker = format!("m{i}");
        if ended.is_some() {
            continue; // orphan: the transaction has ended
        }
        if let Some(f) = first_2xx {
            if t + 3 >= f + TIMEOUT {
                // at / after the end of the Accepted state: not asserted
                if t > f + TIMEOUT + 3 {
                    continue;
                }
                stop_at = Some(i);
                break;
            }
        }
        let tag = r.tag.map(|x| format!("t{x}"));
        let needs_dialog = (101..300).contains(&r.code) && tag.is_some();
        if r.code <= 100 {
            want.push(Want { marker, t, recipient: None, kinds: vec![Kind::Provisional], optional: false, idx: i });
        } else if r.code >= 300 {
            want.push(Want { marker, t, recipient: None, kinds: vec![Kind::Failure], optional: first_2xx.is_some(), idx: i });
            if first_2xx.is_none() {
                for e in &early {
                    expect_terminated.push((e.clone(), t));
                }
                early.clear();
                ended = Some(t);
            } else {
                // a non-2xx after a 2xx: what the initiator does with it is not asserted
                stop_at = Some(i + 1);
                break;
            }
        } else if tag.is_none() {
            // 1xx/2xx without To-tag: cannot create a dialog, ignored
            if (200..300).contains(&r.code) && first_2xx.is_none() {
                first_2xx = Some(t);
            }
        } else if needs_dialog && !r.contact && !early.contains(tag.as_ref().unwrap()) {
            // a dialog-creating response without Contact is malformed: error or ignore, nothing asserted after
            stop_at = Some(i);
            break;
        } else {
            let tag = tag.unwrap();
            if (200..300).contains(&r.code) && first_2xx.is_none() {
                first_2xx = Some(t);
            }
            if early.contains(&tag) {
                if r.code < 200 {
                    want.push(Want { marker, t, recipient: Some(tag.clone()), kinds: vec![Kind::Provisional], optional: false, idx: i });
                } else {
                    want.push(Want { marker, t, recipient: Some(tag.clone()), kinds: vec![Kind::Session], optional: false, idx: i });
                    early.remove(&tag);
                    upgraded.insert(tag);
                }
            } else if upgraded.contains(&tag) || direct_sessions.contains(&tag) {
                // a response for a tag that already has its session (retransmitted 2xx, late 18x):
                // what the application sees is not asserted, only that nothing breaks
                dup_seen = true;
                dup_markers.push((marker.clone(), if upgraded.contains(&tag) { "after-early-upgrade" } else { "direct" }));
                want.push(Want { marker, t, recipient: None, kinds: vec![Kind::Session, Kind::EarlyCreated, Kind::Provisional], optional: true, idx: i });
            } else if r.code < 200 {
                want.push(Want { marker, t, recipient: None, kinds: vec![Kind::EarlyCreated], optional: false, idx: i });
                early.insert(tag);
            } else {
                want.push(Want { marker, t, recipient: None, kinds: vec![Kind::Session], optional: false, idx: i });
                direct_sessions.insert(tag);
            }
        }
    }

    // ---- classes ----
    let tags: BTreeSet<_> = case.responses.iter().filter_map(|r| r.tag).collect();
    if tags.len() >= 2 {
        out.class("forked(>=2 tags)");
    }
    let upgrade = !upgraded.is_empty();
    if upgrade {
        out.class("2xx-after-18x-same-tag");
    }
    if dup_seen {
        out.class("response-for-tag-with-session");
    }
    if ended.is_some() && !expect_terminated.is_empty() {
        out.class("failure-terminates-early-dialogs");
    }
    if stop_at.is_some() {
        out.class("unasserted-tail");
    }
    if tags.len() >= 2 || upgrade || dup_seen {
        out.nontrivial(case);
    }
    out.note = Some(format!(
        "{:?}",
        obs.events
            .iter()
            .map(|e| format!("{}ms {:?} {:?} {:?}", e.t_ms, e.recipient, e.kind, e.marker))
            .collect::<Vec<_>>()
    ));

    // ---- compare: each response exactly one recipient, exactly once ----
    let cut_t = stop_at.map(|i| case.responses[..=i.min(case.responses.len() - 1)].iter().map(|r| r.gap).sum::<u64>());
    let asserted = |idx: usize| stop_at.map_or(true, |s| idx < s);
    for e in &obs.events {
        if let Kind::Error(msg) = &e.kind {
            let before_cut = cut_t.map_or(true, |c| e.t_ms < c);
            if before_cut {
                out.fail("c13.classify/error", format!("{:?} reported error `{msg}` at {} ms", e.recipient, e.t_ms));
            }
        }
    }
    for w in &want {
        if !asserted(w.idx) {
            continue;
        }
        let got: Vec<&Event> = obs.events.iter().filter(|e| e.marker.as_deref() == Some(w.marker.as_str())).collect();
        let r = &case.responses[w.idx];
        let what = format!("response {} ({}{})", w.marker, r.code, r.tag.map(|t| format!(" tag t{t}")).unwrap_or_default());
        if got.is_empty() {
            if !w.optional {
                let locus = match w.kinds[0] {
                    Kind::Provisional if w.recipient.is_some() => "18x-known-tag-not-forwarded",
                    Kind::Provisional => "100-not-reported",
                    Kind::EarlyCreated => "18x-new-tag-no-early-dialog",
                    Kind::Session if w.recipient.is_some() => "2xx-not-delivered-through-early-dialog",
                    Kind::Session => "2xx-no-session",
                    Kind::Failure => "failure-not-reported",
                    _ => "other",
                };
                out.fail(format!("c13.lost/{locus}"), format!("{what} was delivered to nobody; events {:?}", out.note));
            }
            continue;
        }
        if got.len() > 1 {
            out.fail("c13.duplicate/delivered-twice", format!("{what} was delivered {} times: {:?}", got.len(), got.iter().map(|e| (&e.recipient, &e.kind)).collect::<Vec<_>>()));
        }
        let e = got[0];
        if !w.optional && (e.recipient != w.recipient || !w.kinds.contains(&e.kind)) {
            out.fail(
                "c13.classify/wrong-recipient-or-kind",
                format!("{what}: delivered to {:?} as {:?}, expected {:?} as {:?}", e.recipient, e.kind, w.recipient, w.kinds),
            );
        }
        if e.t_ms != w.t {
            out.fail("c13.classify/late", format!("{what}: delivered at {} ms, arrived at {} ms", e.t_ms, w.t));
        }
        // session contents come from THAT response
        if e.kind == Kind::Session && !w.optional {
            if let Some(d) = &e.dialog {
                let want_routes: BTreeSet<String> = routes_of(w.idx, r.record_routes).into_iter().collect();
                let got_routes: BTreeSet<String> = d
                    .routes
                    .iter()
                    .map(|x| x.trim_start_matches("sip:").split(';').next().unwrap_or("").to_string())
                    .collect();
                let tag = r.tag.map(|t| format!("t{t}")).unwrap_or_default();
                if d.call_id != call_id || d.local_tag != local_tag || d.peer_tag != tag {
                    out.fail("c13.session/dialog-identifiers", format!("{what}: dialog ids {:?}, expected call-id {call_id} local {local_tag} peer {tag}", d));
                }
                // (a 2xx without Contact is malformed; the target then stays what the early dialog had)
                if r.contact && d.target != contact_of(w.idx) {
                    out.fail("c13.session/remote-target", format!("{what}: remote target {:?}, expected {:?}", d.target, contact_of(w.idx)));
                }
                if got_routes != want_routes || d.routes.len() != want_routes.len() {
                    out.fail("c13.session/route-set", format!("{what}: route set {:?}, expected the response's Record-Route {:?}", d.routes, want_routes));
                }
            }
        }
    }
    // a tag that already has its session must not get a second session / early dialog: the second Dialog would
    // share the dialog key with the live one (and unregister it when dropped)
    for (m, how) in &dup_markers {
        let idx: usize = m[1..].parse().unwrap_or(usize::MAX);
        if !asserted(idx) {
            continue;
        }
        if let Some(e) = obs.events.iter().find(|e| e.marker.as_deref() == Some(m.as_str()) && matches!(e.kind, Kind::Session | Kind::EarlyCreated)) {
            out.fail(
                format!("c13.duplicate/second-dialog-for-tag:{how}"),
                format!("response {m} for a tag that already has a session was reported as {:?}: a second dialog with the same identifiers", e.kind),
            );
        }
    }
    // responses that must NOT surface (orphans after the transaction ended)
    if let Some(end) = ended {
        for e in &obs.events {
            if e.marker.is_some() && e.t_ms > end {
                out.fail("c13.classify/delivered-after-failure", format!("{:?} delivered at {} ms after the final failure at {end}", e.marker, e.t_ms));
            }
        }
        // failure terminates every early dialog
        for (tag, t) in &expect_terminated {
            let ok = obs.events.iter().any(|e| e.recipient.as_deref() == Some(tag.as_str()) && e.kind == Kind::Terminated && e.t_ms == *t);
            if !ok && stop_at.is_none() {
                out.fail("c13.failure/early-dialog-not-terminated", format!("early dialog {tag} did not get Terminated at {t} ms"));
            }
        }
    }
    // unknown markers / recipients
    for e in &obs.events {
        if let Some(m) = &e.marker {
            let idx: usize = m[1..].parse().unwrap_or(usize::MAX);
            if !want.iter().any(|w| &w.marker == m) && asserted(idx) {
                out.fail("c13.classify/unexpected-delivery", format!("{m} delivered to {:?} as {:?} although the reference expects no delivery", e.recipient, e.kind));
            }
        }
    }
    // completion 64*T1 after the first 2xx
    if let (Some(f), None) = (first_2xx, stop_at) {
        let fin: Vec<u64> = obs.events.iter().filter(|e| e.kind == Kind::Finished).map(|e| e.t_ms).collect();
        if fin.len() != 1 || fin[0].abs_diff(f + TIMEOUT) > 2 {
            out.fail("c13.finished/not-64T1-after-first-2xx", format!("Finished at {fin:?}, first 2xx at {f}"));
        }
    }
    if ended.is_some() && stop_at.is_none() {
        let fin = obs.events.iter().filter(|e| e.kind == Kind::Finished).count();
        if fin != 1 {
            out.fail("c13.finished/after-failure", format!("expected Finished once after the failure, got {fin}"));
        }
    }
}

pub fn property() -> Property {
    Property {
        fuzz: vec![],
        id: "C13",
        rule: "a case = history of 1..10 responses to one INVITE sent through Initiator (status from {100,180,183,199,200,202,300,404,486,603}, To-tag none / 3 tags, Contact present 93%, 0..3 Record-Route, Supported timer/100rel, Require+RSeq, Session-Expires) at gaps 1..31000 ms under a paused clock; the application keeps every Early, polls it and lets go of it when it yields a session or Terminated. exhaustive sub-check: every history of length <= 4 (thorough 5) over {100,180,200,486} x {no tag,t0,t1}. Oracle = reference classifier over the set of tags seen so far; every response carries a unique X-Seq marker, so recipients are identified exactly. Non-trivial = >=2 distinct To-tags, or a 2xx after an 18x of the same tag, or a response for a tag that already has a session; distinct by case.",
        assumptions: vec![
            "what the application sees for a response whose tag already has a session (retransmitted 2xx, late 18x) is not asserted beyond: delivered at most once, nothing panics, later responses are still classified",
            "a dialog-creating response without Contact is malformed: nothing is asserted from there on",
            "route set is compared as a set (its order is C11's subject)",
            "non-2xx after a 2xx and arrivals within 3 ms of the end of the Accepted state are not asserted",
        ],
        explanation: "exhaustive over the reduced alphabet up to the stated length; random histories sampled",
        subs: vec![
            enum_sub("exhaustive", exhaustive_cases, check),
            prop_sub("random", strategy, 1200, 20000, check),
        ],
    }
}
