//! C05 — Client transactions retransmit and time out on the RFC 3261 timer schedule
//!
//! Sub-checks `grid` / `random` (fn `check`): one client transaction (INVITE | OPTIONS) on a mock datagram
//! transport (reliable | unreliable) under a paused clock, scripted responses (arrival instant, status).
//! Generated dimensions besides the response history:
//!   * how the request's Via is formed: the transport's own sent-by, or `TargetTransportInfo::via_host_port`
//!     (other address, host name, IPv6 reference, own host with another / without port, mixed-case name);
//!   * how a response reaches the endpoint: top Via echoed verbatim or with `;received=` appended (RFC 3261
//!     18.2.1), packet source = the request's destination or another address, received with the transport handle
//!     the request was sent with or with the handle of a second transport of the same kind. A response belongs to
//!     the transaction by top-Via branch + CSeq method (RFC 3261 17.1.3) in all of these shapes, so the oracle is
//!     the same for all of them: "a response has arrived";
//!   * bursts: one response of the history may be preceded, in the same instant, by 1..129 further responses
//!     (100 | 180 | copies of itself) that are all handed to the endpoint before any task of the stack runs (one
//!     read of a stream transport holding many messages, a socket drained in a loop; in the pacing sub-checks
//!     additionally: the application is not inside `receive()` at all). The oracle runs over the history with the
//!     bursts written out: every response of a burst counts like one that arrived alone (handed out in order,
//!     the final one behind a burst of provisional ones is not lost, duplicates of a final are absorbed).
//! Oracle (reference schedule `refmodel::ref_tsx`): transmission instants / exactly-once on reliable transports,
//! byte-identical retransmissions to the same destination, the sequence and instants of `receive()` results
//! (responses, timeout at 64*T1, INVITE completion), T4 absorber of the non-INVITE transaction (transaction-table
//! probes). Not asserted: non-INVITE retransmission / timeout while Proceeding, 1xx/3xx-6xx handed out in Accepted,
//! the sent-by text on the wire (C07 compares the ACK's Via with the INVITE's).
//! Sub-checks `pacing_grid` / `pacing` (fn `pacing_check`): see the comment block further down.

use crate::engine::*;
use crate::refmodel::ref_tsx::{self, T1 as T1X, T4, TIMEOUT};
use crate::world::*;
use parking_lot::Mutex;
use proptest::prelude::*;
use serde::{Deserialize, Serialize};
use sip_core::transport::TargetTransportInfo;
use sip_core::Request;
use sip_types::uri::sip::SipUri;
use sip_types::{Method, Name};
use std::net::SocketAddr;
use std::sync::Arc;

#[derive(Serialize, Deserialize, Clone, Debug, Hash)]
pub struct Resp {
    /// arrival time, ms after the first send
    pub t_ms: u64,
    pub code: u16,
    /// the peer added `;received=<address it saw>` to the top Via it echoes (RFC 3261 18.2.1: every server does
    /// so when the sent-by host differs from the packet source, e.g. behind a NAT or with a host name in Via)
    #[serde(default)]
    pub received: bool,
    /// the response datagram comes from another address/port than the one the request was sent to (multi-homed
    /// or NATed peer); responses are matched by top-Via branch + CSeq method only (RFC 3261 17.1.3)
    #[serde(default)]
    pub other_source: bool,
    /// the response is handed to the endpoint with another transport handle than the one the request was sent
    /// with (a second socket / another connection of the same peer: `ReceivedMessage.tp_info.transport` differs);
    /// it belongs to the transaction all the same (branch + CSeq method)
    #[serde(default)]
    pub other_transport: bool,
    /// this response is the last one of a burst: `burst` further responses with status `burst_code` are handed
    /// to the endpoint immediately before it, in the same instant and before any task of the stack gets to run
    /// (one read of a stream transport that holds many messages, a socket drained in a loop, a busy executor).
    /// 0 = the response arrives alone.
    #[serde(default)]
    pub burst: u16,
    #[serde(default)]
    pub burst_code: u16,
}

impl Resp {
    pub fn plain(t_ms: u64, code: u16) -> Self {
        Resp { t_ms, code, received: false, other_source: false, other_transport: false, burst: 0, burst_code: 0 }
    }
}

/// one response as it reaches the endpoint (`Resp` with its burst written out); the marker of the i-th entry of
/// the flattened history is `m<i>`
#[derive(Clone, Debug)]
pub struct Flat {
    pub t_ms: u64,
    pub code: u16,
    pub received: bool,
    pub other_source: bool,
    pub other_transport: bool,
    /// handed to the endpoint right behind the previous entry: no task ran in between
    pub glued: bool,
}

pub fn flatten(responses: &[Resp]) -> Vec<Flat> {
    let mut out = vec![];
    for r in responses {
        for k in 0..r.burst {
            out.push(Flat {
                t_ms: r.t_ms,
                code: r.burst_code,
                received: r.received,
                other_source: r.other_source,
                other_transport: r.other_transport,
                glued: k > 0,
            });
        }
        out.push(Flat {
            t_ms: r.t_ms,
            code: r.code,
            received: r.received,
            other_source: r.other_source,
            other_transport: r.other_transport,
            glued: r.burst > 0,
        });
    }
    out
}

/// burst lengths: small ones and the neighbourhood of the usual queue / batch sizes
pub const BURSTS: &[u16] = &[1, 2, 3, 7, 8, 9, 15, 16, 17, 31, 32, 33, 40, 63, 64, 65, 100, 127, 128, 129];

/// where a response flagged `other_transport` is received: a second transport of the same kind
pub const OTHER_TRANSPORT_BOUND: &str = "10.0.0.1:5062";

#[derive(Serialize, Deserialize, Clone, Debug, Hash)]
pub struct Case {
    pub invite: bool,
    pub reliable: bool,
    pub responses: Vec<Resp>,
    /// seed for tokio's select!/scheduler randomness
    pub rng: u8,
    /// `TargetTransportInfo::via_host_port`: the sent-by the application wants in the Via of this request instead
    /// of the transport's own address (public address of a NAT, host name, socket bound to 0.0.0.0)
    #[serde(default)]
    pub via_host_port: Option<String>,
}

/// sent-by overrides: another address, a host name, an IPv6 reference, the transport's own host with another
/// port, the transport's own host without a port
pub const VIA_OVERRIDES: &[&str] = &[
    "198.51.100.7:5099",
    "nat.example.com",
    "[2001:db8::1]:5060",
    "10.0.0.1:5070",
    "10.0.0.1",
    "PBX.Example.COM:5060",
];

pub fn host_port_of(s: &str) -> Option<sip_types::host::HostPort> {
    // through a URI: the public way to obtain a HostPort from text
    let uri: SipUri = format!("sip:{s}").parse().ok()?;
    Some(uri.host_port)
}

/// where a response flagged `other_source` comes from
pub const OTHER_SOURCE: &str = "192.0.2.200:40123";

#[derive(Clone, Debug, PartialEq)]
pub enum Res {
    Resp(u16, String),
    Finished,
    Err(String),
}

pub struct Observed {
    pub sends: Vec<Sent>,
    pub others: Vec<(Sent, Option<WireMsg>)>,
    pub results: Vec<(u64, Res)>,
    pub counts: Vec<(u64, usize)>,
    pub first_request: Option<WireMsg>,
    /// (virtual time, world send-call ordinal, destination) of every `Transport::send` the fault plan failed
    pub failed_sends: Vec<(u64, usize, SocketAddr)>,
}

/// per scripted response: how it is delivered / what the transport does while it is handled
#[derive(Clone, Debug, Default)]
pub struct Delivery {
    /// packet source (default: the address the request was sent to)
    pub source: Option<SocketAddr>,
    /// the next `Transport::send` call made while this response is being handled fails with an io::Error
    /// (transient fault, e.g. ECONNREFUSED after an ICMP port-unreachable); if handling the response makes no
    /// send call the fault is withdrawn again, it never hits a later, unrelated send
    pub fail_send: bool,
    /// the endpoint gets the response with the handle of a second transport (same kind, other local address)
    pub other_transport: bool,
    /// delivered right behind the previous response (which must have the same arrival instant): no task runs
    /// in between. Do not combine with `fail_send` on this or the previous response.
    pub glued: bool,
}

/// how the application drives the transaction object (poll-driven API): when it calls `receive()` for the first
/// time and how long it is busy after every response before it calls `receive()` again. Default = at once.
#[derive(Clone, Debug, Default)]
pub struct Pace {
    pub first_poll: u64,
    pub thinks: Vec<u64>,
}

const CODES: &[u16] = &[100, 180, 183, 200, 202, 302, 404, 486, 503, 603];

fn avoid_edges(invite: bool, t: u64) -> u64 {
    let sched = ref_tsx::client_send_schedule(invite);
    let mut t = t.max(1);
    while sched.contains(&t) || t == TIMEOUT {
        t += 1;
    }
    t
}

fn first_time_grid(invite: bool) -> Vec<u64> {
    let mut g = vec![1, 2, 250];
    for s in ref_tsx::client_send_schedule(invite) {
        if s > 0 {
            g.push(s - 1);
        }
        g.push(s + 1);
    }
    g.extend([TIMEOUT - 1, TIMEOUT + 1, TIMEOUT + 700]);
    g.sort();
    g.dedup();
    g
}

const TAIL_OFFSETS: &[u64] = &[
    0, 1, 499, 500, 501, T4 - 1, T4 + 1, 20_000, TIMEOUT - 1, TIMEOUT + 1, 2 * TIMEOUT,
];

/// (which response gets the burst, burst length, status of the burst members: 100 | 180 | the response's own)
type BurstSel = Option<(u16, u16, u8)>;

fn burst_sel(one_in: u32) -> BoxedStrategy<BurstSel> {
    prop_oneof![
        one_in - 1 => Just(None),
        1 => (any::<u16>(), any::<u16>(), prop_oneof![2 => Just(0u8), 2 => Just(1u8), 1 => Just(2u8)]).prop_map(Some),
    ]
    .boxed()
}

fn apply_burst(responses: &mut [Resp], sel: BurstSel) {
    if let Some((which, len, kind)) = sel {
        if responses.is_empty() {
            return;
        }
        let r = &mut responses[pick_idx(which, responses.len())];
        r.burst = BURSTS[pick_idx(len, BURSTS.len())];
        r.burst_code = match kind {
            0 => 100,
            1 => 180,
            _ => r.code,
        };
    }
}

pub fn strategy() -> BoxedStrategy<Case> {
    (
        any::<bool>(),
        prop_oneof![3 => Just(false), 1 => Just(true)],
        prop::collection::vec(
            (
                (any::<u16>(), any::<u16>(), 0u64..40_000, any::<bool>()),
                prop_oneof![3 => Just(false), 1 => Just(true)],
                prop_oneof![4 => Just(false), 1 => Just(true)],
                prop_oneof![5 => Just(false), 1 => Just(true)],
            ),
            0..5,
        ),
        any::<u8>(),
        prop_oneof![3 => Just(None), 2 => prop::sample::select(VIA_OVERRIDES.to_vec()).prop_map(|s| Some(s.to_string()))],
        burst_sel(6),
    )
        .prop_map(|(invite, reliable, raw, rng, via_host_port, burst)| {
            let grid = first_time_grid(invite);
            let mut responses = vec![];
            let mut t = 0u64;
            for (i, ((tsel, csel, rnd, use_rnd), received, other_source, other_transport)) in raw.into_iter().enumerate() {
                if i == 0 {
                    t = if use_rnd { rnd } else { grid[pick_idx(tsel, grid.len())] };
                } else {
                    t += if use_rnd {
                        rnd
                    } else {
                        TAIL_OFFSETS[pick_idx(tsel, TAIL_OFFSETS.len())]
                    };
                }
                t = avoid_edges(invite, t);
                responses.push(Resp {
                    t_ms: t,
                    code: CODES[pick_idx(csel, CODES.len())],
                    received,
                    other_source,
                    other_transport,
                    burst: 0,
                    burst_code: 0,
                });
            }
            apply_burst(&mut responses, burst);
            Case {
                invite,
                reliable,
                responses,
                rng,
                via_host_port,
            }
        })
        .boxed()
}

/// the finite grid: kind × reliability × Via sent-by (transport's own / overridden) × first response time × class;
/// thorough adds one follow-up response (own Via only)
pub fn grid_cases(tier: Tier) -> Vec<Case> {
    let mut out = vec![];
    for invite in [false, true] {
        for reliable in [false, true] {
            for via in [None, Some(VIA_OVERRIDES[0]), Some(VIA_OVERRIDES[1])] {
                let via_host_port = via.map(str::to_string);
                out.push(Case {
                    invite,
                    reliable,
                    responses: vec![],
                    rng: 0,
                    via_host_port: via_host_port.clone(),
                });
                for t in first_time_grid(invite) {
                    for &code in &[100u16, 180, 200, 404] {
                        // with an overridden sent-by a real peer adds received= (the host differs from the source)
                        let first = Resp { received: via.is_some(), ..Resp::plain(t, code) };
                        out.push(Case {
                            invite,
                            reliable,
                            responses: vec![first.clone()],
                            rng: 1,
                            via_host_port: via_host_port.clone(),
                        });
                        if tier == Tier::Thorough && via.is_none() {
                            for &off in TAIL_OFFSETS {
                                for &code2 in &[180u16, 200, 404] {
                                    out.push(Case {
                                        invite,
                                        reliable,
                                        responses: vec![first.clone(), Resp::plain(avoid_edges(invite, t + off), code2)],
                                        rng: 2,
                                        via_host_port: None,
                                    });
                                }
                            }
                        }
                    }
                }
            }
            // bursts: N provisional responses and then `code`, all handed to the endpoint in one go
            for &burst in BURSTS {
                for &burst_code in &[100u16, 180] {
                    for &code in &[180u16, 200, 404] {
                        out.push(Case {
                            invite,
                            reliable,
                            responses: vec![Resp { burst, burst_code, ..Resp::plain(250, code) }],
                            rng: 3,
                            via_host_port: None,
                        });
                    }
                }
            }
        }
    }
    out
}

pub fn base_request(invite: bool) -> Request {
    let uri: SipUri = "sip:bob@192.0.2.1:5060".parse().unwrap();
    let mut request = Request::new(
        if invite { Method::INVITE } else { Method::OPTIONS },
        uri,
    );
    request
        .headers
        .insert(Name::FROM, "\"Alice\" <sip:alice@example.org>;tag=ftag1");
    request.headers.insert(Name::TO, "<sip:bob@example.net>");
    request.headers.insert(Name::CALL_ID, "c05-call@example.org");
    request.headers.insert(
        Name::CSEQ,
        if invite { "7 INVITE" } else { "7 OPTIONS" },
    );
    request.headers.insert(Name::MAX_FORWARDS, "70");
    request
}

/// Drive one client transaction against scripted responses; shared with C07.
pub fn run_client(
    invite: bool,
    reliable: bool,
    request: Request,
    responses: Vec<(u64, Box<dyn Fn(&WireMsg) -> Vec<u8> + Send>)>,
    probes: Vec<u64>,
    horizon: u64,
    rng: u64,
    via_host_port: Option<sip_types::host::HostPort>,
) -> Observed {
    run_client_ex(invite, reliable, request, responses, vec![], probes, horizon, rng, via_host_port)
}

/// `run_client` plus a per-response delivery description, the application polls at once.
pub fn run_client_ex(
    invite: bool,
    reliable: bool,
    request: Request,
    responses: Vec<(u64, Box<dyn Fn(&WireMsg) -> Vec<u8> + Send>)>,
    delivery: Vec<Delivery>,
    probes: Vec<u64>,
    horizon: u64,
    rng: u64,
    via_host_port: Option<sip_types::host::HostPort>,
) -> Observed {
    run_client_paced(invite, reliable, request, responses, delivery, Pace::default(), probes, horizon, rng, via_host_port)
}

/// `run_client` plus a per-response delivery description (`delivery[i]` belongs to `responses[i]`; missing
/// entries = default delivery: from the request's destination, on the request's transport, alone, no transport
/// fault) and the pace at which the application calls `receive()`.
pub fn run_client_paced(
    invite: bool,
    reliable: bool,
    request: Request,
    responses: Vec<(u64, Box<dyn Fn(&WireMsg) -> Vec<u8> + Send>)>,
    delivery: Vec<Delivery>,
    pace: Pace,
    probes: Vec<u64>,
    horizon: u64,
    rng: u64,
    via_host_port: Option<sip_types::host::HostPort>,
) -> Observed {
    run_world(rng, |clock| async move {
        let log = WireLog::new(clock);
        let (tp, _id) = mock_datagram(&log, "UDP", false, reliable, "10.0.0.1:5060");
        // a second transport of the same kind: responses flagged `other_transport` are received on it
        let (tp2, _id2) = mock_datagram(&log, "UDP", false, reliable, OTHER_TRANSPORT_BOUND);
        let endpoint = offline_builder().build();
        let peer: SocketAddr = "192.0.2.1:5060".parse().unwrap();
        let mut target = TargetTransportInfo {
            via_host_port,
            transport: Some((tp.clone(), peer)),
        };
        let results: Arc<Mutex<Vec<(u64, Res)>>> = Default::default();
        let method = request.line.method.to_string();

        let marker_of = |r: &sip_core::transaction::TsxResponse| -> String {
            r.headers
                .iter()
                .find(|(n, _)| n.as_print_str().eq_ignore_ascii_case("x-seq"))
                .map(|(_, v)| v.to_string())
                .unwrap_or_default()
        };

        if invite {
            match endpoint.send_invite(request, &mut target).await {
                Ok(mut tsx) => {
                    let results = results.clone();
                    let pace = pace.clone();
                    tokio::spawn(async move {
                        clock.until(pace.first_poll).await;
                        let mut thinks = pace.thinks.into_iter();
                        loop {
                            match tsx.receive().await {
                                Ok(Some(r)) => {
                                    results.lock().push((
                                        clock.now_ms(),
                                        Res::Resp(r.line.code.into_u16(), marker_of(&r)),
                                    ));
                                    let th = thinks.next().unwrap_or(0);
                                    if th > 0 {
                                        clock.advance(th).await;
                                    }
                                }
                                Ok(None) => {
                                    results.lock().push((clock.now_ms(), Res::Finished));
                                    break;
                                }
                                Err(e) => {
                                    results.lock().push((clock.now_ms(), Res::Err(e.to_string())));
                                    break;
                                }
                            }
                        }
                    });
                }
                Err(e) => results.lock().push((clock.now_ms(), Res::Err(format!("send: {e}")))),
            }
        } else {
            match endpoint.send_request(request, &mut target).await {
                Ok(mut tsx) => {
                    let results = results.clone();
                    let pace = pace.clone();
                    tokio::spawn(async move {
                        clock.until(pace.first_poll).await;
                        let mut thinks = pace.thinks.into_iter();
                        loop {
                            match tsx.receive().await {
                                Ok(r) => {
                                    let code = r.line.code.into_u16();
                                    results
                                        .lock()
                                        .push((clock.now_ms(), Res::Resp(code, marker_of(&r))));
                                    if code >= 200 {
                                        break;
                                    }
                                    let th = thinks.next().unwrap_or(0);
                                    if th > 0 {
                                        clock.advance(th).await;
                                    }
                                }
                                Err(e) => {
                                    results.lock().push((clock.now_ms(), Res::Err(e.to_string())));
                                    break;
                                }
                            }
                        }
                    });
                }
                Err(e) => results.lock().push((clock.now_ms(), Res::Err(format!("send: {e}")))),
            }
        }
        settle().await;
        let first_request = log.snapshot().first().and_then(|s| WireMsg::parse(&s.bytes));

        enum Ev {
            Resp(usize),
            Probe,
        }
        let mut events: Vec<(u64, usize, Ev)> = vec![];
        for (i, (t, _)) in responses.iter().enumerate() {
            events.push((*t, i, Ev::Resp(i)));
        }
        for (i, t) in probes.iter().enumerate() {
            events.push((*t, 1_000_000 + i, Ev::Probe));
        }
        events.sort_by_key(|e| (e.0, e.1));
        let mut counts = vec![];
        // is the response event behind position `k` glued to the one at `k` (same instant, flagged `glued`)
        let glued_next: Vec<bool> = (0..events.len())
            .map(|k| match (&events[k], events.get(k + 1)) {
                ((t, _, Ev::Resp(_)), Some((t2, _, Ev::Resp(j)))) => t == t2 && delivery.get(*j).map_or(false, |d| d.glued),
                _ => false,
            })
            .collect();
        for (k, (t, _, ev)) in events.into_iter().enumerate() {
            clock.until(t).await;
            match ev {
                Ev::Resp(i) => {
                    let how = delivery.get(i).cloned().unwrap_or_default();
                    // fault plan: the very next send call of the world fails
                    let planned = if how.fail_send {
                        let n = log.faults.lock().calls;
                        log.fail_calls([n]);
                        Some(n)
                    } else {
                        None
                    };
                    if let Some(req) = &first_request {
                        let bytes = (responses[i].1)(req);
                        let via = if how.other_transport { &tp2 } else { &tp };
                        inject(&endpoint, via, how.source.unwrap_or(peer), &bytes);
                    }
                    if glued_next[k] {
                        // burst: the next response reaches the endpoint before any task runs
                        continue;
                    }
                    settle().await;
                    if let Some(n) = planned {
                        // nothing was sent while the response was handled: withdraw the fault
                        let mut f = log.faults.lock();
                        if f.calls == n {
                            f.fail_calls.remove(&n);
                        }
                    }
                }
                Ev::Probe => {
                    settle().await;
                    counts.push((t, endpoint.verif_counts().0));
                }
            }
        }
        clock.until(horizon).await;
        settle().await;
        counts.push((horizon, endpoint.verif_counts().0));

        let mut sends = vec![];
        let mut others = vec![];
        for (s, m) in log.parsed() {
            match &m {
                Some(mm) if mm.method() == Some(method.as_str()) => sends.push(s),
                _ => others.push((s, m)),
            }
        }
        let results = results.lock().clone();
        Observed {
            sends,
            others,
            results,
            counts,
            first_request,
            failed_sends: log.failed_sends(),
        }
    })
}

fn is_final(code: u16) -> bool {
    code >= 200
}

/// results for notes / messages: long lists (bursts) are abbreviated in the middle
pub fn brief(results: &[(u64, Res)]) -> String {
    if results.len() <= 12 {
        format!("{results:?}")
    } else {
        format!(
            "{:?} ..{} more.. {:?}",
            &results[..6],
            results.len() - 10,
            &results[results.len() - 4..]
        )
    }
}

/// what an RFC 3261 18.2.1 server does to the top Via before echoing it: append `;received=<packet source>`
pub fn add_received(response: Vec<u8>) -> Vec<u8> {
    let text = String::from_utf8(response).expect("ascii");
    let mut out = String::with_capacity(text.len() + 32);
    let mut done = false;
    for line in text.split_inclusive("\r\n") {
        if !done && line.to_ascii_lowercase().starts_with("via:") {
            done = true;
            out.push_str(line.trim_end());
            out.push_str(";received=203.0.113.77\r\n");
        } else {
            out.push_str(line);
        }
    }
    out.into_bytes()
}

pub fn check(case: &Case, out: &mut CaseOut) {
    let invite = case.invite;
    let sched = ref_tsx::client_send_schedule(invite);
    // the response history as it reaches the endpoint (bursts written out); markers m<i> follow this list
    let flat = flatten(&case.responses);
    let horizon = flat
        .last()
        .map(|r| r.t_ms)
        .unwrap_or(0)
        .max(TIMEOUT)
        + 5 * TIMEOUT
        + 1000;

    // ---- reference: which responses the transaction must still surface ----
    #[derive(Debug)]
    struct Exp {
        t: u64,
        res: Res,
        optional: bool,
    }
    let mut expected: Vec<Exp> = vec![];
    let r0 = flat.first().map(|r| r.t_ms).filter(|t| *t < TIMEOUT);
    let mut final_at: Option<u64> = None;
    let mut first_2xx: Option<u64> = None;
    let mut saw_provisional_only = false;
    if r0.is_none() {
        expected.push(Exp {
            t: TIMEOUT,
            res: Res::Err("request timed out".into()),
            optional: false,
        });
    } else {
        let mut done = false;
        for (i, r) in flat.iter().enumerate() {
            let marker = format!("m{i}");
            if done {
                break;
            }
            if !invite {
                // non-INVITE: the deadline 64*T1 also ends Proceeding (not asserted: see below)
                if r.t_ms > TIMEOUT && final_at.is_none() {
                    break;
                }
                expected.push(Exp {
                    t: r.t_ms,
                    res: Res::Resp(r.code, marker),
                    optional: false,
                });
                if is_final(r.code) {
                    final_at = Some(r.t_ms);
                    done = true;
                }
            } else if let Some(f2) = first_2xx {
                // Accepted: further 2xx within 64*T1 are handed to the caller; anything else unasserted
                if r.t_ms >= f2 + TIMEOUT {
                    if r.t_ms == f2 + TIMEOUT {
                        continue;
                    }
                    break;
                }
                expected.push(Exp {
                    t: r.t_ms,
                    res: Res::Resp(r.code, marker),
                    optional: !(200..300).contains(&r.code),
                });
            } else {
                expected.push(Exp {
                    t: r.t_ms,
                    res: Res::Resp(r.code, marker),
                    optional: false,
                });
                if (200..300).contains(&r.code) {
                    first_2xx = Some(r.t_ms);
                } else if is_final(r.code) {
                    final_at = Some(r.t_ms);
                    expected.push(Exp {
                        t: r.t_ms,
                        res: Res::Finished,
                        optional: false,
                    });
                    done = true;
                }
            }
        }
        if invite {
            if let Some(f2) = first_2xx {
                expected.push(Exp {
                    t: f2 + TIMEOUT,
                    res: Res::Finished,
                    optional: false,
                });
            }
        }
        if final_at.is_none() && first_2xx.is_none() {
            saw_provisional_only = true;
        }
    }

    // probes for the completed-state absorber of a non-INVITE transaction
    let mut probes = vec![];
    if !invite {
        if let Some(f) = final_at {
            probes.extend([f + 1, f + T4 - 1, f + T4 + 1]);
        }
    }

    let responses: Vec<(u64, Box<dyn Fn(&WireMsg) -> Vec<u8> + Send>)> = flat
        .iter()
        .enumerate()
        .map(|(i, r)| {
            let code = r.code;
            let received = r.received;
            let f: Box<dyn Fn(&WireMsg) -> Vec<u8> + Send> = Box::new(move |req: &WireMsg| {
                let bytes = response_text(
                    req,
                    code,
                    if code > 100 { Some("peertag") } else { None },
                    &[format!("X-Seq: m{i}"), "Contact: <sip:bob@192.0.2.1>".to_string()],
                );
                if received {
                    add_received(bytes)
                } else {
                    bytes
                }
            });
            (r.t_ms, f)
        })
        .collect();
    let delivery: Vec<Delivery> = flat
        .iter()
        .map(|r| Delivery {
            source: if r.other_source { Some(OTHER_SOURCE.parse().unwrap()) } else { None },
            fail_send: false,
            other_transport: r.other_transport,
            glued: r.glued,
        })
        .collect();

    let obs = run_client_ex(
        invite,
        case.reliable,
        base_request(invite),
        responses,
        delivery,
        probes.clone(),
        horizon,
        case.rng as u64,
        case.via_host_port.as_deref().and_then(host_port_of),
    );

    // ---- classes / non-triviality ----
    out.class(if invite { "invite" } else { "non-invite" });
    out.class(if case.reliable { "reliable" } else { "unreliable" });
    let near_edge = flat.iter().any(|r| {
        sched.iter().any(|s| r.t_ms.abs_diff(*s) <= 1) || r.t_ms.abs_diff(TIMEOUT) <= 1
    });
    let dup_final = flat.iter().filter(|r| is_final(r.code)).count() >= 2;
    if near_edge {
        out.class("response-within-1ms-of-timer-edge");
    }
    if dup_final {
        out.class("duplicate-or-late-final");
    }
    if obs.sends.len() > 1 {
        out.class("retransmission-observed");
    }
    if r0.is_none() {
        out.class("no-response-before-timeout");
    }
    if saw_provisional_only {
        out.class("provisional-only");
    }
    if let Some(v) = &case.via_host_port {
        out.class("Via sent-by overridden (TargetTransportInfo::via_host_port)");
        // harness sanity, not an oracle: the override must be a usable host[:port]
        if host_port_of(v).is_none() {
            out.fail("c05.harness/via-host-port", format!("generator produced an unusable sent-by {v:?}"));
        }
        if r0.is_some() {
            out.class("Via sent-by overridden and a response arrives before 64*T1");
        }
    }
    if case.responses.iter().any(|r| r.received) {
        out.class("response whose top Via carries received=");
    }
    if case.responses.iter().any(|r| r.other_source) {
        out.class("response from another source address than the request's destination");
    }
    if case.responses.iter().any(|r| r.other_transport) {
        out.class("response received on another transport handle than the request was sent with");
    }
    let mut bursty = false;
    for r in case.responses.iter().filter(|r| r.burst > 0) {
        bursty = true;
        out.class(match r.burst {
            0..=31 => "burst of 2..32 responses handed to the endpoint in one go",
            32..=127 => "burst of 33..128 responses handed to the endpoint in one go",
            _ => "burst of more than 128 responses handed to the endpoint in one go",
        });
        if r.burst_code < 200 && is_final(r.code) {
            out.class("final response at the end of a burst of provisional ones");
        }
        if is_final(r.burst_code) {
            out.class("burst of identical final responses");
        }
    }
    if obs.sends.len() > 1 || near_edge || dup_final || bursty {
        out.nontrivial(case);
    }
    out.note = Some(format!(
        "sends@{:?} results={} tsx_counts={:?}",
        obs.sends.iter().map(|s| s.t_ms).collect::<Vec<_>>(),
        brief(&obs.results),
        obs.counts
    ));

    // ---- oracle 1: transmission instants ----
    let kind = if invite { "invite" } else { "non-invite" };
    let send_times: Vec<u64> = obs.sends.iter().map(|s| s.t_ms).collect();
    if case.reliable {
        if send_times != vec![0] {
            out.fail(
                format!("c05.schedule/reliable-{kind}"),
                format!("reliable transport: expected exactly one send at 0, got {send_times:?}"),
            );
        }
    } else {
        let stop = r0.unwrap_or(TIMEOUT);
        let want: Vec<u64> = sched.iter().copied().filter(|t| *t < stop).collect();
        let got_before: Vec<u64> = send_times.iter().copied().filter(|t| *t < stop).collect();
        if got_before != want {
            out.fail(
                format!("c05.schedule/{kind}-interval"),
                format!("unreliable {kind}: sends before first response/timeout ({stop} ms) expected at {want:?}, observed {got_before:?}"),
            );
        }
        let after: Vec<u64> = send_times.iter().copied().filter(|t| *t > stop).collect();
        if !after.is_empty() {
            let first_is_prov = flat.first().map_or(false, |r| r.code < 200);
            if r0.is_none() {
                out.fail(
                    format!("c05.schedule/{kind}-send-after-timeout"),
                    format!("request re-sent after 64*T1: {after:?}"),
                );
            } else if invite {
                out.fail(
                    "c05.schedule/invite-retransmit-after-response",
                    format!("INVITE re-sent at {after:?} although a response arrived at {stop}"),
                );
            } else if !first_is_prov {
                out.fail(
                    "c05.schedule/non-invite-retransmit-after-final",
                    format!("request re-sent at {after:?} although a final response arrived at {stop}"),
                );
            }
            // non-INVITE in Proceeding: retransmission not asserted (statement: "while no response has arrived")
        }
    }
    if let Some(first) = obs.sends.first() {
        if obs.sends.iter().any(|s| s.bytes != first.bytes) {
            out.fail(
                format!("c05.identical/{kind}"),
                "a retransmission is not byte-identical to the first transmission",
            );
        }
        if obs.sends.iter().any(|s| s.dest != first.dest || s.tp != first.tp) {
            out.fail(
                format!("c05.identical/{kind}-destination"),
                "a retransmission went to another destination/transport",
            );
        }
    } else {
        out.fail("c05.schedule/no-send", "request never sent");
    }

    // ---- oracle 2: what receive() yields ----
    let mut ei = 0;
    let mut bad: Option<String> = None;
    for (t, res) in &obs.results {
        // skip optional expectations that do not match
        loop {
            match expected.get(ei) {
                None => {
                    // unasserted: a non-INVITE that only saw provisionals may time out at/after 64*T1
                    if !invite && saw_provisional_only && matches!(res, Res::Err(_)) && *t >= TIMEOUT {
                        break;
                    }
                    bad = Some(format!("unexpected result {res:?} at {t} ms"));
                    break;
                }
                Some(e) => {
                    let time_ok = match &e.res {
                        Res::Resp(..) => *t == e.t,
                        Res::Finished if final_at.is_some() => *t == e.t,
                        _ => t.abs_diff(e.t) <= 2,
                    };
                    let same = match (&e.res, res) {
                        (Res::Resp(c, m), Res::Resp(c2, m2)) => c == c2 && m == m2,
                        (Res::Finished, Res::Finished) => true,
                        (Res::Err(_), Res::Err(msg)) => msg.contains("timed out"),
                        _ => false,
                    };
                    if same && time_ok {
                        ei += 1;
                        break;
                    } else if e.optional {
                        ei += 1;
                        continue;
                    } else {
                        bad = Some(format!(
                            "expected {:?} at {} ms, observed {res:?} at {t} ms",
                            e.res, e.t
                        ));
                        break;
                    }
                }
            }
        }
        if bad.is_some() {
            break;
        }
    }
    if bad.is_none() {
        if let Some(e) = expected[ei.min(expected.len())..].iter().find(|e| !e.optional) {
            bad = Some(format!("missing result {:?} expected at {} ms", e.res, e.t));
        }
    }
    if let Some(b) = bad {
        let locus = if r0.is_none() {
            "timeout"
        } else if saw_provisional_only {
            "after-provisional"
        } else if first_2xx.is_some() {
            "accepted"
        } else {
            "final"
        };
        out.fail(
            format!("c05.results/{kind}-{locus}"),
            format!("{b}; all results: {}", brief(&obs.results)),
        );
    }

    // ---- oracle 3: completed-state absorber (non-INVITE) ----
    if !invite {
        if let Some(f) = final_at {
            for (t, n) in &obs.counts {
                let want = if *t == horizon {
                    0
                } else if case.reliable {
                    0
                } else if *t < f + T4 {
                    1
                } else {
                    0
                };
                if *n != want {
                    out.fail(
                        if case.reliable {
                            "c05.absorb/reliable-terminates"
                        } else if *t < f + T4 {
                            "c05.absorb/t4-window-too-short"
                        } else {
                            "c05.absorb/t4-window-too-long"
                        },
                        format!("transaction table holds {n} entries at {t} ms (final at {f} ms), expected {want}"),
                    );
                }
            }
            // nothing may be sent because of late duplicates
            if !obs.others.is_empty() {
                out.fail(
                    "c05.absorb/unexpected-output",
                    format!("non-INVITE client transaction produced other messages: {}", obs.others.len()),
                );
            }
        }
    }
    if r0.is_none() || (final_at.is_some() && !invite) {
        if let Some((t, n)) = obs.counts.last() {
            if *n != 0 {
                out.fail(
                    "c05.absorb/leftover-registration",
                    format!("{n} transaction entries left at horizon {t} ms"),
                );
            }
        }
    }
}


// ------------------------------------------------------------------------------------------------------------
// sub-check "pacing": the application and the transport are not instantaneous
//
// The transaction objects are poll-driven: the application calls `receive()` when it gets round to it and a
// transport `send` takes time. This sub-check varies (a) how long a `send` stays pending after the bytes went
// out, (b) when the application first calls `receive()` — at once, between retransmission instants, or only
// after 64*T1 have passed (then no retransmission was ever due from the caller's side, but whatever arrived in
// time is queued and still has to come out), (c) how long it thinks after every result before it calls
// `receive()` again; plus the Via / delivery shapes of the main sub-check. Responses arrive on the wire clock regardless (also while a send is pending and
// while the application is busy; a burst of up to 130 of them in one go, see the file header). What is asserted is
// what the statement fixes independently of pacing:
//   * the first transmission happens at once; a retransmission is never sent sooner after the previous
//     transmission than the RFC interval for its ordinal (T1, 2*T1, 4*T1 ... / capped at T2 for non-INVITE):
//     pacing may delay retransmissions, it must not compress them into bursts;
//   * nothing is transmitted after the first response arrived (INVITE: any response; non-INVITE: a final one)
//     nor after 64*T1 (+ the duration of a pending send); a reliable transport sends exactly once;
//   * no response is lost: each response that arrived while the transaction could still accept it is handed
//     to the caller, in arrival order, as soon as the caller asks (never before it arrived); the 2xx window
//     of an INVITE counts from the first 2xx: every 2xx that ARRIVED within 64*T1 of the first one's arrival
//     must come out even if the caller asks late, completion is reported afterwards and not before.
// A first response that arrives after 64*T1 but before the caller's first `receive()`: transmissions are still
// checked, the results are not (timeout or late response: the statement fixes neither).
// Not asserted here: the exact instants of delayed retransmissions (they depend on when the caller polls);
// what happens to responses arriving between "64*T1 after the first 2xx arrived" and "64*T1 after the caller
// took it"; non-INVITE Proceeding timeout.

#[derive(Serialize, Deserialize, Clone, Debug, Hash)]
pub struct PCase {
    pub invite: bool,
    pub reliable: bool,
    /// a transport `send` stays pending this long after the bytes went out
    pub send_delay: u64,
    /// the application calls `receive()` for the first time at this instant (ms after the first send started)
    pub first_poll: u64,
    /// think time after the i-th result before `receive()` is called again
    pub thinks: Vec<u64>,
    pub responses: Vec<Resp>,
    pub rng: u8,
    /// as in `Case`
    #[serde(default)]
    pub via_host_port: Option<String>,
}

const SEND_DELAYS: &[u64] = &[0, 0, 5, 50, 400];
/// the application may also get round to its first `receive()` only after 64*T1 have passed (a busy event
/// loop, a caller that first awaits something else): whatever arrived in time is queued and must come out
const FIRST_POLLS: &[u64] = &[0, 0, 1, 300, 700, 2_000, 10_000, 20_000, 29_000, TIMEOUT + 1, 33_000, 50_000];
const THINKS: &[u64] = &[0, 0, 10, 600, 5_000, 33_000];

fn pacing_strategy() -> BoxedStrategy<PCase> {
    (
        any::<bool>(),
        prop_oneof![4 => Just(false), 1 => Just(true)],
        any::<u16>(),
        (any::<u16>(), prop_oneof![3 => 0u64..29_000, 1 => (TIMEOUT + 500)..80_000], any::<bool>()),
        prop::collection::vec(any::<u16>(), 0..5),
        prop::collection::vec(
            (
                (any::<u16>(), any::<u16>(), 0u64..40_000, any::<bool>()),
                prop_oneof![4 => Just(false), 1 => Just(true)],
                prop_oneof![5 => Just(false), 1 => Just(true)],
                prop_oneof![6 => Just(false), 1 => Just(true)],
            ),
            0..5,
        ),
        any::<u8>(),
        prop_oneof![3 => Just(None), 1 => prop::sample::select(VIA_OVERRIDES.to_vec()).prop_map(|s| Some(s.to_string()))],
        burst_sel(6),
    )
        .prop_map(|(invite, reliable, dsel, (psel, prnd, puse), tsel, raw, rng, via_host_port, burst)| {
            let send_delay = SEND_DELAYS[pick_idx(dsel, SEND_DELAYS.len())];
            let mut first_poll = if puse { prnd } else { FIRST_POLLS[pick_idx(psel, FIRST_POLLS.len())] };
            // the deadline counts from the end of the first send: a first receive() exactly on it is a tie
            if first_poll == TIMEOUT + send_delay {
                first_poll += 1;
            }
            let thinks = tsel.into_iter().map(|s| THINKS[pick_idx(s, THINKS.len())]).collect();
            let mut grid = first_time_grid(invite);
            grid.extend([3, 10, 40, 60, first_poll.saturating_sub(1).max(1), first_poll + 1, first_poll + 501]);
            grid.sort();
            let mut responses = vec![];
            let mut t = 0u64;
            for (i, ((tsel, csel, rnd, use_rnd), received, other_source, other_transport)) in raw.into_iter().enumerate() {
                if i == 0 {
                    t = if use_rnd { rnd } else { grid[pick_idx(tsel, grid.len())] };
                } else {
                    t += if use_rnd { rnd } else { TAIL_OFFSETS[pick_idx(tsel, TAIL_OFFSETS.len())] };
                }
                t = t.max(1);
                // keep clear of the 64*T1 deadline, which a pending send moves by up to its duration
                // (the deadline counts from the end of the first send and is noticed only between sends)
                if t + 2 >= TIMEOUT && t <= TIMEOUT + 2 * send_delay + 2 {
                    t = TIMEOUT + 2 * send_delay + 3;
                }
                responses.push(Resp { t_ms: t, code: CODES[pick_idx(csel, CODES.len())], received, other_source, other_transport, burst: 0, burst_code: 0 });
            }
            apply_burst(&mut responses, burst);
            PCase { invite, reliable, send_delay, first_poll, thinks, responses, rng, via_host_port }
        })
        .boxed()
}

fn pacing_grid(_tier: Tier) -> Vec<PCase> {
    let mut out = vec![];
    for invite in [false, true] {
        for &send_delay in &[0u64, 50] {
            for &first_poll in &[0u64, 700, 10_000, 33_000] {
                // nothing arrives
                out.push(PCase { invite, reliable: false, send_delay, first_poll, thinks: vec![], responses: vec![], rng: 0, via_host_port: None });
                for &code in &[100u16, 180, 200, 404] {
                    for &t in &[10u64, 600, 9_000, 10_001, 12_000] {
                        out.push(PCase {
                            invite,
                            reliable: false,
                            send_delay,
                            first_poll,
                            thinks: vec![0, 600, 33_000],
                            responses: vec![Resp::plain(t, code), Resp::plain(t + 700, 200), Resp::plain(t + 20_000, 200)],
                            rng: 1,
                            via_host_port: None,
                        });
                        out.push(PCase {
                            invite,
                            reliable: false,
                            send_delay,
                            first_poll,
                            thinks: vec![33_000, 0],
                            responses: vec![Resp::plain(t, code), Resp::plain(t + 1_000, 200)],
                            rng: 2,
                            via_host_port: None,
                        });
                    }
                }
            }
        }
    }
    out
}

struct Paced {
    sends: Vec<Sent>,
    results: Vec<(u64, Res)>,
    send_done: Option<u64>,
}

fn run_paced(case: &PCase) -> Paced {
    let case = case.clone();
    run_world(case.rng as u64, |clock| async move {
        let log = WireLog::new(clock);
        let (tp, _id) = mock_datagram_slow(&log, "UDP", false, case.reliable, "10.0.0.1:5060", case.send_delay);
        let (tp2, _id2) = mock_datagram_slow(&log, "UDP", false, case.reliable, OTHER_TRANSPORT_BOUND, case.send_delay);
        let flat = flatten(&case.responses);
        let endpoint = offline_builder().build();
        let peer: SocketAddr = "192.0.2.1:5060".parse().unwrap();
        let results: Arc<Mutex<Vec<(u64, Res)>>> = Default::default();
        let send_done: Arc<Mutex<Option<u64>>> = Default::default();
        let request = base_request(case.invite);
        let method = request.line.method.to_string();
        let marker_of = |r: &sip_core::transaction::TsxResponse| -> String {
            r.headers
                .iter()
                .find(|(n, _)| n.as_print_str().eq_ignore_ascii_case("x-seq"))
                .map(|(_, v)| v.to_string())
                .unwrap_or_default()
        };
        {
            let endpoint = endpoint.clone();
            let tp = tp.clone();
            let results = results.clone();
            let send_done = send_done.clone();
            let case = case.clone();
            tokio::spawn(async move {
                let mut target = TargetTransportInfo {
                    via_host_port: case.via_host_port.as_deref().and_then(host_port_of),
                    transport: Some((tp, peer)),
                };
                let mut thinks = case.thinks.clone().into_iter();
                if case.invite {
                    let mut tsx = match endpoint.send_invite(request, &mut target).await {
                        Ok(t) => t,
                        Err(e) => {
                            results.lock().push((clock.now_ms(), Res::Err(format!("send: {e}"))));
                            return;
                        }
                    };
                    *send_done.lock() = Some(clock.now_ms());
                    clock.until(case.first_poll).await;
                    loop {
                        let r = tsx.receive().await;
                        let now = clock.now_ms();
                        match r {
                            Ok(Some(r)) => results.lock().push((now, Res::Resp(r.line.code.into_u16(), marker_of(&r)))),
                            Ok(None) => {
                                results.lock().push((now, Res::Finished));
                                break;
                            }
                            Err(e) => {
                                results.lock().push((now, Res::Err(e.to_string())));
                                break;
                            }
                        }
                        let th = thinks.next().unwrap_or(0);
                        if th > 0 {
                            clock.advance(th).await;
                        }
                    }
                } else {
                    let mut tsx = match endpoint.send_request(request, &mut target).await {
                        Ok(t) => t,
                        Err(e) => {
                            results.lock().push((clock.now_ms(), Res::Err(format!("send: {e}"))));
                            return;
                        }
                    };
                    *send_done.lock() = Some(clock.now_ms());
                    clock.until(case.first_poll).await;
                    loop {
                        let r = tsx.receive().await;
                        let now = clock.now_ms();
                        match r {
                            Ok(r) => {
                                let code = r.line.code.into_u16();
                                results.lock().push((now, Res::Resp(code, marker_of(&r))));
                                if code >= 200 {
                                    break;
                                }
                            }
                            Err(e) => {
                                results.lock().push((now, Res::Err(e.to_string())));
                                break;
                            }
                        }
                        let th = thinks.next().unwrap_or(0);
                        if th > 0 {
                            clock.advance(th).await;
                        }
                    }
                }
            });
        }
        settle().await;
        let first_request = log.snapshot().first().and_then(|s| WireMsg::parse(&s.bytes));
        for (i, r) in flat.iter().enumerate() {
            clock.until(r.t_ms).await;
            if let Some(req) = &first_request {
                let mut bytes = response_text(
                    req,
                    r.code,
                    if r.code > 100 { Some("peertag") } else { None },
                    &[format!("X-Seq: m{i}"), "Contact: <sip:bob@192.0.2.1>".to_string()],
                );
                if r.received {
                    bytes = add_received(bytes);
                }
                let source = if r.other_source { OTHER_SOURCE.parse().unwrap() } else { peer };
                inject(&endpoint, if r.other_transport { &tp2 } else { &tp }, source, &bytes);
            }
            if flat.get(i + 1).map_or(false, |next| next.glued) {
                // burst: the next response reaches the endpoint before any task runs
                continue;
            }
            settle().await;
        }
        let horizon = case.responses.last().map(|r| r.t_ms).unwrap_or(0).max(case.first_poll)
            + case.thinks.iter().sum::<u64>()
            + 4 * TIMEOUT;
        clock.until(horizon).await;
        settle().await;
        let sends = log
            .parsed()
            .into_iter()
            .filter(|(_, m)| m.as_ref().map_or(false, |m| m.method() == Some(method.as_str())))
            .map(|(s, _)| s)
            .collect();
        let results = results.lock().clone();
        let send_done = *send_done.lock();
        Paced { sends, results, send_done }
    })
}

fn pacing_check(case: &PCase, out: &mut CaseOut) {
    let obs = run_paced(case);
    // the response history as it reaches the endpoint (bursts written out); markers m<i> follow this list
    let flat = flatten(&case.responses);
    let invite = case.invite;
    let kind = if invite { "invite" } else { "non-invite" };
    let slack = 2 * case.send_delay + 2;
    let send_times: Vec<u64> = obs.sends.iter().map(|s| s.t_ms).collect();
    out.note = Some(format!("sends@{send_times:?} send_done={:?} results={}", obs.send_done, brief(&obs.results)));
    out.class(kind);
    if case.send_delay > 0 {
        out.class("send stays pending");
    }
    if case.first_poll > 0 {
        out.class("first receive() delayed");
    }
    let r0 = flat.first().map(|r| r.t_ms);
    if r0.map_or(false, |t| t < case.send_delay) {
        out.class("response arrives while the first send is still pending");
    }
    if r0.map_or(false, |t| t < case.first_poll) {
        out.class("response arrives before the first receive()");
    }
    if case.first_poll > TIMEOUT {
        out.class("first receive() only after 64*T1");
        if r0.map_or(false, |t| t < TIMEOUT) {
            out.class("response arrived in time, first receive() only after 64*T1");
        } else if r0.map_or(false, |t| t <= case.first_poll + slack) {
            out.class("first response after 64*T1 but before the first receive() (results not asserted)");
        }
    }
    if case.via_host_port.is_some() {
        out.class("Via sent-by overridden (TargetTransportInfo::via_host_port)");
    }
    if case.responses.iter().any(|r| r.received || r.other_source) {
        out.class("response with received= in the top Via / from another source address");
    }
    if case.responses.iter().any(|r| r.other_transport) {
        out.class("response received on another transport handle than the request was sent with");
    }
    for r in case.responses.iter().filter(|r| r.burst > 0) {
        out.class(match r.burst {
            0..=31 => "burst of 2..32 responses handed to the endpoint in one go",
            32..=127 => "burst of 33..128 responses handed to the endpoint in one go",
            _ => "burst of more than 128 responses handed to the endpoint in one go",
        });
        if r.burst_code < 200 && r.code >= 200 {
            out.class("final response at the end of a burst of provisional ones");
        }
    }
    {
        // how many responses pile up unread before the caller's first receive()
        let piled = flat.iter().filter(|r| r.t_ms < case.first_poll).count();
        if piled > 32 {
            out.class("more than 32 responses arrived before the first receive()");
        }
    }
    if r0.map_or(true, |t| t > case.first_poll + T1) && case.first_poll > T1 && !case.reliable {
        out.class("retransmission deadlines passed before the first receive()");
    }

    // ---- transmissions ----
    if send_times.first() != Some(&0) {
        out.fail("c05.pacing/first-send-not-immediate", format!("sends at {send_times:?}"));
    }
    if case.reliable {
        if send_times != vec![0] {
            out.fail(format!("c05.pacing/reliable-{kind}-retransmits"), format!("reliable transport: sends at {send_times:?}"));
        }
    } else {
        // pacing may delay a retransmission, never bring it closer to its predecessor than the RFC interval
        let mut interval = T1X;
        for w in send_times.windows(2) {
            if w[1] - w[0] < interval {
                out.fail(
                    format!("c05.pacing/{kind}-retransmissions-compressed"),
                    format!("transmissions at {send_times:?}: gap {} ms where the RFC interval is {interval} ms", w[1] - w[0]),
                );
                break;
            }
            interval *= 2;
            if !invite {
                interval = interval.min(ref_tsx::T2);
            }
        }
        let stop = match flat.first() {
            Some(r) if invite || r.code >= 200 => Some(r.t_ms),
            _ => None,
        };
        if let Some(stop) = stop {
            if send_times.iter().any(|t| *t > stop) {
                out.fail(
                    format!("c05.pacing/{kind}-retransmit-after-response"),
                    format!("a response arrived at {stop} ms, transmissions at {send_times:?}"),
                );
            }
        }
        if send_times.iter().any(|t| *t > TIMEOUT + slack) {
            out.fail(format!("c05.pacing/{kind}-send-after-timeout"), format!("transmissions at {send_times:?}"));
        }
    }
    if let Some(first) = obs.sends.first() {
        if obs.sends.iter().any(|s| s.bytes != first.bytes || s.dest != first.dest || s.tp != first.tp) {
            out.fail(format!("c05.pacing/{kind}-not-identical"), "a retransmission differs from the first transmission");
        }
    }

    // ---- results ----
    // arrival-based expectation: (index, mandatory)
    #[derive(Clone, Copy, PartialEq, Debug)]
    enum Need {
        Must,
        May,
        Never,
    }
    let n = flat.len();
    let mut need = vec![Need::Never; n];
    let mut end: Option<&'static str> = None; // how the transaction must end, if asserted
    let mut first_2xx: Option<usize> = None;
    let mut truncated = false; // expectations stop here (un-asserted territory follows)
    // a first response that arrives after 64*T1 but before the caller's first receive() could have reported
    // the timeout: whether the caller then sees the timeout or the (late) response is not fixed by the statement
    let late_unseen = r0.map_or(false, |t| t > TIMEOUT && t <= case.first_poll + slack);
    if late_unseen {
        truncated = true;
    } else if r0.map_or(true, |t| t > TIMEOUT) {
        end = Some("timeout");
    } else {
        for (i, r) in flat.iter().enumerate() {
            if let Some(f) = first_2xx {
                let fa = flat[f].t_ms;
                need[i] = if r.t_ms < fa + TIMEOUT {
                    if (200..300).contains(&r.code) { Need::Must } else { Need::May }
                } else {
                    Need::May // between "64*T1 after it arrived" and "64*T1 after the caller took it": not asserted
                };
                continue;
            }
            if !invite && i > 0 {
                // non-INVITE Proceeding: the 64*T1 deadline ends it, not asserted how: stop expecting anything firm
                // once an arrival or the caller's next receive() comes close to it
                if r.t_ms + slack + 2 >= TIMEOUT {
                    truncated = true;
                    break;
                }
            }
            need[i] = Need::Must;
            if (200..300).contains(&r.code) && invite {
                first_2xx = Some(i);
                end = Some("finished");
            } else if r.code >= 200 {
                end = Some(if invite { "finished" } else { "final" });
                break;
            }
        }
    }
    let mut ai = 0usize; // next arrival to account for
    let mut ready = case.first_poll.max(obs.send_done.unwrap_or(0));
    let mut think_i = 0usize;
    let mut ended: Option<(u64, Res)> = None;
    let mut taken_2xx_at: Option<u64> = None;
    let mut bad: Option<(String, String)> = None;
    for (t, res) in &obs.results {
        match res {
            Res::Resp(code, marker) => {
                // which arrival is it
                let idx = marker.strip_prefix('m').and_then(|x| x.parse::<usize>().ok());
                let Some(idx) = idx.filter(|i| *i < n && flat[*i].code == *code) else {
                    bad = Some(("unknown-response".into(), format!("receive() yielded {res:?} which was never sent")));
                    break;
                };
                if idx < ai {
                    bad = Some(("duplicate-or-reordered".into(), format!("response m{idx} yielded again / out of order at {t} ms")));
                    break;
                }
                if let Some(k) = (ai..idx).find(|k| need[*k] == Need::Must) {
                    bad = Some(("response-lost".into(), format!("response m{k} (arrived at {} ms) was never handed to the caller; next result is m{idx} at {t} ms", flat[k].t_ms)));
                    break;
                }
                if need[idx] == Need::Never && !truncated {
                    bad = Some(("response-after-end".into(), format!("response m{idx} handed out at {t} ms although the transaction had ended")));
                    break;
                }
                let arr = flat[idx].t_ms;
                if *t < arr {
                    bad = Some(("harness-time".into(), format!("m{idx} yielded at {t} before its arrival {arr}")));
                    break;
                }
                if need[idx] == Need::Must && *t > arr.max(ready) + slack {
                    bad = Some(("response-late".into(), format!("response m{idx} arrived at {arr} ms, caller was waiting since {ready} ms, yielded only at {t} ms")));
                    break;
                }
                if first_2xx == Some(idx) {
                    taken_2xx_at = Some(*t);
                }
                ai = idx + 1;
                ready = *t + case.thinks.get(think_i).copied().unwrap_or(0);
                think_i += 1;
            }
            other => {
                ended = Some((*t, other.clone()));
                break;
            }
        }
    }
    if bad.is_none() {
        // everything mandatory must have come out before the end
        if let Some(k) = (ai..n).find(|k| need[*k] == Need::Must) {
            bad = Some(("response-lost".into(), format!("response m{k} (arrived at {} ms) was never handed to the caller; transaction ended with {ended:?}", flat[k].t_ms)));
        } else if !truncated {
            match (end, &ended) {
                (Some("timeout"), Some((t, Res::Err(m)))) if m.contains("timed out") => {
                    if *t < TIMEOUT || *t > TIMEOUT.max(ready) + slack {
                        bad = Some(("timeout-instant".into(), format!("timeout reported at {t} ms (caller waiting since {ready} ms)")));
                    }
                }
                (Some("timeout"), e) => bad = Some(("timeout-missing".into(), format!("no response before 64*T1: expected a timeout, got {e:?}"))),
                (Some("final"), None) => {}
                (Some("final"), e) => bad = Some(("after-final".into(), format!("unexpected {e:?} after the final response"))),
                (Some("finished"), Some((t, Res::Finished))) => {
                    if let Some(f) = first_2xx {
                        let fa = flat[f].t_ms;
                        let hi = taken_2xx_at.unwrap_or(fa) + TIMEOUT;
                        if *t < fa + TIMEOUT {
                            bad = Some(("completion-early".into(), format!("completion reported at {t} ms, first 2xx arrived at {fa} ms")));
                        } else if *t > hi.max(ready) + slack {
                            bad = Some(("completion-late".into(), format!("completion reported at {t} ms, expected by {} ms", hi.max(ready))));
                        }
                    }
                }
                (Some("finished"), e) => bad = Some(("completion-missing".into(), format!("expected completion (None) after the final response(s), got {e:?}"))),
                (None, _) => {}
                (Some(_), _) => {}
            }
        }
    }
    if let Some((locus, msg)) = bad {
        out.fail(format!("c05.pacing/{kind}-{locus}"), format!("{msg}; results {}", brief(&obs.results)));
    }
    if case.send_delay > 0 || case.first_poll > 0 || case.thinks.iter().any(|t| *t > 0) {
        out.nontrivial(case);
    }
}

pub fn property() -> Property {
    Property {
        fuzz: vec![],
        id: "C05",
        rule: "cases = (INVITE|non-INVITE) x (reliable|unreliable) x Via sent-by (transport's own | TargetTransportInfo::via_host_port override from a pool of 6 shapes) x scripted response arrivals (time, status, top Via echoed verbatim | with ;received=, packet source = request destination | another address) x transport handle the response is received with (the request's | a second transport's) x optional burst (1..129 further responses with status 100 | 180 | the response's own handed to the endpoint in one go right before one response of the history, no task runs in between) under a paused clock; grid sub-check enumerates first-response instants that bracket every timer edge (schedule instant +-1 ms, 64*T1 +-1 ms) x status class x {own Via, 2 overrides}, and every burst length x burst status 100/180 x closing response 180/200/404; random sub-check adds 0..4 further responses (duplicates, late finals) at offsets around T4 and 64*T1. pacing sub-checks: send stays pending 0/5/50/400 ms x first receive() at 0..29 s or only after 64*T1 (32.001..80 s) x think time after each result x the same response histories. Non-trivial = at least one retransmission observed, or a response within 1 ms of a timer edge, or two final responses, or a burst (pacing: any delay configured); distinct by hash of the whole case.",
        assumptions: vec![
            "timers run on tokio's paused clock (hook H2); sends on the mock transport complete instantly (grid/random) or after the configured delay (pacing)",
            "responses arriving exactly at a timer instant are excluded (tie is a don't-care); pacing: also a first receive() exactly on the deadline",
            "non-INVITE retransmission while in Proceeding and the Proceeding timeout are not asserted (statement is silent)",
            "a response belongs to the transaction by top-Via branch + CSeq method (RFC 3261 17.1.3): neither the Via sent-by text, added Via parameters nor the packet source change what is expected",
            "every response of a burst counts like a response that arrived alone: all of them are handed out, in the order they were handed to the endpoint (the simulated scheduler runs the endpoint's per-message tasks first-in first-out), however many pile up between two receive() calls; the transport handle a response is received with does not change what is expected",
            "pacing: a first response arriving after 64*T1 but before the caller's first receive() leaves the results unasserted; a response that arrived before 64*T1 must be handed out however late the caller asks",
        ],
        explanation: "grid sub-checks are exhaustive over the stated finite grids; random / pacing sub-checks sample response tails, Via and delivery shapes, pacing parameters",
        subs: vec![
            enum_sub("grid", grid_cases, check),
            prop_sub("random", strategy, 2500, 60000, check),
            enum_sub("pacing_grid", pacing_grid, pacing_check),
            prop_sub("pacing", pacing_strategy, 1500, 40000, pacing_check),
        ],
    }
}
