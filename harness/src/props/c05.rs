//! C05 — Client transactions retransmit and time out on the RFC 3261 timer schedule

use crate::engine::*;
use crate::refmodel::ref_tsx::{self, T4, TIMEOUT};
use crate::world::*;
use parking_lot::Mutex;
use proptest::prelude::*;
use serde::{Deserialize, Serialize};
use sip_core::transport::TargetTransportInfo;
use sip_core::Request;
use sip_types::uri::sip::SipUri;
use sip_types::{Method, Name};
use std::net::SocketAddr;
use std::sync::Arc;

#[derive(Serialize, Deserialize, Clone, Debug, Hash)]
pub struct Resp {
    /// arrival time, ms after the first send
    pub t_ms: u64,
    pub code: u16,
}

#[derive(Serialize, Deserialize, Clone, Debug, Hash)]
pub struct Case {
    pub invite: bool,
    pub reliable: bool,
    pub responses: Vec<Resp>,
    /// seed for tokio's select!/scheduler randomness
    pub rng: u8,
}

#[derive(Clone, Debug, PartialEq)]
pub enum Res {
    Resp(u16, String),
    Finished,
    Err(String),
}

pub struct Observed {
    pub sends: Vec<Sent>,
    pub others: Vec<(Sent, Option<WireMsg>)>,
    pub results: Vec<(u64, Res)>,
    pub counts: Vec<(u64, usize)>,
    pub first_request: Option<WireMsg>,
}

const CODES: &[u16] = &[100, 180, 183, 200, 202, 302, 404, 486, 503, 603];

fn avoid_edges(invite: bool, t: u64) -> u64 {
    let sched = ref_tsx::client_send_schedule(invite);
    let mut t = t.max(1);
    while sched.contains(&t) || t == TIMEOUT {
        t += 1;
    }
    t
}

fn first_time_grid(invite: bool) -> Vec<u64> {
    let mut g = vec![1, 2, 250];
    for s in ref_tsx::client_send_schedule(invite) {
        if s > 0 {
            g.push(s - 1);
        }
        g.push(s + 1);
    }
    g.extend([TIMEOUT - 1, TIMEOUT + 1, TIMEOUT + 700]);
    g.sort();
    g.dedup();
    g
}

const TAIL_OFFSETS: &[u64] = &[
    0, 1, 499, 500, 501, T4 - 1, T4 + 1, 20_000, TIMEOUT - 1, TIMEOUT + 1, 2 * TIMEOUT,
];

pub fn strategy() -> BoxedStrategy<Case> {
    (
        any::<bool>(),
        prop_oneof![3 => Just(false), 1 => Just(true)],
        prop::collection::vec((any::<u16>(), any::<u16>(), 0u64..40_000, any::<bool>()), 0..5),
        any::<u8>(),
    )
        .prop_map(|(invite, reliable, raw, rng)| {
            let grid = first_time_grid(invite);
            let mut responses = vec![];
            let mut t = 0u64;
            for (i, (tsel, csel, rnd, use_rnd)) in raw.into_iter().enumerate() {
                if i == 0 {
                    t = if use_rnd { rnd } else { grid[pick_idx(tsel, grid.len())] };
                } else {
                    t += if use_rnd {
                        rnd
                    } else {
                        TAIL_OFFSETS[pick_idx(tsel, TAIL_OFFSETS.len())]
                    };
                }
                t = avoid_edges(invite, t);
                responses.push(Resp {
                    t_ms: t,
                    code: CODES[pick_idx(csel, CODES.len())],
                });
            }
            Case {
                invite,
                reliable,
                responses,
                rng,
            }
        })
        .boxed()
}

/// the finite grid: kind × reliability × first response time × class, no tail
pub fn grid_cases(tier: Tier) -> Vec<Case> {
    let mut out = vec![];
    for invite in [false, true] {
        for reliable in [false, true] {
            out.push(Case {
                invite,
                reliable,
                responses: vec![],
                rng: 0,
            });
            for t in first_time_grid(invite) {
                for &code in &[100u16, 180, 200, 404] {
                    out.push(Case {
                        invite,
                        reliable,
                        responses: vec![Resp { t_ms: t, code }],
                        rng: 1,
                    });
                    if tier == Tier::Thorough {
                        for &off in TAIL_OFFSETS {
                            for &code2 in &[180u16, 200, 404] {
                                out.push(Case {
                                    invite,
                                    reliable,
                                    responses: vec![
                                        Resp { t_ms: t, code },
                                        Resp {
                                            t_ms: avoid_edges(invite, t + off),
                                            code: code2,
                                        },
                                    ],
                                    rng: 2,
                                });
                            }
                        }
                    }
                }
            }
        }
    }
    out
}

pub fn base_request(invite: bool) -> Request {
    let uri: SipUri = "sip:bob@192.0.2.1:5060".parse().unwrap();
    let mut request = Request::new(
        if invite { Method::INVITE } else { Method::OPTIONS },
        uri,
    );
    request
        .headers
        .insert(Name::FROM, "\"Alice\" <sip:alice@example.org>;tag=ftag1");
    request.headers.insert(Name::TO, "<sip:bob@example.net>");
    request.headers.insert(Name::CALL_ID, "c05-call@example.org");
    request.headers.insert(
        Name::CSEQ,
        if invite { "7 INVITE" } else { "7 OPTIONS" },
    );
    request.headers.insert(Name::MAX_FORWARDS, "70");
    request
}

/// Drive one client transaction against scripted responses; shared with C07.
pub fn run_client(
    invite: bool,
    reliable: bool,
    request: Request,
    responses: Vec<(u64, Box<dyn Fn(&WireMsg) -> Vec<u8> + Send>)>,
    probes: Vec<u64>,
    horizon: u64,
    rng: u64,
    via_host_port: Option<sip_types::host::HostPort>,
) -> Observed {
    run_world(rng, |clock| async move {
        let log = WireLog::new(clock);
        let (tp, _id) = mock_datagram(&log, "UDP", false, reliable, "10.0.0.1:5060");
        let endpoint = offline_builder().build();
        let peer: SocketAddr = "192.0.2.1:5060".parse().unwrap();
        let mut target = TargetTransportInfo {
            via_host_port,
            transport: Some((tp.clone(), peer)),
        };
        let results: Arc<Mutex<Vec<(u64, Res)>>> = Default::default();
        let method = request.line.method.to_string();

        let marker_of = |r: &sip_core::transaction::TsxResponse| -> String {
            r.headers
                .iter()
                .find(|(n, _)| n.as_print_str().eq_ignore_ascii_case("x-seq"))
                .map(|(_, v)| v.to_string())
                .unwrap_or_default()
        };

        if invite {
            match endpoint.send_invite(request, &mut target).await {
                Ok(mut tsx) => {
                    let results = results.clone();
                    tokio::spawn(async move {
                        loop {
                            match tsx.receive().await {
                                Ok(Some(r)) => results.lock().push((
                                    clock.now_ms(),
                                    Res::Resp(r.line.code.into_u16(), marker_of(&r)),
                                )),
                                Ok(None) => {
                                    results.lock().push((clock.now_ms(), Res::Finished));
                                    break;
                                }
                                Err(e) => {
                                    results.lock().push((clock.now_ms(), Res::Err(e.to_string())));
                                    break;
                                }
                            }
                        }
                    });
                }
                Err(e) => results.lock().push((clock.now_ms(), Res::Err(format!("send: {e}")))),
            }
        } else {
            match endpoint.send_request(request, &mut target).await {
                Ok(mut tsx) => {
                    let results = results.clone();
                    tokio::spawn(async move {
                        loop {
                            match tsx.receive().await {
                                Ok(r) => {
                                    let code = r.line.code.into_u16();
                                    results
                                        .lock()
                                        .push((clock.now_ms(), Res::Resp(code, marker_of(&r))));
                                    if code >= 200 {
                                        break;
                                    }
                                }
                                Err(e) => {
                                    results.lock().push((clock.now_ms(), Res::Err(e.to_string())));
                                    break;
                                }
                            }
                        }
                    });
                }
                Err(e) => results.lock().push((clock.now_ms(), Res::Err(format!("send: {e}")))),
            }
        }
        settle().await;
        let first_request = log.snapshot().first().and_then(|s| WireMsg::parse(&s.bytes));

        enum Ev {
            Resp(usize),
            Probe,
        }
        let mut events: Vec<(u64, usize, Ev)> = vec![];
        for (i, (t, _)) in responses.iter().enumerate() {
            events.push((*t, i, Ev::Resp(i)));
        }
        for (i, t) in probes.iter().enumerate() {
            events.push((*t, 1000 + i, Ev::Probe));
        }
        events.sort_by_key(|e| (e.0, e.1));
        let mut counts = vec![];
        for (t, _, ev) in events {
            clock.until(t).await;
            match ev {
                Ev::Resp(i) => {
                    if let Some(req) = &first_request {
                        let bytes = (responses[i].1)(req);
                        inject(&endpoint, &tp, peer, &bytes);
                    }
                    settle().await;
                }
                Ev::Probe => {
                    settle().await;
                    counts.push((t, endpoint.verif_counts().0));
                }
            }
        }
        clock.until(horizon).await;
        settle().await;
        counts.push((horizon, endpoint.verif_counts().0));

        let mut sends = vec![];
        let mut others = vec![];
        for (s, m) in log.parsed() {
            match &m {
                Some(mm) if mm.method() == Some(method.as_str()) => sends.push(s),
                _ => others.push((s, m)),
            }
        }
        let results = results.lock().clone();
        Observed {
            sends,
            others,
            results,
            counts,
            first_request,
        }
    })
}

fn is_final(code: u16) -> bool {
    code >= 200
}

pub fn check(case: &Case, out: &mut CaseOut) {
    let invite = case.invite;
    let sched = ref_tsx::client_send_schedule(invite);
    let horizon = case
        .responses
        .last()
        .map(|r| r.t_ms)
        .unwrap_or(0)
        .max(TIMEOUT)
        + 5 * TIMEOUT
        + 1000;

    // ---- reference: which responses the transaction must still surface ----
    #[derive(Debug)]
    struct Exp {
        t: u64,
        res: Res,
        optional: bool,
    }
    let mut expected: Vec<Exp> = vec![];
    let r0 = case.responses.first().map(|r| r.t_ms).filter(|t| *t < TIMEOUT);
    let mut final_at: Option<u64> = None;
    let mut first_2xx: Option<u64> = None;
    let mut saw_provisional_only = false;
    if r0.is_none() {
        expected.push(Exp {
            t: TIMEOUT,
            res: Res::Err("request timed out".into()),
            optional: false,
        });
    } else {
        let mut done = false;
        for (i, r) in case.responses.iter().enumerate() {
            let marker = format!("m{i}");
            if done {
                break;
            }
            if !invite {
                // non-INVITE: the deadline 64*T1 also ends Proceeding (not asserted: see below)
                if r.t_ms > TIMEOUT && final_at.is_none() {
                    break;
                }
                expected.push(Exp {
                    t: r.t_ms,
                    res: Res::Resp(r.code, marker),
                    optional: false,
                });
                if is_final(r.code) {
                    final_at = Some(r.t_ms);
                    done = true;
                }
            } else if let Some(f2) = first_2xx {
                // Accepted: further 2xx within 64*T1 are handed to the caller; anything else unasserted
                if r.t_ms >= f2 + TIMEOUT {
                    if r.t_ms == f2 + TIMEOUT {
                        continue;
                    }
                    break;
                }
                expected.push(Exp {
                    t: r.t_ms,
                    res: Res::Resp(r.code, marker),
                    optional: !(200..300).contains(&r.code),
                });
            } else {
                expected.push(Exp {
                    t: r.t_ms,
                    res: Res::Resp(r.code, marker),
                    optional: false,
                });
                if (200..300).contains(&r.code) {
                    first_2xx = Some(r.t_ms);
                } else if is_final(r.code) {
                    final_at = Some(r.t_ms);
                    expected.push(Exp {
                        t: r.t_ms,
                        res: Res::Finished,
                        optional: false,
                    });
                    done = true;
                }
            }
        }
        if invite {
            if let Some(f2) = first_2xx {
                expected.push(Exp {
                    t: f2 + TIMEOUT,
                    res: Res::Finished,
                    optional: false,
                });
            }
        }
        if final_at.is_none() && first_2xx.is_none() {
            saw_provisional_only = true;
        }
    }

    // probes for the completed-state absorber of a non-INVITE transaction
    let mut probes = vec![];
    if !invite {
        if let Some(f) = final_at {
            probes.extend([f + 1, f + T4 - 1, f + T4 + 1]);
        }
    }

    let responses: Vec<(u64, Box<dyn Fn(&WireMsg) -> Vec<u8> + Send>)> = case
        .responses
        .iter()
        .enumerate()
        .map(|(i, r)| {
            let code = r.code;
            let f: Box<dyn Fn(&WireMsg) -> Vec<u8> + Send> = Box::new(move |req: &WireMsg| {
                response_text(
                    req,
                    code,
                    if code > 100 { Some("peertag") } else { None },
                    &[format!("X-Seq: m{i}"), "Contact: <sip:bob@192.0.2.1>".to_string()],
                )
            });
            (r.t_ms, f)
        })
        .collect();

    let obs = run_client(
        invite,
        case.reliable,
        base_request(invite),
        responses,
        probes.clone(),
        horizon,
        case.rng as u64,
        None,
    );

    // ---- classes / non-triviality ----
    out.class(if invite { "invite" } else { "non-invite" });
    out.class(if case.reliable { "reliable" } else { "unreliable" });
    let near_edge = case.responses.iter().any(|r| {
        sched.iter().any(|s| r.t_ms.abs_diff(*s) <= 1) || r.t_ms.abs_diff(TIMEOUT) <= 1
    });
    let dup_final = case.responses.iter().filter(|r| is_final(r.code)).count() >= 2;
    if near_edge {
        out.class("response-within-1ms-of-timer-edge");
    }
    if dup_final {
        out.class("duplicate-or-late-final");
    }
    if obs.sends.len() > 1 {
        out.class("retransmission-observed");
    }
    if r0.is_none() {
        out.class("no-response-before-timeout");
    }
    if saw_provisional_only {
        out.class("provisional-only");
    }
    if obs.sends.len() > 1 || near_edge || dup_final {
        out.nontrivial(case);
    }
    out.note = Some(format!(
        "sends@{:?} results={:?} tsx_counts={:?}",
        obs.sends.iter().map(|s| s.t_ms).collect::<Vec<_>>(),
        obs.results,
        obs.counts
    ));

    // ---- oracle 1: transmission instants ----
    let kind = if invite { "invite" } else { "non-invite" };
    let send_times: Vec<u64> = obs.sends.iter().map(|s| s.t_ms).collect();
    if case.reliable {
        if send_times != vec![0] {
            out.fail(
                format!("c05.schedule/reliable-{kind}"),
                format!("reliable transport: expected exactly one send at 0, got {send_times:?}"),
            );
        }
    } else {
        let stop = r0.unwrap_or(TIMEOUT);
        let want: Vec<u64> = sched.iter().copied().filter(|t| *t < stop).collect();
        let got_before: Vec<u64> = send_times.iter().copied().filter(|t| *t < stop).collect();
        if got_before != want {
            out.fail(
                format!("c05.schedule/{kind}-interval"),
                format!("unreliable {kind}: sends before first response/timeout ({stop} ms) expected at {want:?}, observed {got_before:?}"),
            );
        }
        let after: Vec<u64> = send_times.iter().copied().filter(|t| *t > stop).collect();
        if !after.is_empty() {
            let first_is_prov = case.responses.first().map_or(false, |r| r.code < 200);
            if r0.is_none() {
                out.fail(
                    format!("c05.schedule/{kind}-send-after-timeout"),
                    format!("request re-sent after 64*T1: {after:?}"),
                );
            } else if invite {
                out.fail(
                    "c05.schedule/invite-retransmit-after-response",
                    format!("INVITE re-sent at {after:?} although a response arrived at {stop}"),
                );
            } else if !first_is_prov {
                out.fail(
                    "c05.schedule/non-invite-retransmit-after-final",
                    format!("request re-sent at {after:?} although a final response arrived at {stop}"),
                );
            }
            // non-INVITE in Proceeding: retransmission not asserted (statement: "while no response has arrived")
        }
    }
    if let Some(first) = obs.sends.first() {
        if obs.sends.iter().any(|s| s.bytes != first.bytes) {
            out.fail(
                format!("c05.identical/{kind}"),
                "a retransmission is not byte-identical to the first transmission",
            );
        }
        if obs.sends.iter().any(|s| s.dest != first.dest || s.tp != first.tp) {
            out.fail(
                format!("c05.identical/{kind}-destination"),
                "a retransmission went to another destination/transport",
            );
        }
    } else {
        out.fail("c05.schedule/no-send", "request never sent");
    }

    // ---- oracle 2: what receive() yields ----
    let mut ei = 0;
    let mut bad: Option<String> = None;
    for (t, res) in &obs.results {
        // skip optional expectations that do not match
        loop {
            match expected.get(ei) {
                None => {
                    // unasserted: a non-INVITE that only saw provisionals may time out at/after 64*T1
                    if !invite && saw_provisional_only && matches!(res, Res::Err(_)) && *t >= TIMEOUT {
                        break;
                    }
                    bad = Some(format!("unexpected result {res:?} at {t} ms"));
                    break;
                }
                Some(e) => {
                    let time_ok = match &e.res {
                        Res::Resp(..) => *t == e.t,
                        Res::Finished if final_at.is_some() => *t == e.t,
                        _ => t.abs_diff(e.t) <= 2,
                    };
                    let same = match (&e.res, res) {
                        (Res::Resp(c, m), Res::Resp(c2, m2)) => c == c2 && m == m2,
                        (Res::Finished, Res::Finished) => true,
                        (Res::Err(_), Res::Err(msg)) => msg.contains("timed out"),
                        _ => false,
                    };
                    if same && time_ok {
                        ei += 1;
                        break;
                    } else if e.optional {
                        ei += 1;
                        continue;
                    } else {
                        bad = Some(format!(
                            "expected {:?} at {} ms, observed {res:?} at {t} ms",
                            e.res, e.t
                        ));
                        break;
                    }
                }
            }
        }
        if bad.is_some() {
            break;
        }
    }
    if bad.is_none() {
        if let Some(e) = expected[ei.min(expected.len())..].iter().find(|e| !e.optional) {
            bad = Some(format!("missing result {:?} expected at {} ms", e.res, e.t));
        }
    }
    if let Some(b) = bad {
        let locus = if r0.is_none() {
            "timeout"
        } else if saw_provisional_only {
            "after-provisional"
        } else if first_2xx.is_some() {
            "accepted"
        } else {
            "final"
        };
        out.fail(
            format!("c05.results/{kind}-{locus}"),
            format!("{b}; all results: {:?}", obs.results),
        );
    }

    // ---- oracle 3: completed-state absorber (non-INVITE) ----
    if !invite {
        if let Some(f) = final_at {
            for (t, n) in &obs.counts {
                let want = if *t == horizon {
                    0
                } else if case.reliable {
                    0
                } else if *t < f + T4 {
                    1
                } else {
                    0
                };
                if *n != want {
                    out.fail(
                        if case.reliable {
                            "c05.absorb/reliable-terminates"
                        } else if *t < f + T4 {
                            "c05.absorb/t4-window-too-short"
                        } else {
                            "c05.absorb/t4-window-too-long"
                        },
                        format!("transaction table holds {n} entries at {t} ms (final at {f} ms), expected {want}"),
                    );
                }
            }
            // nothing may be sent because of late duplicates
            if !obs.others.is_empty() {
                out.fail(
                    "c05.absorb/unexpected-output",
                    format!("non-INVITE client transaction produced other messages: {}", obs.others.len()),
                );
            }
        }
    }
    if r0.is_none() || (final_at.is_some() && !invite) {
        if let Some((t, n)) = obs.counts.last() {
            if *n != 0 {
                out.fail(
                    "c05.absorb/leftover-registration",
                    format!("{n} transaction entries left at horizon {t} ms"),
                );
            }
        }
    }
}

pub fn property() -> Property {
    Property {
        fuzz: vec![],
        id: "C05",
        rule: "cases = (INVITE|non-INVITE) x (reliable|unreliable) x scripted response arrivals (time, status) under a paused clock; grid sub-check enumerates first-response instants that bracket every timer edge (schedule instant +-1 ms, 64*T1 +-1 ms) x status class; random sub-check adds 0..4 further responses (duplicates, late finals) at offsets around T4 and 64*T1. Non-trivial = at least one retransmission observed, or a response within 1 ms of a timer edge, or two final responses; distinct by hash of the whole case.",
        assumptions: vec![
            "timers run on tokio's paused clock (hook H2); sends on the mock transport complete instantly",
            "responses arriving exactly at a timer instant are excluded (tie is a don't-care)",
            "non-INVITE retransmission while in Proceeding and the Proceeding timeout are not asserted (statement is silent)",
        ],
        explanation: "grid sub-check is exhaustive over the stated finite grid; random sub-check samples response tails",
        subs: vec![
            enum_sub("grid", grid_cases, check),
            prop_sub("random", strategy, 2500, 60000, check),
        ],
    }
}
