//! C20 — STUN codec agrees with RFC 8489; demultiplexing and client retries are sound.
//!
//! Oracle: `refmodel::ref_stun` (independent encoder/decoder/verifier, checked against the
//! RFC 5769 vectors in its unit tests). Sub-checks follow DESIGN.md C20 (i)–(vi).
//!
//! Generated / asserted, per sub-check:
//!  * builder (i): typed Binding message x builder mode. RFC mode: bytes equal the reference encoding;
//!    both modes: ezk parses its own output back to the generated values, protection attributes
//!    verify (ezk and reference), wrong key refused. Non-RFC mode: values compared up to the padding
//!    that mode makes indistinguishable.
//!  * ref_decode (ii, v): reference-encoded message decodes with ezk to the generated values; it is
//!    classified STUN by is_stun_message and parse_complete.
//!  * bitflip (iii): every single-bit flip inside the covered range of a protected message is refused.
//!  * no_panic (iv): byte strings, lying TLVs, mutated messages, TURN methods: no panic (nothing else).
//!  * demux_sip (v): SIP text (incl. methods whose first byte looks like a STUN type) is never STUN.
//!  * demux_datagram (ii, v): a DATAGRAM that holds a complete reference-encoded message (header length =
//!    its attributes) FOLLOWED by further bytes: a well-formed attribute of a type the message does not
//!    carry (half of them address attributes, XOR-ed with the message's id), bytes of the same size that
//!    are no attribute (length field overrunning the datagram / arbitrary bytes), CRLF, 1-3 bytes, zero
//!    words, 4-40 arbitrary bytes, SIP text, a second complete message. Asserted: is_stun_message says
//!    Yes with `remaining` = the bytes behind; parse_complete never says SIP / keep-alive; if it
//!    delivers the message, header, every attribute and the protection attributes read as generated
//!    and NOTHING from behind the message's end is among its attributes (typed getters of every type
//!    the message lacks find nothing; attribute count); delivered-or-refused is the same for the
//!    attribute and its same-size non-attribute twin.
//!  * client_schedule / client_concurrent / client_cleanup (vi): see `c20/client.rs` — loss patterns x
//!    shape of the exchange (response class success / error, message content, transaction id,
//!    request content, the server address and the ADDRESS THE MESSAGES ARE RECEIVED FROM), several
//!    pending requests (to one or to different servers, answered from their own / from each other's
//!    addresses), errors and cancellation, and (client_transport)
//!    the way the user's send_to completes x the path / latency of the answer, so that a response
//!    comes in while send_to of the initial transmission or of a retransmission has not returned.
//!  * client_endpoint (v)+(vi) end to end, see `c20/endpoint.rs`: Endpoint::discover_public_address
//!    over a mock datagram transport; the scripted server's answer comes back as one datagram from one
//!    source address through parse_complete -> receive_stun: server address x source address x answered
//!    transmission x response content x what follows the message inside its datagram.
//! Not asserted: whether the SIP parser accepts the generated SIP text; MESSAGE-INTEGRITY behind
//! MESSAGE-INTEGRITY-SHA256; methods other than Binding beyond no-panic; whether a request or
//! indication that carries a pending transaction id completes the call; 39.5 s vs 63.5 s give-up;
//! whether a datagram in which bytes follow the message is delivered at all (a receiver may refuse
//! every datagram whose size differs from the message's; only: not by looking at those bytes).

mod client;
mod endpoint;
mod ezk;
pub mod gen;

use crate::engine::*;
use crate::refmodel::ref_stun::*;
use gen::{FuzzCase, MsgCase, SipCase};
use sip_core::transport::{parse_complete, CompleteItem};
use stun_types::parse::ParsedMessage;
use stun_types::{is_stun_message, IsStunMessageInfo};

// --- helpers ---------------------------------------------------------------------------------------------

fn family(a: &RAttr) -> &'static str {
    match a {
        RAttr::MappedAddress(_)
        | RAttr::XorMappedAddress(_)
        | RAttr::AlternateServer(_)
        | RAttr::XorPeerAddress(_)
        | RAttr::XorRelayedAddress(_) => "addr",
        RAttr::Username(_) | RAttr::Realm(_) | RAttr::Software(_) => "text",
        RAttr::Nonce(_) | RAttr::Data(_) | RAttr::AlternateDomain(_) => "bytes",
        RAttr::ErrorCode { .. } => "error-code",
        RAttr::UnknownAttributes(_) => "unknown-attributes",
        RAttr::PasswordAlgorithm { .. } => "password-algorithm",
        RAttr::PasswordAlgorithms(_) => "password-algorithms",
        RAttr::UserHash(_) => "userhash",
        RAttr::Lifetime(_) => "lifetime",
        RAttr::ChannelNumber(_) => "channel-number",
        RAttr::RequestedTransport(_) => "requested-transport",
        RAttr::EvenPort(_) => "even-port",
        RAttr::DontFragment => "dont-fragment",
        RAttr::ReservationToken(_) => "reservation-token",
    }
}

fn tail_kind(t: &RTail) -> &'static str {
    match t {
        RTail::Integrity(_) => "integrity",
        RTail::IntegritySha256(_) => "integrity-sha256",
        RTail::Fingerprint => "fingerprint",
    }
}

fn tail_value_len(t: &RTail) -> usize {
    match t {
        RTail::Integrity(_) => 20,
        RTail::IntegritySha256(_) => 32,
        RTail::Fingerprint => 4,
    }
}

fn hex(b: &[u8]) -> String {
    let mut s = String::with_capacity(b.len() * 2);
    for (i, x) in b.iter().enumerate() {
        if i > 0 && i % 4 == 0 {
            s.push(' ');
        }
        s.push_str(&format!("{x:02x}"));
    }
    s
}

/// byte layout of the reference encoding: (start, end, name) of header and every attribute
fn layout(m: &RMsg) -> Vec<(usize, usize, &'static str)> {
    let mut v = vec![(0usize, 20usize, "header")];
    let mut pos = 20;
    for a in &m.attrs {
        let l = encode_value(a, &m.tid).len();
        let end = pos + 4 + l + pad_len(l);
        v.push((pos, end, family(a)));
        pos = end;
    }
    for t in &m.tail {
        let end = pos + 4 + tail_value_len(t);
        v.push((pos, end, tail_kind(t)));
        pos = end;
    }
    v
}

/// The message actually used by a case: with `grind`, a SOFTWARE attribute is appended and varied
/// until the first protection attribute's value ends in 0x00 (deterministic function of the case).
fn prepare(case: &MsgCase) -> RMsg {
    let mut m = case.msg.clone();
    if !case.grind || m.tail.is_empty() {
        return m;
    }
    m.attrs.retain(|a| !matches!(a, RAttr::Software(_)));
    let vlen = tail_value_len(&m.tail[0]);
    for n in 0..6000u32 {
        m.attrs.push(RAttr::Software(format!("grind-{n}")));
        let b = encode(&m);
        let start = layout(&m)[m.attrs.len() + 1].0;
        if b[start + 4 + vlen - 1] == 0 {
            return m;
        }
        m.attrs.pop();
    }
    m
}

fn zero_tail(v: &[u8]) -> bool {
    !v.is_empty() && v.len() % 4 == 0 && v[v.len() - 1] == 0
}

/// classes + non-triviality (DESIGN.md C20: >=1 address attribute, or a value whose encoding
/// ends in a zero byte, or an integrity/fingerprint attribute, or a length not 0 mod 4)
fn classify(m: &RMsg, refb: &[u8], out: &mut CaseOut) -> bool {
    let mut nontrivial = false;
    out.class(match m.class {
        RClass::Request => "class:request",
        RClass::Indication => "class:indication",
        RClass::Success => "class:success",
        RClass::Error => "class:error",
    });
    if m.attrs.is_empty() && m.tail.is_empty() {
        out.class("no-attributes");
    }
    if m.tid == [0u8; 12] {
        out.class("tid:all-zero");
    } else if m.tid == [0xffu8; 12] {
        out.class("tid:all-one");
    } else if m.tid[11] == 0 {
        out.class("tid:zero-tail");
    }
    for a in &m.attrs {
        let v = encode_value(a, &m.tid);
        if a.is_address() {
            nontrivial = true;
            let (v6, xor) = match a {
                RAttr::MappedAddress(x) | RAttr::AlternateServer(x) => (matches!(x, RAddr::V6 { .. }), false),
                RAttr::XorMappedAddress(x) | RAttr::XorPeerAddress(x) | RAttr::XorRelayedAddress(x) => {
                    (matches!(x, RAddr::V6 { .. }), true)
                }
                _ => unreachable!(),
            };
            out.class(match (v6, xor) {
                (false, false) => "addr:v4-plain",
                (false, true) => "addr:v4-xor",
                (true, false) => "addr:v6-plain",
                (true, true) => "addr:v6-xor",
            });
            let z = v.iter().rev().take_while(|b| **b == 0).count();
            match z {
                0 => {}
                1 => out.class("addr:encoding-ends-in-1-zero"),
                2 => out.class("addr:encoding-ends-in-2-zeros"),
                3 => out.class("addr:encoding-ends-in-3-zeros"),
                4 => out.class("addr:encoding-ends-in-4-zeros"),
                _ => out.class("addr:encoding-ends-in-5+-zeros"),
            }
            if v[2] == 0 && v[3] == 0 {
                out.class("addr:x-port-zero");
            }
        }
        match a {
            RAttr::Username(s) | RAttr::Realm(s) | RAttr::Software(s) => {
                out.class(match s.len() % 4 {
                    0 if s.is_empty() => "text:empty",
                    0 => "text:len%4=0",
                    1 => "text:len%4=1",
                    2 => "text:len%4=2",
                    _ => "text:len%4=3",
                });
                if !s.is_ascii() {
                    out.class("text:non-ascii");
                }
            }
            RAttr::Nonce(b) | RAttr::Data(b) | RAttr::AlternateDomain(b) => {
                out.class(match b.len() % 4 {
                    0 if b.is_empty() => "bytes:empty",
                    0 => "bytes:len%4=0",
                    1 => "bytes:len%4=1",
                    2 => "bytes:len%4=2",
                    _ => "bytes:len%4=3",
                });
            }
            RAttr::ErrorCode { code, reason } => {
                if reason.is_empty() && code % 100 == 0 {
                    out.class("error-code:x00-empty-reason");
                } else if reason.is_empty() {
                    out.class("error-code:empty-reason");
                }
            }
            RAttr::Lifetime(l) if l & 0xff == 0 => out.class("lifetime:low-byte-zero"),
            RAttr::PasswordAlgorithm { params, .. } if !params.is_empty() => out.class("password-algorithm:with-params"),
            RAttr::PasswordAlgorithms(l) if l.iter().any(|(_, p)| !p.is_empty()) => {
                out.class("password-algorithms:with-params")
            }
            RAttr::PasswordAlgorithms(l) if l.len() >= 2 => out.class("password-algorithms:several"),
            _ => {}
        }
        if zero_tail(&v) {
            out.class("value:4-aligned-ending-in-zero");
            nontrivial = true;
        } else if v.last() == Some(&0) {
            nontrivial = true;
        }
        if v.len() % 4 != 0 {
            out.class("value:needs-padding");
            nontrivial = true;
        }
        out.class(match family(a) {
            "addr" => "attr:addr",
            "text" => "attr:text",
            "bytes" => "attr:bytes",
            "error-code" => "attr:error-code",
            "unknown-attributes" => "attr:unknown-attributes",
            "password-algorithm" => "attr:password-algorithm",
            "password-algorithms" => "attr:password-algorithms",
            "userhash" => "attr:userhash",
            "lifetime" => "attr:lifetime",
            "channel-number" => "attr:channel-number",
            "requested-transport" => "attr:requested-transport",
            "even-port" => "attr:even-port",
            "dont-fragment" => "attr:dont-fragment",
            _ => "attr:reservation-token",
        });
    }
    let lay = layout(m);
    for (i, t) in m.tail.iter().enumerate() {
        nontrivial = true;
        let (start, end, _) = lay[1 + m.attrs.len() + i];
        let _ = start;
        let ends_zero = refb[end - 1] == 0;
        match t {
            RTail::Integrity(k) | RTail::IntegritySha256(k) => {
                out.class(if matches!(t, RTail::Integrity(_)) { "tail:integrity" } else { "tail:integrity-sha256" });
                out.class(match k {
                    RKey::ShortTerm { .. } => "key:short-term",
                    RKey::LongTermMd5 { .. } => "key:long-term-md5",
                    RKey::LongTermSha256 { .. } => "key:long-term-sha256",
                    RKey::Raw(_) => "key:raw",
                });
                if ends_zero {
                    out.class("tail:hmac-ends-in-zero");
                }
            }
            RTail::Fingerprint => {
                out.class("tail:fingerprint");
                if ends_zero {
                    out.class("tail:crc-ends-in-zero");
                }
            }
        }
    }
    if m.tail.len() >= 2 && matches!(m.tail[0], RTail::IntegritySha256(_)) && matches!(m.tail[1], RTail::Integrity(_)) {
        out.class("tail:sha256-before-sha1(ezk-auth-order)");
    }
    nontrivial
}

/// is `got` an admissible reading of `want`?  In RFC mode: equality.  In the non-RFC mode
/// (padding counted in the length field) the wire value is `want || padding zeros`, and every
/// value with the same padded form is indistinguishable from it on the wire: accept those too
/// for the attributes without an intrinsic length (byte strings, UNKNOWN-ATTRIBUTES).
fn admissible(want: &RAttr, got: &RAttr, pad_in_len: bool) -> bool {
    if want == got {
        return true;
    }
    if !pad_in_len {
        return false;
    }
    let same_padded = |w: &Vec<u8>, g: &Vec<u8>| {
        let mut wire = w.clone();
        wire.extend(std::iter::repeat(0u8).take(pad_len(w.len())));
        (0..=3usize).any(|j| {
            wire.len() >= j && wire[wire.len() - j..].iter().all(|b| *b == 0) && g[..] == wire[..wire.len() - j]
        })
    };
    match (want, got) {
        (RAttr::Nonce(w), RAttr::Nonce(g)) => same_padded(w, g),
        (RAttr::Data(w), RAttr::Data(g)) => same_padded(w, g),
        (RAttr::AlternateDomain(w), RAttr::AlternateDomain(g)) => same_padded(w, g),
        (RAttr::UnknownAttributes(w), RAttr::UnknownAttributes(g)) => {
            w.len() % 2 == 1 && g.len() == w.len() + 1 && g[..w.len()] == w[..] && g[w.len()] == 0
        }
        _ => false,
    }
}

/// parse `bytes` with ezk and compare header and every attribute with the generated values
fn parse_and_compare(bytes: &[u8], m: &RMsg, pad_in_len: bool, prefix: &str, out: &mut CaseOut) -> Option<ParsedMessage> {
    let mut pm = match ParsedMessage::parse(bytes.to_vec()) {
        Ok(pm) => pm,
        Err(e) => {
            out.fail(format!("{prefix}.parse/error"), format!("ezk refuses the message: {e}; bytes {}", hex(bytes)));
            return None;
        }
    };
    compare_parsed(&mut pm, bytes, m, pad_in_len, prefix, out);
    Some(pm)
}

/// compare header and every attribute of a message ezk parsed with the generated values
fn compare_parsed(pm: &mut ParsedMessage, bytes: &[u8], m: &RMsg, pad_in_len: bool, prefix: &str, out: &mut CaseOut) {
    if ezk::from_ezk_class(pm.class) != m.class {
        out.fail(format!("{prefix}.header/class"), format!("class {:?}, expected {:?}", pm.class, m.class));
    }
    if pm.tsx_id != ezk::tid_u128(&m.tid) {
        out.fail(format!("{prefix}.header/transaction-id"), format!("tsx_id {:#x}, expected {}", pm.tsx_id, hex(&m.tid)));
    }
    for a in &m.attrs {
        let mut wire = encode_value(a, &m.tid);
        if pad_in_len {
            let p = pad_len(wire.len());
            wire.extend(std::iter::repeat(0u8).take(p));
        }
        let shape = if zero_tail(&wire) { "-zero-tail" } else { "" };
        match ezk::read(pm, a) {
            None => out.fail(
                format!("{prefix}.attr/{}-missing", family(a)),
                format!("get_attr finds no attribute of type {:#06x}; bytes {}", a.typ(), hex(bytes)),
            ),
            Some(Err(e)) => out.fail(
                format!("{prefix}.attr/{}{shape}-error", family(a)),
                format!("get_attr({:#06x}) fails: {e}; expected {a:?}; value on the wire {}", a.typ(), hex(&wire)),
            ),
            Some(Ok(got)) => {
                if !admissible(a, &got, pad_in_len) {
                    out.fail(
                        format!("{prefix}.attr/{}{shape}-value", family(a)),
                        format!("decoded {got:?}, expected {a:?}; value on the wire {}", hex(&wire)),
                    );
                }
            }
        }
    }
}

/// is tail element `i` one whose verdict the RFC fixes?  MESSAGE-INTEGRITY that follows
/// MESSAGE-INTEGRITY-SHA256 may be ignored (§14.6: everything after it except FINGERPRINT is),
/// so only the non-acceptance of a wrong key is asserted for it.
fn asserted(m: &RMsg, i: usize) -> bool {
    !(matches!(m.tail[i], RTail::Integrity(_)) && m.tail[..i].iter().any(|t| matches!(t, RTail::IntegritySha256(_))))
}

fn wrong_key(k: &RKey) -> RKey {
    let mut b = k.bytes();
    b.push(0x01);
    RKey::Raw(b)
}

/// (iii) without corruption: ezk accepts, the reference accepts, a wrong key is refused
fn check_protection(bytes: &[u8], m: &RMsg, pm: &mut ParsedMessage, who: &str, out: &mut CaseOut) {
    let lay = layout(m);
    for (i, t) in m.tail.iter().enumerate() {
        let kind = tail_kind(t);
        // position by reference layout is only meaningful for reference-built / RFC-mode bytes;
        // use the reference TLV walker on the actual bytes instead
        let _ = &lay;
        let v = ezk::verify(pm, t);
        let mac_zero = decode(bytes)
            .ok()
            .and_then(|d| d.attrs.iter().find(|a| a.typ == tail_typ(t)).map(|a| a.value.last() == Some(&0)))
            .unwrap_or(false);
        let shape = if mac_zero { "-zero-tail" } else { "" };
        if asserted(m, i) && v != Some(true) {
            out.fail(
                format!("c20.verify/ezk-rejects-{who}-{kind}{shape}"),
                format!("ezk's verdict on the untampered {who} message is {v:?} for {kind}; bytes {}", hex(bytes)),
            );
        }
        match t {
            RTail::Integrity(k) | RTail::IntegritySha256(k) => {
                let sha = matches!(t, RTail::IntegritySha256(_));
                let wk = wrong_key(k);
                let wt = if sha { RTail::IntegritySha256(wk) } else { RTail::Integrity(wk) };
                if ezk::verify(pm, &wt) == Some(true) {
                    out.fail(format!("c20.verify/ezk-accepts-wrong-key-{kind}"), format!("bytes {}", hex(bytes)));
                }
                if who == "ezk-built" {
                    let r = verify_integrity(bytes, &k.bytes(), sha);
                    if r != Some(true) {
                        out.fail(
                            format!("c20.verify/reference-rejects-ezk-built-{kind}"),
                            format!("reference verdict {r:?}; bytes {}", hex(bytes)),
                        );
                    }
                }
            }
            RTail::Fingerprint => {
                if who == "ezk-built" {
                    let r = verify_fingerprint(bytes);
                    if r != Some(true) {
                        out.fail(
                            "c20.verify/reference-rejects-ezk-built-fingerprint",
                            format!("reference verdict {r:?}; bytes {}", hex(bytes)),
                        );
                    }
                }
            }
        }
    }
}

fn tail_typ(t: &RTail) -> u16 {
    match t {
        RTail::Integrity(_) => T_MESSAGE_INTEGRITY,
        RTail::IntegritySha256(_) => T_MESSAGE_INTEGRITY_SHA256,
        RTail::Fingerprint => T_FINGERPRINT,
    }
}

// --- (i) builder --------------------------------------------------------------------------------------------

fn check_builder(case: &MsgCase, out: &mut CaseOut) {
    let m = prepare(case);
    let refb = encode(&m);
    if classify(&m, &refb, out) {
        out.nontrivial(&(&m, case.pad_in_len));
    }
    out.class(if case.pad_in_len { "mode:padding-in-length" } else { "mode:rfc" });
    let b = match ezk::build(&m, case.pad_in_len) {
        Ok(b) => b,
        Err(e) => {
            out.fail("c20.builder/build-error", e);
            return;
        }
    };
    out.note = Some(hex(&b));

    if !case.pad_in_len {
        if b != refb {
            // first difference after the header decides the locus (the header length is a consequence)
            let n = b.len().min(refb.len());
            let idx = (20..n).find(|&i| b[i] != refb[i]).or_else(|| if b.len() != refb.len() { Some(n) } else { None });
            let sig = match idx {
                Some(i) => {
                    let lay = layout(&m);
                    match lay.iter().find(|(s, e, _)| *s <= i && i < *e) {
                        Some((s, _, name)) => {
                            let part = match i - s {
                                0..=1 => "type",
                                2..=3 => "length",
                                _ => "value",
                            };
                            format!("c20.builder.bytes/{name}-{part}")
                        }
                        None => "c20.builder.bytes/trailing".to_string(),
                    }
                }
                None => "c20.builder.bytes/header".to_string(),
            };
            out.fail(sig, format!("ezk builder: {}\nreference:   {}", hex(&b), hex(&refb)));
        }
    } else {
        // non-RFC mode: only the framing invariants of RFC 8489 §5 that do not depend on the mode
        let declared = if b.len() >= 4 { u16::from_be_bytes([b[2], b[3]]) as usize } else { usize::MAX };
        if b.len() < 20 || declared != b.len() - 20 || b.len() % 4 != 0 {
            out.fail(
                "c20.builder.bytes/header-length",
                format!("header length {declared} but {} bytes follow the header", b.len().saturating_sub(20)),
            );
        }
    }

    // parses back with ezk to the same values
    if let Some(mut pm) = parse_and_compare(&b, &m, case.pad_in_len, "c20.builder", out) {
        check_protection(&b, &m, &mut pm, "ezk-built", out);
    }

    // second opinion on what the builder wrote: the reference decoder
    match decode(&b) {
        Err(e) => out.fail("c20.builder.refdecode/framing", format!("reference decoder: {e}; bytes {}", hex(&b))),
        Ok(d) => {
            for a in &m.attrs {
                match d.attrs.iter().find(|r| r.typ == a.typ()).and_then(|r| decode_attr(r, &d.tid)) {
                    Some(Ok(got)) if admissible(a, &got, case.pad_in_len) => {}
                    // text in the non-RFC mode: the reference keeps the padding zeros the sender counted in
                    Some(Ok(got)) if case.pad_in_len && text_equal_mod_padding(a, &got) => {}
                    other => out.fail(
                        format!("c20.builder.refdecode/{}", family(a)),
                        format!("reference decoder reads {other:?}, expected {a:?}; bytes {}", hex(&b)),
                    ),
                }
            }
        }
    }

    // USERHASH helper agrees with RFC 8489 §14.4
    let user = m.attrs.iter().find_map(|a| if let RAttr::Username(u) = a { Some(u) } else { None });
    let realm = m.attrs.iter().find_map(|a| if let RAttr::Realm(r) = a { Some(r) } else { None });
    if let (Some(u), Some(r)) = (user, realm) {
        out.class("userhash-helper");
        if stun_types::attributes::UserHash::new(u, r).0[..] != userhash(u, r)[..] {
            out.fail("c20.builder/userhash-new", format!("UserHash::new({u:?}, {r:?})"));
        }
    }
}

fn text_equal_mod_padding(want: &RAttr, got: &RAttr) -> bool {
    let strip = |s: &str| s.trim_end_matches('\0').to_string();
    match (want, got) {
        (RAttr::Username(w), RAttr::Username(g)) | (RAttr::Realm(w), RAttr::Realm(g)) | (RAttr::Software(w), RAttr::Software(g)) => {
            *w == strip(g) && g.len() >= w.len() && g.len() - w.len() <= 3
        }
        (RAttr::ErrorCode { code: wc, reason: w }, RAttr::ErrorCode { code: gc, reason: g }) => {
            wc == gc && *w == strip(g) && g.len() >= w.len() && g.len() - w.len() <= 3
        }
        _ => false,
    }
}

// --- (ii) reference-encoded messages decode with ezk; (v) they are classified STUN ---------------------------------

fn check_ref_decode(case: &MsgCase, out: &mut CaseOut) {
    let m = prepare(case);
    let refb = encode(&m);
    if classify(&m, &refb, out) {
        out.nontrivial(&m);
    }
    out.note = Some(hex(&refb));

    // guard against a broken oracle: the reference decodes and verifies its own output
    match decode(&refb) {
        Err(e) => out.fail("c20.ref/selfcheck", format!("reference cannot decode its own output: {e}")),
        Ok(d) => {
            if d.class != m.class || d.method != m.method || d.tid != m.tid || d.attrs.len() != m.attrs.len() + m.tail.len() {
                out.fail("c20.ref/selfcheck", "header/attribute count mismatch");
            }
            for (a, r) in m.attrs.iter().zip(d.attrs.iter()) {
                if decode_attr(r, &d.tid) != Some(Ok(a.clone())) {
                    out.fail("c20.ref/selfcheck", format!("attribute {a:?} does not round-trip through the reference"));
                }
            }
            for t in &m.tail {
                let ok = match t {
                    RTail::Integrity(k) => verify_integrity(&refb, &k.bytes(), false),
                    RTail::IntegritySha256(k) => verify_integrity(&refb, &k.bytes(), true),
                    RTail::Fingerprint => verify_fingerprint(&refb),
                };
                if ok != Some(true) {
                    out.fail("c20.ref/selfcheck", "reference does not verify its own protection attribute");
                }
            }
        }
    }

    if let Some(mut pm) = parse_and_compare(&refb, &m, false, "c20.decode", out) {
        check_protection(&refb, &m, &mut pm, "reference-built", out);
    }

    // (v) a STUN message is never taken for SIP
    match is_stun_message(&refb) {
        IsStunMessageInfo::Yes { remaining: 0 } => {}
        other => out.fail("c20.demux/is-stun-message-on-stun", format!("is_stun_message = {other:?}; bytes {}", hex(&refb))),
    }
    match parse_complete(Default::default(), &refb) {
        Ok(CompleteItem::Stun(pm)) => {
            if pm.tsx_id != ezk::tid_u128(&m.tid) {
                out.fail("c20.demux/stun-transaction-id", format!("tsx_id {:#x}", pm.tsx_id));
            }
        }
        Ok(CompleteItem::Sip { .. }) => out.fail("c20.demux/stun-classified-sip", format!("bytes {}", hex(&refb))),
        Ok(_) => out.fail("c20.demux/stun-classified-keepalive", format!("bytes {}", hex(&refb))),
        Err(_) => out.fail("c20.demux/stun-refused", format!("parse_complete refuses a reference STUN message; bytes {}", hex(&refb))),
    }
}

// --- (iii) single-bit corruption -----------------------------------------------------------------------------------

fn region(bytes: &[u8], byte: usize) -> &'static str {
    match byte {
        0..=1 => return "header-type",
        2..=3 => return "header-length",
        4..=7 => return "cookie",
        8..=19 => return "transaction-id",
        _ => {}
    }
    if let Ok(d) = decode(bytes) {
        for a in &d.attrs {
            if byte >= a.offset && byte < a.end() {
                let rel = byte - a.offset;
                let prot = matches!(a.typ, T_MESSAGE_INTEGRITY | T_MESSAGE_INTEGRITY_SHA256 | T_FINGERPRINT);
                return match rel {
                    0..=1 => "attr-type",
                    2..=3 => "attr-length",
                    r if r < 4 + a.len => {
                        if prot {
                            "mac-value"
                        } else {
                            "attr-value"
                        }
                    }
                    _ => "padding",
                };
            }
        }
    }
    "unknown"
}

fn check_bitflip(case: &MsgCase, out: &mut CaseOut) {
    let m = prepare(case);
    if m.tail.is_empty() {
        return;
    }
    let refb = encode(&m);
    classify(&m, &refb, out);
    let bytes = if case.pad_in_len {
        out.class("flip:ezk-built-padding-in-length");
        match ezk::build(&m, true) {
            Ok(b) => b,
            Err(e) => {
                out.fail("c20.builder/build-error", e);
                return;
            }
        }
    } else {
        out.class("flip:reference-built");
        refb
    };
    // covered ranges from the reference TLV walk of the actual bytes
    let Ok(d) = decode(&bytes) else {
        out.fail("c20.flip/baseline-undecodable", format!("bytes {}", hex(&bytes)));
        return;
    };
    let Ok(mut pm0) = ParsedMessage::parse(bytes.clone()) else {
        out.fail("c20.flip/baseline-parse", format!("bytes {}", hex(&bytes)));
        return;
    };
    // (tail element, end of covered range, header length covered?)
    let mut targets = vec![];
    for (i, t) in m.tail.iter().enumerate() {
        if !asserted(&m, i) {
            continue;
        }
        let Some(a) = d.attrs.iter().find(|a| a.typ == tail_typ(t)) else { continue };
        if ezk::verify(&mut pm0, t) != Some(true) {
            out.fail(format!("c20.flip/baseline-rejected-{}", tail_kind(t)), format!("bytes {}", hex(&bytes)));
            continue;
        }
        // MESSAGE-INTEGRITY(-SHA256) is computed over a header whose length field is REPLACED by
        // the verifier (§14.5), so the length field itself is not in the covered range;
        // FINGERPRINT covers the header as sent.
        targets.push((t.clone(), a.end(), matches!(t, RTail::Fingerprint)));
    }
    if targets.is_empty() {
        return;
    }
    let max_end = targets.iter().map(|t| t.1).max().unwrap();
    let mut flips = 0u64;
    let mut reported: Vec<(&'static str, &'static str)> = vec![];
    for byte in 0..max_end {
        for bit in 0..8 {
            let mut c = bytes.clone();
            c[byte] ^= 1 << bit;
            flips += 1;
            let Ok(mut pm) = ParsedMessage::parse(c) else { continue };
            for (t, end, covers_len) in &targets {
                if byte >= *end || (!covers_len && (2..4).contains(&byte)) {
                    continue;
                }
                if ezk::verify(&mut pm, t) == Some(true) {
                    let key = (tail_kind(t), region(&bytes, byte));
                    if reported.contains(&key) {
                        continue;
                    }
                    reported.push(key);
                    out.fail(
                        format!("c20.flip/{}-accepts-flip-in-{}", tail_kind(t), region(&bytes, byte)),
                        format!("bit {bit} of byte {byte} flipped, {} still accepted; original bytes {}", tail_kind(t), hex(&bytes)),
                    );
                }
            }
        }
    }
    out.class(match flips {
        0..=999 => "flips:<1000",
        1000..=1999 => "flips:1000-1999",
        _ => "flips:>=2000",
    });
    out.nontrivial(&(&m, case.pad_in_len));
    out.note = Some(format!("{flips} single-bit flips, all rejected"));
}

// --- (iv) no panic -----------------------------------------------------------------------------------------------------

fn fuzz_bytes(case: &FuzzCase) -> Option<Vec<u8>> {
    let header = |typ: u16, tid: &[u8; 12], body_len: usize| {
        let mut b = vec![];
        b.extend_from_slice(&typ.to_be_bytes());
        b.extend_from_slice(&(body_len as u16).to_be_bytes());
        b.extend_from_slice(&COOKIE);
        b.extend_from_slice(tid);
        b
    };
    Some(match case {
        FuzzCase::Raw(b) => b.clone(),
        FuzzCase::Header { typ, tid, body } => {
            let mut b = header(*typ, tid, body.len());
            b.extend_from_slice(body);
            b
        }
        FuzzCase::Tlv { typ, tid, attrs, lie } => {
            let mut body = vec![];
            for (i, (t, v)) in attrs.iter().enumerate() {
                let mut len = v.len() as i32;
                if i + 1 == attrs.len() {
                    len = (len + *lie as i32).max(0);
                }
                body.extend_from_slice(&t.to_be_bytes());
                body.extend_from_slice(&(len as u16).to_be_bytes());
                body.extend_from_slice(v);
                body.extend(std::iter::repeat(0u8).take(pad_len(v.len())));
            }
            let mut b = header(*typ, tid, body.len());
            b.extend_from_slice(&body);
            b
        }
        FuzzCase::Mutated { msg, edits, truncate, append } => {
            let mut b = encode(msg);
            for (pos, mask) in edits {
                let i = pick_idx(*pos, b.len());
                b[i] ^= mask;
            }
            if let Some(t) = truncate {
                let n = pick_idx(*t, b.len() + 1);
                b.truncate(n);
            }
            b.extend_from_slice(append);
            b
        }
        FuzzCase::Turn { msg, pad_in_len } => ezk::build(msg, *pad_in_len).ok()?,
    })
}

fn check_no_panic(case: &FuzzCase, out: &mut CaseOut) {
    out.class(match case {
        FuzzCase::Raw(_) => "input:raw-bytes",
        FuzzCase::Header { .. } => "input:valid-header+bytes",
        FuzzCase::Tlv { .. } => "input:known-types-random-values",
        FuzzCase::Mutated { .. } => "input:mutated-valid-message",
        FuzzCase::Turn { .. } => "input:ezk-built-turn-method",
    });
    let Some(bytes) = fuzz_bytes(case) else {
        out.class("turn-build-error");
        return;
    };
    // any panic below is recorded by the engine as panic/<file>:<line>
    let _ = is_stun_message(&bytes);
    match parse_complete(Default::default(), &bytes) {
        Ok(CompleteItem::Stun(_)) => out.class("demux:stun"),
        Ok(CompleteItem::Sip { .. }) => out.class("demux:sip"),
        Ok(_) => out.class("demux:keepalive"),
        Err(_) => out.class("demux:refused"),
    }
    match ParsedMessage::parse(bytes.clone()) {
        Err(_) => out.class("parse:error"),
        Ok(mut pm) => {
            out.class("parse:ok");
            let key = RKey::ShortTerm { password: "k".into() };
            let n = ezk::read_everything(&mut pm, &key);
            if !pm.attributes.is_empty() {
                out.nontrivial(&bytes);
            }
            out.class(match n {
                0 => "decoders-hit:0",
                1 => "decoders-hit:1",
                2..=3 => "decoders-hit:2-3",
                _ => "decoders-hit:4+",
            });
        }
    }
}

// --- (v) SIP text is never classified STUN -------------------------------------------------------------------------------

fn check_demux_sip(case: &SipCase, out: &mut CaseOut) {
    let mut bytes = case.text.as_bytes().to_vec();
    bytes.extend_from_slice(&case.body);
    let first = bytes[0];
    out.class(if case.text.starts_with("SIP/2.0 ") { "start-line:status" } else { "start-line:request" });
    if first < 0x40 {
        out.class("first-byte<0x40 (looks like a STUN type)");
        out.nontrivial(&bytes);
    }
    // generated messages always exceed a STUN header in size (Via/From/To/Call-ID/CSeq lines)
    debug_assert!(bytes.len() >= 20);
    match is_stun_message(&bytes) {
        IsStunMessageInfo::No => {}
        other => out.fail("c20.demux/is-stun-message-on-sip", format!("is_stun_message = {other:?} for {:?}", case.text)),
    }
    match parse_complete(Default::default(), &bytes) {
        Ok(CompleteItem::Stun(_)) => out.fail("c20.demux/sip-classified-stun", format!("{:?}", case.text)),
        Ok(CompleteItem::Sip { .. }) => out.class("parse_complete:sip"),
        Ok(_) => out.class("parse_complete:keepalive"),
        // not asserted here: whether the SIP parser likes the message (C01/C02)
        Err(_) => out.class("parse_complete:refused-by-sip-parser"),
    }
}

// --- (ii, v) a datagram that holds a message followed by further bytes ---------------------------------------------------
//
// RFC 8489 section 5: the header's length field is the size of the message; the attributes of a message are
// the ones inside that length. `is_stun_message` reports what lies behind as `remaining`. A datagram
// may carry more than the message (padding of a lower layer, CRLF, a forged attribute, a second
// message). What is asserted: such a datagram is never SIP / a keep-alive; IF it is delivered as STUN,
// the message decodes to exactly the generated values - nothing behind its end is one of its
// attributes; and whether it is delivered or refused does not depend on the CONTENT of the bytes
// behind it (two trailers of the same size: a well-formed attribute and bytes that are none).
// Not asserted: that it is delivered at all (a receiver may refuse every datagram whose size differs
// from the message's).

fn tlv(a: &RAttr, tid: &[u8; 12]) -> Vec<u8> {
    let v = encode_value(a, tid);
    let mut b = vec![];
    b.extend_from_slice(&a.typ().to_be_bytes());
    b.extend_from_slice(&(v.len() as u16).to_be_bytes());
    b.extend_from_slice(&v);
    b.extend(std::iter::repeat(0u8).take(pad_len(v.len())));
    b
}

/// do these bytes read as a sequence of attributes that ends exactly at their end?
fn wellformed_tlvs(b: &[u8]) -> bool {
    let mut p = 0;
    while p < b.len() {
        if b.len() - p < 4 {
            return false;
        }
        let l = u16::from_be_bytes([b[p + 2], b[p + 3]]) as usize;
        let e = p + 4 + l + pad_len(l);
        if e > b.len() {
            return false;
        }
        p = e;
    }
    true
}

fn twin_bytes(attr_tlv: &[u8], twin: &gen::Twin) -> Vec<u8> {
    let mut b = match twin {
        gen::Twin::Overrun(_) => attr_tlv.to_vec(),
        gen::Twin::Random(seed) if !seed.is_empty() => (0..attr_tlv.len()).map(|i| seed[i % seed.len()]).collect(),
        gen::Twin::Random(_) => vec![0xa5; attr_tlv.len()],
    };
    if let gen::Twin::Overrun(add) = twin {
        let l = u16::from_be_bytes([b[2], b[3]]);
        let l = l.saturating_add((*add).max(4));
        b[2..4].copy_from_slice(&l.to_be_bytes());
    }
    if wellformed_tlvs(&b) {
        // make sure the twin is no attribute: its length field points far behind the datagram
        b[2] = 0xff;
        b[3] = 0xfc;
    }
    b
}

#[derive(PartialEq, Eq, Clone, Copy, Debug)]
enum Verdict {
    Delivered,
    Refused,
    Other,
}

/// one datagram = reference message `refb` (of `m`) ++ `behind`
fn check_one_datagram(m: &RMsg, refb: &[u8], behind: &[u8], what: &str, out: &mut CaseOut) -> Verdict {
    let mut dg = refb.to_vec();
    dg.extend_from_slice(behind);
    match is_stun_message(&dg) {
        IsStunMessageInfo::Yes { remaining } if remaining == behind.len() => {}
        other => out.fail(
            "c20.demux/is-stun-message-on-stun-followed-by-bytes",
            format!("is_stun_message = {other:?} for a {} byte message followed by {} bytes ({what}); datagram {}", refb.len(), behind.len(), hex(&dg)),
        ),
    }
    match parse_complete(Default::default(), &dg) {
        Ok(CompleteItem::Stun(mut pm)) => {
            // anything from behind the end of the message among its attributes?
            let mut leaked: Vec<String> = vec![];
            for p in ezk::probes() {
                if !m.attrs.iter().any(|a| a.typ() == p.typ()) {
                    if let Some(r) = ezk::read(&mut pm, &p) {
                        leaked.push(format!("get_attr({:#06x}) = {r:?}", p.typ()));
                    }
                }
            }
            let key = RKey::ShortTerm { password: "k".into() };
            for t in [RTail::Integrity(key.clone()), RTail::IntegritySha256(key), RTail::Fingerprint] {
                if !m.tail.iter().any(|x| tail_typ(x) == tail_typ(&t)) && ezk::verify(&mut pm, &t).is_some() {
                    leaked.push(format!("{} found", tail_kind(&t)));
                }
            }
            let n = m.attrs.len() + m.tail.len();
            if pm.attributes.len() != n {
                leaked.push(format!("{} attributes, the message has {n}", pm.attributes.len()));
            }
            if !leaked.is_empty() {
                out.fail(
                    "c20.demux/bytes-behind-the-message-read-as-attribute",
                    format!(
                        "the message ends after {} bytes (header length {}), {} bytes follow ({what}); ezk delivers it with {}; datagram {}",
                        refb.len(),
                        refb.len() - 20,
                        behind.len(),
                        leaked.join(", "),
                        hex(&dg)
                    ),
                );
                // everything else about this datagram is a consequence
                return Verdict::Delivered;
            }
            compare_parsed(&mut pm, refb, m, false, "c20.datagram", out);
            check_protection(refb, m, &mut pm, "reference-built", out);
            Verdict::Delivered
        }
        Ok(CompleteItem::Sip { .. }) => {
            out.fail("c20.demux/stun-followed-by-bytes-classified-sip", format!("{what}; datagram {}", hex(&dg)));
            Verdict::Other
        }
        Ok(_) => {
            out.fail("c20.demux/stun-followed-by-bytes-classified-keepalive", format!("{what}; datagram {}", hex(&dg)));
            Verdict::Other
        }
        Err(_) => Verdict::Refused,
    }
}

fn check_datagram(case: &gen::DatagramCase, out: &mut CaseOut) {
    let m = &case.msg;
    let refb = encode(m);
    classify(m, &refb, out);
    // the message on its own: the business of ref_decode
    if !matches!(parse_complete(Default::default(), &refb), Ok(CompleteItem::Stun(_))) {
        out.class("skipped:the-message-alone-is-not-delivered(see ref_decode)");
        return;
    }
    out.nontrivial(case);
    let attr_tlv = tlv(&case.attr, &m.tid);
    let twin = twin_bytes(&attr_tlv, &case.twin);
    let second = encode(&case.second);
    out.class(match family(&case.attr) {
        "addr" => "behind:attribute:addr",
        "text" => "behind:attribute:text",
        "bytes" => "behind:attribute:bytes",
        "error-code" => "behind:attribute:error-code",
        _ => "behind:attribute:other",
    });
    out.class(match case.twin {
        gen::Twin::Overrun(_) => "behind:attribute-whose-length-overruns-the-datagram",
        gen::Twin::Random(_) => "behind:bytes-of-the-attribute's-size",
    });
    out.class(if case.extra == b"\r\n" || case.extra == b"\r\n\r\n" {
        "behind:crlf"
    } else if case.extra.iter().all(|b| *b == 0) && case.extra.len() % 4 == 0 {
        "behind:zero-words"
    } else if case.extra.len() < 4 {
        "behind:1-3-bytes"
    } else if case.extra.starts_with(b"OPTIONS ") {
        "behind:sip-text"
    } else {
        "behind:4-40-bytes"
    });
    if !m.tail.is_empty() && m.tail.iter().any(|t| !matches!(t, RTail::Fingerprint)) {
        out.class("message-ends-in-integrity(get_attr ignores what follows)");
    }
    let v_attr = check_one_datagram(m, &refb, &attr_tlv, "a well-formed attribute", out);
    let v_twin = check_one_datagram(m, &refb, &twin, "bytes of the same size that are no attribute", out);
    let v_extra = check_one_datagram(m, &refb, &case.extra, "other bytes", out);
    let v_second = check_one_datagram(m, &refb, &second, "a second message", out);
    if v_attr != v_twin && v_attr != Verdict::Other && v_twin != Verdict::Other {
        out.fail(
            "c20.demux/verdict-depends-on-bytes-behind-the-message",
            format!(
                "message followed by {} bytes: {v_attr:?} when they are a well-formed attribute ({}), {v_twin:?} when they are not ({}); message {}",
                attr_tlv.len(),
                hex(&attr_tlv),
                hex(&twin),
                hex(&refb)
            ),
        );
    }
    for (v, label_d, label_r) in [
        (v_attr, "followed-by-attribute:delivered", "followed-by-attribute:refused"),
        (v_twin, "followed-by-non-attribute:delivered", "followed-by-non-attribute:refused"),
        (v_extra, "followed-by-other-bytes:delivered", "followed-by-other-bytes:refused"),
        (v_second, "followed-by-second-message:delivered", "followed-by-second-message:refused"),
    ] {
        match v {
            Verdict::Delivered => out.class(label_d),
            Verdict::Refused => out.class(label_r),
            Verdict::Other => {}
        }
    }
}

fn seed_corpus_stun(dir: &std::path::Path) {
    for (i, m) in sample_strategy(&gen::message(), 3, 150).into_iter().enumerate() {
        let _ = std::fs::write(dir.join(format!("msg-{i:03}")), crate::refmodel::ref_stun::encode(&m));
    }
    for (i, m) in sample_strategy(&gen::protected_message(), 4, 100).into_iter().enumerate() {
        let _ = std::fs::write(dir.join(format!("prot-{i:03}")), crate::refmodel::ref_stun::encode(&m));
    }
}

pub fn property() -> Property {
    Property {
        fuzz: vec![FuzzStage { target: "stun", runs: 2_000_000, max_len: 2048, seed_corpus: seed_corpus_stun }],
        id: "C20",
        rule: "codec sub-checks: a case is a typed Binding message (class, 96-bit id, <=6 distinct attributes, \
               optional MESSAGE-INTEGRITY/-SHA256/FINGERPRINT tail) plus builder mode; non-trivial iff it has >=1 address \
               attribute, or a value whose encoding ends in a zero byte, or an integrity/fingerprint attribute, or a value \
               length not 0 mod 4; distinct = hash of (message, mode). bitflip: non-trivial iff at least one protected range \
               was exhaustively flipped. no_panic: non-trivial iff the bytes parse and carry >=1 attribute. demux_sip: \
               non-trivial iff the first byte is < 0x40. demux_datagram: a case is a message plus what follows it in four datagrams \
               (an attribute of a type it lacks, a same-size non-attribute, other bytes, a second message); non-trivial iff the message alone \
               is delivered as STUN, distinct = the case. client_*: a case is a schedule (which transmissions are answered, by which id, \
               when / where send_to fails / when the future is dropped) plus the shape of the exchange (class and content of the \
               delivered messages, transaction id, content of the request; for client_concurrent 2-3 calls with their ids, start \
               instants, answers and response classes; for client_transport how send_to completes, by which path and with which latency \
               the answer comes back, which transmission gets the right id and which ones foreign ids; in all of them the server address and the address the \
               messages are received from; for client_endpoint server address, source address, answered transmission, content of the response and what follows \
               it in its datagram); every enumerated case that ezk's parser lets through is non-trivial, distinct = the case.",
        assumptions: vec![
            "reference model ref_stun is correct (checked against the RFC 5769 vectors by its unit tests; each run re-checks that it decodes and verifies its own output)",
            "text attributes never contain U+0000 and UNKNOWN-ATTRIBUTES never lists type 0x0000 (so a decoder may strip padding a sender counted into the length)",
            "in the non-RFC builder mode byte-string attributes and UNKNOWN-ATTRIBUTES are compared up to the <=3 padding zeros that mode makes indistinguishable",
            "MESSAGE-INTEGRITY after MESSAGE-INTEGRITY-SHA256 (the order ezk's auth.rs emits) may be ignored by the receiver (RFC 8489 14.6); only its bytes and wrong-key refusal are asserted",
            "the header length field is not in the range covered by MESSAGE-INTEGRITY(-SHA256) (the verifier replaces it, 14.5); it is covered by FINGERPRINT",
            "client: end of a request that is never answered is accepted at 39.5 s (RFC Rm=16) or 63.5 s (pure doubling); no transmission after 31.5 s either way",
            "client: success AND error responses are 'its response' (RFC 8489 6.3.3 / 6.3.4); a request or indication that carries the id of a pending request may either complete the call or be handed to the user (statement silent), both readings accepted as a whole",
            "client: 'matched by transaction id' means by nothing else: the address a response is received from (the server's, its host with another port, the same IPv4 host as ::ffff:a.b.c.d, another address of either family, the server another pending request was sent to) is no criterion; two calls with the same id are never pending at the same time; timing ties between different calls are not generated",
            "datagrams: a message ends where its header length says (RFC 8489 section 5; is_stun_message reports the rest as `remaining`); bytes behind it are not part of it. A receiver may deliver the message or refuse the whole datagram (both accepted), but must not read those bytes as attributes of the message nor let their content decide",
            "client_endpoint: when XOR-MAPPED-ADDRESS and MAPPED-ADDRESS differ either one may be returned; what an error response yields is not asserted beyond: the call ends when it arrives, and never with an address from outside the message",
            "client_transport: a response that StunEndpoint::receive is given while send_to of one of the request's transmissions is still pending (the datagram has been handed to the transport) is 'its response' like any other; whether the wait runs from the start or the end of a slow send_to is not asserted; the call may return at delivery or when that send_to returns",
            "little-endian host (ezk's set_len byte shuffling is only exercised on the host it runs on)",
        ],
        explanation: "Sampled: typed messages (builder, ref_decode), byte strings and mutated messages (no_panic), SIP text (demux_sip), \
                      messages followed by further bytes in one datagram (demux_datagram: attribute of an absent type / same-size non-attribute / CRLF, 1-3 bytes, zero words, arbitrary bytes, SIP text / second message). \
                      Exhaustive per sampled protected message: every single-bit flip inside the covered range (bitflip). \
                      Exhaustive: all 2^7 answered/lost patterns x {right id, wrong id, wrong-then-right} x 4 response delays, each one with \
                      success and error responses (header only and with a pooled attribute body) and with a request / an indication carrying \
                      the pending id, transaction ids and request contents rotating; thorough: x 4 classes x every pooled body (client_schedule); \
                      2-3 requests pending at once with near-identical ids, every combination of a small set of answers and of success/error \
                      responses, and the same id reused after the call ended (client_concurrent); \
                      send_to failing at each of the 7 transmissions and the future dropped on a grid of virtual instants around every \
                      timer edge, with and without an await inside send_to, followed by a late message of each class (client_cleanup); \
                      21 combinations of send_to completion (ready / yields 1,3 times / pending 2,40 ms) and answer path (from inside send_to before / after \
                      its await points, server task with latency 0 / inside the pending time / after it) x 22 answer patterns (right id at each of the \
                      7 transmissions alone, behind a foreign-id response, after foreign-id responses to all earlier transmissions; never; only foreign ids) \
                      x {success, error} x {header only, one pooled body (four when the initial transmission is the answered one); thorough: every pooled body} (client_transport). \
                      In client_schedule / client_transport every shape but the plain one rotates over 3 server addresses (IPv4, IPv6, IPv4-mapped) x the 5-6 source addresses of each \
                      (the server's, other port, other family's name of the same host, other address of the same / other family); client_concurrent: a quarter plain, a quarter drawn per call, \
                      a quarter one server per call answered from the NEXT call's server, a quarter one server answering from different addresses. \
                      client_endpoint (Endpoint::discover_public_address, datagram path): every (server, source) pair x 6 (thorough: 28) answered-transmission/delay pairs x {success, error}, response content rotating; \
                      9 kinds of bytes behind the message x 4 address shapes of the response x 2 (thorough: 7) answers x 2 sources; never answered / only foreign ids per server. \
                      Methods other than Binding: no-panic only.",
        subs: vec![
            prop_sub("builder", gen::msg_case, 2000, 60000, check_builder),
            prop_sub("ref_decode", gen::msg_case, 2000, 60000, check_ref_decode),
            prop_sub("bitflip", gen::protected_case, 24, 128, check_bitflip),
            prop_sub("no_panic", gen::fuzz_case, 2000, 60000, check_no_panic),
            prop_sub("demux_sip", gen::sip_case, 1000, 20000, check_demux_sip),
            prop_sub("demux_datagram", gen::datagram_case, 500, 15000, check_datagram),
            enum_sub("client_schedule", client::schedule_cases, client::check_schedule),
            enum_sub("client_concurrent", client::concurrent_cases, client::check_concurrent),
            enum_sub("client_cleanup", client::cleanup_cases, client::check_cleanup),
            enum_sub("client_transport", client::transport_cases, client::check_transport),
            enum_sub("client_endpoint", endpoint::endpoint_cases, endpoint::check_endpoint),
        ],
    }
}
