//! C07 — INVITE client: non-2xx finals are ACKed by the transaction, 2xx left to the user
//!
//! Generated: an INVITE (header shapes from pools, optional Via sent-by override) on a reliable | unreliable mock
//! datagram transport, 1..5 scripted responses (status, To-tag, arrival offsets around 32 s / 64*T1, echoed headers
//! optionally changed by the peer, packet source = the INVITE's destination | another address) and a transport
//! fault plan: the `send` of the ACK answering a retransmitted final may fail with a transient io::Error.
//! Oracle: a reference state machine over the response history says which response must be answered by an ACK
//! transmission at its arrival instant (on the wire, or - when the fault plan fails that send - as a failed send
//! call; a failed ACK does not excuse the ACKs for later retransmissions), what each ACK contains (Request-URI,
//! Via, From, Call-ID, CSeq, Route of the INVITE; To of the response; destination of the INVITE whatever the
//! response's source) and what `receive()` yields. Not asserted: To of an ACK for a later final with another
//! To-tag, ACKs for 1xx/2xx arriving in Completed (optional), send faults on the INVITE or on the first ACK (not
//! generated: they end the transaction with an io error, the statement is silent).

use super::c05::{run_client_ex, Delivery, Res, OTHER_SOURCE};
use crate::engine::*;
use crate::refmodel::ref_tsx::TIMEOUT;
use crate::world::wire::param_of;
use crate::world::*;
use proptest::prelude::*;
use serde::{Deserialize, Serialize};
use sip_core::transport::{parse_complete, CompleteItem};
use sip_core::Request;
use sip_types::host::HostPort;
use sip_types::uri::sip::SipUri;
use sip_types::{Method, Name};

#[derive(Serialize, Deserialize, Clone, Debug, Hash)]
pub struct Resp {
    pub t_ms: u64,
    pub code: u16,
    /// None = no To-tag; Some(i) = tag "tag<i>"
    pub to_tag: Option<u8>,
    /// what the peer (or a proxy on the path) changed in the headers it echoes; transaction matching looks at
    /// the top Via branch and the CSeq method only, so such a response still belongs to the INVITE:
    /// bit 0 = CSeq number differs, bit 1 = Call-ID differs, bit 2 = From differs (display name, tag),
    /// bit 3 = top Via carries added received=/rport= parameters (what every RFC 3581 server does)
    #[serde(default)]
    pub mangle: u8,
    /// the transport fails the `send` call made while this response is handled with a transient io::Error
    /// (ECONNREFUSED after an ICMP port-unreachable, ENOBUFS ...): the ACK for THIS response is lost in the
    /// transport. Only generated for responses that arrive after the first 3xx-6xx on an unreliable transport
    /// (the ACK re-sent by the Completed state); a fault on the INVITE itself or on the first ACK ends the
    /// transaction with an error and is outside the statement.
    #[serde(default)]
    pub send_fault: bool,
    /// the datagram comes from another address/port than the INVITE was sent to
    #[serde(default)]
    pub other_source: bool,
}

/// the response as the peer sends it: `response_text` plus the case's header changes
fn mangled_response(req: &WireMsg, code: u16, tag: Option<&str>, marker: &str, mangle: u8) -> Vec<u8> {
    let plain = response_text(req, code, tag, &[marker.to_string()]);
    if mangle == 0 {
        return plain;
    }
    let text = String::from_utf8(plain).expect("ascii");
    let mut out = String::new();
    let mut first_via = true;
    for line in text.split_inclusive("\r\n") {
        let lower = line.to_ascii_lowercase();
        if lower.starts_with("cseq:") && mangle & 1 != 0 {
            let (n, m) = req.cseq().unwrap_or((1, "INVITE".into()));
            out.push_str(&format!("CSeq: {} {m}\r\n", if n > 1000 { n - 977 } else { n + 4242 }));
        } else if lower.starts_with("call-id:") && mangle & 2 != 0 {
            out.push_str("Call-ID: someone-elses-call@198.51.100.99\r\n");
        } else if lower.starts_with("from:") && mangle & 4 != 0 {
            out.push_str("From: \"Mallory\" <sip:mallory@evil.example>;tag=zzz\r\n");
        } else if lower.starts_with("via:") && first_via && mangle & 8 != 0 {
            first_via = false;
            out.push_str(line.trim_end());
            out.push_str(";received=203.0.113.77;rport=40123\r\n");
        } else {
            if lower.starts_with("via:") {
                first_via = false;
            }
            out.push_str(line);
        }
    }
    out.into_bytes()
}

#[derive(Serialize, Deserialize, Clone, Debug, Hash)]
pub struct Case {
    pub reliable: bool,
    pub request_uri: String,
    pub from: String,
    pub to: String,
    pub call_id: String,
    pub cseq: u32,
    pub routes: Vec<String>,
    pub via_host_port: Option<String>,
    pub responses: Vec<Resp>,
    pub rng: u8,
}

const REQ_URIS: &[&str] = &[
    "sip:bob@192.0.2.1:5060",
    "sip:bob@biloxi.example.com;transport=udp",
    "sips:bob@[2001:db8::9]:5071;user=phone",
    "sip:192.0.2.77",
    "sip:+15551234;phone-context=example.com@gw.example.net;user=phone",
];
const FROMS: &[&str] = &[
    "<sip:alice@atlanta.example.com>;tag=9fxced76sl",
    "\"Alice A.\" <sip:alice@atlanta.example.com>;tag=a",
    "sip:alice@atlanta.example.com;tag=88sja8x",
    "\"J. Rosenberg, jr (x)\" <sip:jdrosen@example.com>;tag=98asjd8",
];
const TOS: &[&str] = &[
    "<sip:bob@biloxi.example.com>",
    "\"Bob\" <sip:bob@biloxi.example.com;user=phone>",
    "sip:bob@biloxi.example.com",
];
const ROUTES: &[&str] = &[
    "<sip:p1.example.com;lr>",
    "<sip:p2.example.net:5070;lr;transport=tcp>",
    "<sip:alice@p3.example.org;lr>;x=1",
    "<sips:p4.example.org>",
];
const CODES: &[u16] = &[100, 180, 200, 299, 300, 302, 404, 486, 500, 600, 603, 699];
const OFFSETS: &[u64] = &[0, 1, 499, 500, 5000, 20_000, 31_999, 32_001, TIMEOUT - 1, TIMEOUT + 1, 50_000];

pub fn strategy() -> BoxedStrategy<Case> {
    (
        prop_oneof![3 => Just(false), 1 => Just(true)],
        (any::<u16>(), any::<u16>(), any::<u16>()),
        "[a-zA-Z0-9.@-]{1,24}",
        1u32..u32::MAX,
        prop::collection::vec(any::<u16>(), 0..4),
        prop::option::of(prop_oneof![Just("198.51.100.7:5099".to_string()), Just("nat.example.com".to_string()), Just("[2001:db8::1]:5060".to_string())]),
        prop::collection::vec(
            (
                (any::<u16>(), 0u64..40_000, any::<bool>(), any::<u16>(), prop::option::of(0u8..3), prop_oneof![2 => Just(0u8), 1 => 0u8..16, 1 => prop::sample::select(vec![1u8, 2, 4, 8])]),
                prop_oneof![2 => Just(false), 1 => Just(true)],
                prop_oneof![5 => Just(false), 1 => Just(true)],
            ),
            1..6,
        ),
        any::<u8>(),
    )
        .prop_map(|(reliable, (us, fs, ts), call_id, cseq, rs, via_host_port, raw, rng)| {
            let mut t = 0;
            let mut responses: Vec<Resp> = vec![];
            // has a 3xx-6xx arrived while no 2xx had been seen (= the transaction is in Completed)
            let mut completed = false;
            let mut accepted = false;
            for (i, ((osel, rnd, use_rnd, csel, to_tag, mangle), fault, other_source)) in raw.into_iter().enumerate() {
                let off = if use_rnd { rnd } else { OFFSETS[pick_idx(osel, OFFSETS.len())] };
                t += if i == 0 { off.min(31_000).max(1) } else { off };
                // keep clear of the INVITE retransmission instants and of the 32 s / 64*T1 edges (ties are don't-care)
                while [500u64, 1500, 3500, 7500, 15500, 31500].contains(&t) {
                    t += 1;
                }
                let code = CODES[pick_idx(csel, CODES.len())];
                responses.push(Resp {
                    t_ms: t,
                    code,
                    to_tag,
                    mangle,
                    send_fault: fault && completed && !reliable,
                    other_source,
                });
                if (200..300).contains(&code) && !completed {
                    accepted = true;
                }
                if code >= 300 && !accepted {
                    completed = true;
                }
            }
            Case {
                reliable,
                request_uri: REQ_URIS[pick_idx(us, REQ_URIS.len())].to_string(),
                from: FROMS[pick_idx(fs, FROMS.len())].to_string(),
                to: TOS[pick_idx(ts, TOS.len())].to_string(),
                call_id,
                cseq,
                routes: rs.into_iter().map(|r| ROUTES[pick_idx(r, ROUTES.len())].to_string()).collect(),
                via_host_port,
                responses,
                rng,
            }
        })
        .boxed()
}

fn build_request(case: &Case) -> Option<Request> {
    let uri: SipUri = case.request_uri.parse().ok()?;
    let mut request = Request::new(Method::INVITE, uri);
    request.headers.insert(Name::FROM, case.from.as_str());
    request.headers.insert(Name::TO, case.to.as_str());
    request.headers.insert(Name::CALL_ID, case.call_id.as_str());
    request.headers.insert(Name::CSEQ, format!("{} INVITE", case.cseq));
    request.headers.insert(Name::MAX_FORWARDS, "70");
    for r in &case.routes {
        request.headers.insert(Name::ROUTE, r.as_str());
    }
    request.headers.insert(Name::CONTACT, "<sip:alice@10.0.0.1>");
    Some(request)
}

fn parse_host_port(s: &str) -> Option<HostPort> {
    // through a URI: the public way to obtain a HostPort from text
    let uri: SipUri = format!("sip:{s}").parse().ok()?;
    Some(uri.host_port)
}

pub fn check(case: &Case, out: &mut CaseOut) {
    let Some(request) = build_request(case) else {
        out.fail("c07.harness/request", "generator produced an unparsable request uri");
        return;
    };
    let horizon = case.responses.last().map(|r| r.t_ms).unwrap_or(0) + 2 * TIMEOUT + 40_000;
    let responses: Vec<(u64, Box<dyn Fn(&WireMsg) -> Vec<u8> + Send>)> = case
        .responses
        .iter()
        .enumerate()
        .map(|(i, r)| {
            let code = r.code;
            let tag = r.to_tag.map(|t| format!("tag{t}"));
            let mangle = r.mangle;
            let f: Box<dyn Fn(&WireMsg) -> Vec<u8> + Send> = Box::new(move |req: &WireMsg| {
                mangled_response(req, code, tag.as_deref(), &format!("X-Seq: m{i}"), mangle)
            });
            (r.t_ms, f)
        })
        .collect();
    let delivery: Vec<Delivery> = case
        .responses
        .iter()
        .map(|r| Delivery {
            source: if r.other_source { Some(OTHER_SOURCE.parse().unwrap()) } else { None },
            fail_send: r.send_fault,
        })
        .collect();
    let obs = run_client_ex(
        true,
        case.reliable,
        request,
        responses,
        delivery,
        vec![],
        horizon,
        case.rng as u64,
        case.via_host_port.as_deref().and_then(parse_host_port),
    );
    let Some(invite) = obs.first_request.clone() else {
        out.fail("c07.harness/no-invite", "INVITE not on the wire");
        return;
    };
    let invite_sent = obs.sends.first().cloned();

    // ---- reference state machine over the response history ----
    // (what the peer put into To of response i)
    let to_of = |r: &Resp| -> String {
        let to = invite.header("to").unwrap_or("").to_string();
        match r.to_tag {
            Some(t) if param_of(&to, "tag").is_none() => format!("{to};tag=tag{t}"),
            _ => to,
        }
    };
    #[derive(Debug)]
    struct WantAck {
        t: u64,
        to: Option<String>,
        optional: bool,
        /// the transport fails the send of this ACK: it must be attempted, it cannot appear on the wire
        faulted: bool,
    }
    let mut want_acks: Vec<WantAck> = vec![];
    let mut want_results: Vec<(u64, Res, bool)> = vec![]; // (time, result, optional)
    let mut completed_at: Option<u64> = None;
    let mut accepted_at: Option<u64> = None;
    for (i, r) in case.responses.iter().enumerate() {
        let marker = format!("m{i}");
        if let Some(f) = completed_at {
            // Completed: each further final response within 32 s is answered with an ACK (unreliable only)
            if case.reliable || r.t_ms > f + 32_000 {
                continue;
            }
            if r.t_ms == f + 32_000 {
                continue; // tie: don't care
            }
            let same_to = to_of(r) == to_of(&case.responses[completed_idx(&case.responses)]);
            want_acks.push(WantAck {
                t: r.t_ms,
                to: if same_to { Some(to_of(r)) } else { None },
                optional: r.code < 300,
                faulted: r.send_fault,
            });
        } else if let Some(a) = accepted_at {
            if r.t_ms >= a + TIMEOUT {
                continue;
            }
            want_results.push((r.t_ms, Res::Resp(r.code, marker), !(200..300).contains(&r.code)));
        } else if r.code < 200 {
            want_results.push((r.t_ms, Res::Resp(r.code, marker), false));
        } else if r.code < 300 {
            accepted_at = Some(r.t_ms);
            want_results.push((r.t_ms, Res::Resp(r.code, marker), false));
        } else {
            completed_at = Some(r.t_ms);
            want_results.push((r.t_ms, Res::Resp(r.code, marker), false));
            want_results.push((r.t_ms, Res::Finished, false));
            want_acks.push(WantAck {
                t: r.t_ms,
                to: Some(to_of(r)),
                optional: false,
                faulted: r.send_fault,
            });
        }
    }
    if let Some(a) = accepted_at {
        want_results.push((a + TIMEOUT, Res::Finished, false));
    }

    // ---- observed ACKs ----
    let acks: Vec<(&Sent, &WireMsg)> = obs
        .others
        .iter()
        .filter_map(|(s, m)| m.as_ref().map(|m| (s, m)))
        .filter(|(_, m)| m.method() == Some("ACK"))
        .collect();
    let non_ack_others = obs.others.len() - acks.len();
    if non_ack_others > 0 {
        out.fail("c07.wire/unexpected-message", format!("{non_ack_others} messages that are neither INVITE nor ACK"));
    }
    out.note = Some(format!(
        "acks@{:?} results={:?}",
        acks.iter().map(|(s, _)| s.t_ms).collect::<Vec<_>>(),
        obs.results
    ));

    if accepted_at.is_some() && completed_at.is_none() && !acks.is_empty() {
        out.fail("c07.ack/sent-for-2xx", format!("transaction sent {} ACK(s) although only 2xx finals arrived", acks.len()));
    }
    if accepted_at.is_none() && completed_at.is_none() && !acks.is_empty() {
        out.fail("c07.ack/sent-without-final", "ACK sent although no final response arrived");
    }

    // match ACK instants: one transmission (attempt) per received response, at the instant it arrived. An ACK
    // whose send the fault plan fails shows up in `failed_sends` instead of on the wire.
    let failed = &obs.failed_sends;
    let mut ai = 0;
    let mut fi = 0;
    let mut timing_bad = None;
    let mut fault_before = false; // an earlier ACK of this transaction was lost in the transport
    let mut missing_after_fault = false;
    for w in &want_acks {
        if w.faulted {
            match failed.get(fi) {
                Some(f) if f.0 == w.t => {
                    fi += 1;
                    fault_before = true;
                }
                _ if w.optional => {}
                other => {
                    timing_bad = Some(format!(
                        "expected an ACK transmission attempt (failed by the transport) at {} ms, next failed send at {:?}",
                        w.t,
                        other.map(|f| f.0)
                    ));
                    missing_after_fault = fault_before;
                    break;
                }
            }
            continue;
        }
        match acks.get(ai) {
            Some((s, _)) if s.t_ms == w.t => ai += 1,
            _ if w.optional => {}
            other => {
                timing_bad = Some(format!(
                    "expected an ACK at {} ms, next observed ACK at {:?}",
                    w.t,
                    other.map(|(s, _)| s.t_ms)
                ));
                missing_after_fault = fault_before;
                break;
            }
        }
    }
    if timing_bad.is_none() && ai < acks.len() && (completed_at.is_some()) {
        timing_bad = Some(format!("extra ACK at {} ms", acks[ai].0.t_ms));
    }
    if timing_bad.is_none() && fi < failed.len() {
        timing_bad = Some(format!("extra (failed) transmission attempt at {} ms", failed[fi].0));
    }
    if let Some(b) = timing_bad {
        let locus = if want_acks.iter().filter(|w| !w.optional).count() <= 1 && acks.is_empty() && failed.is_empty() {
            "first-missing"
        } else if case.reliable {
            "reliable"
        } else if missing_after_fault {
            // the transaction stopped answering retransmitted finals after a transient transport error
            "once-per-response-after-send-fault"
        } else {
            "once-per-response"
        };
        out.fail(
            format!("c07.ack/{locus}"),
            format!(
                "{b}; all ACKs at {:?}, failed sends at {:?}",
                acks.iter().map(|(s, _)| s.t_ms).collect::<Vec<_>>(),
                failed.iter().map(|f| f.0).collect::<Vec<_>>()
            ),
        );
    }
    // a lost ACK was addressed like the INVITE
    if let Some(inv) = &invite_sent {
        for f in failed {
            if f.2 != inv.dest {
                out.fail("c07.ack/destination", format!("(failed) ACK transmission addressed to {}, INVITE went to {}", f.2, inv.dest));
            }
        }
    }

    // ACK contents
    for (s, ack) in &acks {
        if let Some(inv) = &invite_sent {
            if s.dest != inv.dest || s.tp != inv.tp {
                out.fail("c07.ack/destination", format!("ACK sent to {} tp{}, INVITE went to {} tp{}", s.dest, s.tp, inv.dest, inv.tp));
            }
        }
        if ack.request_uri() != invite.request_uri() {
            out.fail("c07.ack/request-uri", format!("ACK uri {:?} != INVITE uri {:?}", ack.request_uri(), invite.request_uri()));
        }
        let vias = ack.list_values("via");
        if vias.len() != 1 || Some(&vias[0]) != invite.list_values("via").first() {
            out.fail("c07.ack/via", format!("ACK Via {:?} != INVITE top Via {:?}", vias, invite.list_values("via").first()));
        }
        if ack.header("from") != invite.header("from") {
            out.fail("c07.ack/from", format!("ACK From {:?} != INVITE From {:?}", ack.header("from"), invite.header("from")));
        }
        if ack.call_id() != invite.call_id() {
            out.fail("c07.ack/call-id", "ACK Call-ID differs");
        }
        match (ack.cseq(), invite.cseq()) {
            (Some((n, m)), Some((n2, _))) if n == n2 && m == "ACK" => {}
            (a, b) => out.fail("c07.ack/cseq", format!("ACK CSeq {a:?}, INVITE CSeq {b:?}")),
        }
        if ack.list_values("route") != invite.list_values("route") {
            out.fail(
                "c07.ack/route",
                format!("ACK Route {:?} != INVITE Route {:?}", ack.list_values("route"), invite.list_values("route")),
            );
        }
        if ack.content_length_headers().len() != 1 || ack.header("content-length").map(str::trim) != Some("0") || ack.raw_body_len != 0 {
            out.fail("c07.ack/content-length", "ACK must carry exactly one Content-Length: 0 and no body");
        }
        // ezk's own parser must accept it as an ACK request
        match parse_complete(Default::default(), &s.bytes) {
            Ok(CompleteItem::Sip { line, .. }) if line.request_method() == Some(&Method::ACK) => {}
            _ => out.fail("c07.ack/unparsable", "ezk cannot parse its own ACK"),
        }
    }
    // To of each ACK = To of the response it answers
    let mut ai = 0;
    for w in want_acks.iter().filter(|w| !w.faulted) {
        if let Some((s, ack)) = acks.get(ai) {
            if s.t_ms == w.t {
                if let Some(to) = &w.to {
                    if ack.header("to") != Some(to.as_str()) {
                        out.fail(
                            "c07.ack/to",
                            format!("ACK To {:?}, response To {:?}", ack.header("to"), to),
                        );
                    }
                }
                ai += 1;
            }
        }
    }

    // ---- results of receive() ----
    let mut wi = 0;
    let mut bad = None;
    for (t, res) in &obs.results {
        loop {
            match want_results.get(wi) {
                None => {
                    bad = Some(format!("unexpected result {res:?} at {t}"));
                    break;
                }
                Some((wt, wres, optional)) => {
                    let time_ok = if matches!(wres, Res::Finished) && accepted_at.is_some() {
                        t.abs_diff(*wt) <= 2
                    } else {
                        t == wt
                    };
                    if wres == res && time_ok {
                        wi += 1;
                        break;
                    } else if *optional {
                        wi += 1;
                    } else {
                        bad = Some(format!("expected {wres:?} at {wt}, observed {res:?} at {t}"));
                        break;
                    }
                }
            }
        }
        if bad.is_some() {
            break;
        }
    }
    if bad.is_none() {
        if let Some((wt, wres, _)) = want_results[wi.min(want_results.len())..].iter().find(|w| !w.2) {
            // an INVITE that saw no final response keeps waiting: only finals/provisionals listed are due
            bad = Some(format!("missing result {wres:?} expected at {wt}"));
        }
    }
    if let Some(b) = bad {
        // a transaction that never got any response times out at 64*T1 — covered by C05; here first response < 31 s always
        let locus = if completed_at.is_some() { "failure-once-then-end" } else if accepted_at.is_some() { "2xx-to-caller" } else { "provisional" };
        out.fail(format!("c07.results/{locus}"), format!("{b}; all: {:?}", obs.results));
    }

    // ---- classes ----
    out.class(if case.reliable { "reliable" } else { "unreliable" });
    if !case.routes.is_empty() {
        out.class("with-route");
    }
    if case.via_host_port.is_some() {
        out.class("via-host-port-override");
    }
    let tags: std::collections::BTreeSet<_> = case.responses.iter().filter(|r| r.code >= 200).map(|r| r.to_tag).collect();
    if tags.len() > 1 {
        out.class("forked-finals");
    }
    let retransmitted_final = want_acks.len() > 1 || (accepted_at.is_some() && case.responses.iter().filter(|r| (200..300).contains(&r.code)).count() > 1);
    if retransmitted_final {
        out.class("retransmitted-final");
    }
    if completed_at.is_some() {
        out.class("non-2xx-final");
    }
    if case.responses.iter().any(|r| r.code >= 300 && r.mangle != 0) {
        out.class("non-2xx final whose echoed headers differ from the INVITE's");
    }
    if accepted_at.is_some() {
        out.class("2xx-final");
    }
    if case.responses.iter().any(|r| r.other_source) {
        out.class("response from another source address than the INVITE's destination");
    }
    if case.responses.iter().any(|r| r.other_source && r.code >= 300) && !acks.is_empty() {
        out.class("ACK for a non-2xx final that came from another source address");
    }
    if !obs.failed_sends.is_empty() {
        out.class("an ACK retransmission fails in the transport");
        let first_fault = want_acks.iter().position(|w| w.faulted);
        if first_fault.map_or(false, |p| want_acks[p + 1..].iter().any(|w| !w.optional && !w.faulted)) {
            out.class("retransmitted final after a failed ACK retransmission");
        }
    }
    if !case.routes.is_empty() || tags.len() > 1 || retransmitted_final {
        out.nontrivial(case);
    }
}

fn completed_idx(responses: &[Resp]) -> usize {
    let mut accepted = false;
    for (i, r) in responses.iter().enumerate() {
        if (200..300).contains(&r.code) {
            accepted = true;
        }
        if r.code >= 300 && !accepted {
            return i;
        }
    }
    0
}

pub fn property() -> Property {
    Property {
        fuzz: vec![],
        id: "C07",
        rule: "cases = INVITE (Request-URI shapes incl. IPv6/params, From/To with display names, 0..3 Route values, optional Via sent-by override, random Call-ID/CSeq) x reliable/unreliable x 1..5 scripted responses (any class, To-tag none/3 tags, offsets around 32 s and 64*T1, echoed CSeq number / Call-ID / From / top-Via parameters optionally changed by the peer, packet source = INVITE destination or another address, transient send failure of the ACK for a retransmitted final) under a paused clock. Non-trivial = INVITE carries a Route, or finals with different To-tags, or a retransmitted final; distinct by hash of the case.",
        assumptions: vec![
            "timers on tokio's paused clock (hook H2); wire read back with the independent WireMsg parser and with ezk's parse_complete",
            "the ACK for a later non-2xx with a different To-tag must be sent but its To is not asserted; ACKs triggered by 1xx/2xx arriving in Completed are optional",
            "responses never arrive exactly on the 32 s / 64*T1 edge",
            "send faults hit only ACK retransmissions of the Completed state (unreliable transport): the failed call counts as the one ACK for that response, every other response within 32 s still needs its own ACK on the wire",
            "the ACK goes to the INVITE's destination also when the response came from another source address",
        ],
        explanation: "sampled histories; header shapes from fixed pools",
        subs: vec![prop_sub("ack", strategy, 3000, 60000, check)],
    }
}
