//! C07 — INVITE client: non-2xx finals are ACKed by the transaction, 2xx left to the user
//!
//! Generated: an INVITE (header shapes from pools, optional Via sent-by override) on a reliable | unreliable mock
//! datagram transport, 1..5 scripted responses (status, To-tag, arrival offsets around 32 s / 64*T1, echoed headers
//! optionally changed by the peer, packet source = the INVITE's destination | another address, received on the
//! transport handle the INVITE was sent with | on a second transport of the same kind, optionally followed in the
//! same burst by N retransmissions of itself that reach the endpoint before any task of the stack runs), a
//! transport fault plan (the `send` of the ACK answering a retransmitted final may fail with a transient
//! io::Error) and the pace of the application: the transaction object is poll-driven, so the case says when
//! `receive()` is called for the first time (at once ... only after 64*T1) and how long the caller is busy after
//! each response before it calls `receive()` again.
//! Oracle: a reference state machine over the response history and the caller's pace says which response must be
//! answered by an ACK transmission and when (the first 3xx-6xx: when the caller's `receive()` takes it = arrival or
//! the caller's next `receive()`, whichever is later; retransmissions: at their arrival, or together with the
//! first ACK when they piled up before it; on the wire, or - when the fault plan fails that send - as a failed
//! send call; a failed ACK does not excuse the ACKs for later retransmissions), what each ACK contains
//! (Request-URI, Via, From, Call-ID, CSeq, Route of the INVITE; To of the response; destination AND transport of
//! the INVITE whatever the response's source / receiving transport) and what `receive()` yields: every response
//! that arrived while the transaction had to accept it comes out, in arrival order, at max(arrival, caller asks);
//! a response that arrived in time is never replaced by a timeout because the caller asked late.
//! Not asserted: To of an ACK for a later final with another To-tag, ACKs for 1xx/2xx arriving in Completed
//! (optional), retransmitted finals / further 2xx arriving after "32 s / 64*T1 since the first one ARRIVED" but
//! before "32 s / 64*T1 since the caller TOOK it" (optional), send faults on the INVITE or on the first ACK (not
//! generated: they end the transaction with an io error, the statement is silent), INVITE retransmission instants
//! (C05).

use super::c05::{brief, run_client_paced, Delivery, Pace, Res, OTHER_SOURCE};
use crate::engine::*;
use crate::refmodel::ref_tsx::TIMEOUT;
use crate::world::wire::param_of;
use crate::world::*;
use proptest::prelude::*;
use serde::{Deserialize, Serialize};
use sip_core::transport::{parse_complete, CompleteItem};
use sip_core::Request;
use sip_types::host::HostPort;
use sip_types::uri::sip::SipUri;
use sip_types::{Method, Name};

#[derive(Serialize, Deserialize, Clone, Debug, Hash)]
pub struct Resp {
    pub t_ms: u64,
    pub code: u16,
    /// None = no To-tag; Some(i) = tag "tag<i>"
    pub to_tag: Option<u8>,
    /// what the peer (or a proxy on the path) changed in the headers it echoes; transaction matching looks at
    /// the top Via branch and the CSeq method only, so such a response still belongs to the INVITE:
    /// bit 0 = CSeq number differs, bit 1 = Call-ID differs, bit 2 = From differs (display name, tag),
    /// bit 3 = top Via carries added received=/rport= parameters (what every RFC 3581 server does)
    #[serde(default)]
    pub mangle: u8,
    /// the transport fails the `send` call made while this response is handled with a transient io::Error
    /// (ECONNREFUSED after an ICMP port-unreachable, ENOBUFS ...): the ACK for THIS response is lost in the
    /// transport. Only generated for responses that arrive after the first 3xx-6xx on an unreliable transport
    /// (the ACK re-sent by the Completed state); a fault on the INVITE itself or on the first ACK ends the
    /// transaction with an error and is outside the statement.
    #[serde(default)]
    pub send_fault: bool,
    /// the datagram comes from another address/port than the INVITE was sent to
    #[serde(default)]
    pub other_source: bool,
    /// the endpoint receives the response with another transport handle than the one the INVITE was sent with
    /// (second socket, another connection of the same peer); it still belongs to the transaction
    #[serde(default)]
    pub other_transport: bool,
    /// the response is followed by this many retransmissions of itself in one burst: all of them reach the
    /// endpoint in the same instant, before any task of the stack runs (one read of a stream transport holding
    /// many messages, a socket drained in a loop)
    #[serde(default)]
    pub copies: u16,
}

/// one response as it reaches the endpoint (`Resp` with its retransmission burst written out); the marker of
/// the i-th entry is `m<i>`
#[derive(Clone, Debug)]
struct Flat {
    t_ms: u64,
    code: u16,
    to_tag: Option<u8>,
    mangle: u8,
    send_fault: bool,
    other_source: bool,
    other_transport: bool,
    glued: bool,
}

fn flatten(responses: &[Resp]) -> Vec<Flat> {
    let mut out = vec![];
    for r in responses {
        for k in 0..=r.copies {
            out.push(Flat {
                t_ms: r.t_ms,
                code: r.code,
                to_tag: r.to_tag,
                mangle: r.mangle,
                send_fault: r.send_fault && r.copies == 0,
                other_source: r.other_source,
                other_transport: r.other_transport,
                glued: k > 0,
            });
        }
    }
    out
}

/// the response as the peer sends it: `response_text` plus the case's header changes
fn mangled_response(req: &WireMsg, code: u16, tag: Option<&str>, marker: &str, mangle: u8) -> Vec<u8> {
    let plain = response_text(req, code, tag, &[marker.to_string()]);
    if mangle == 0 {
        return plain;
    }
    let text = String::from_utf8(plain).expect("ascii");
    let mut out = String::new();
    let mut first_via = true;
    for line in text.split_inclusive("\r\n") {
        let lower = line.to_ascii_lowercase();
        if lower.starts_with("cseq:") && mangle & 1 != 0 {
            let (n, m) = req.cseq().unwrap_or((1, "INVITE".into()));
            out.push_str(&format!("CSeq: {} {m}\r\n", if n > 1000 { n - 977 } else { n + 4242 }));
        } else if lower.starts_with("call-id:") && mangle & 2 != 0 {
            out.push_str("Call-ID: someone-elses-call@198.51.100.99\r\n");
        } else if lower.starts_with("from:") && mangle & 4 != 0 {
            out.push_str("From: \"Mallory\" <sip:mallory@evil.example>;tag=zzz\r\n");
        } else if lower.starts_with("via:") && first_via && mangle & 8 != 0 {
            first_via = false;
            out.push_str(line.trim_end());
            out.push_str(";received=203.0.113.77;rport=40123\r\n");
        } else {
            if lower.starts_with("via:") {
                first_via = false;
            }
            out.push_str(line);
        }
    }
    out.into_bytes()
}

#[derive(Serialize, Deserialize, Clone, Debug, Hash)]
pub struct Case {
    pub reliable: bool,
    pub request_uri: String,
    pub from: String,
    pub to: String,
    pub call_id: String,
    pub cseq: u32,
    pub routes: Vec<String>,
    pub via_host_port: Option<String>,
    pub responses: Vec<Resp>,
    pub rng: u8,
    /// the application calls `receive()` for the first time at this instant (ms after the INVITE was sent)
    #[serde(default)]
    pub first_poll: u64,
    /// how long the application is busy after the i-th response before it calls `receive()` again
    #[serde(default)]
    pub thinks: Vec<u64>,
}

const REQ_URIS: &[&str] = &[
    "sip:bob@192.0.2.1:5060",
    "sip:bob@biloxi.example.com;transport=udp",
    "sips:bob@[2001:db8::9]:5071;user=phone",
    "sip:192.0.2.77",
    "sip:+15551234;phone-context=example.com@gw.example.net;user=phone",
];
const FROMS: &[&str] = &[
    "<sip:alice@atlanta.example.com>;tag=9fxced76sl",
    "\"Alice A.\" <sip:alice@atlanta.example.com>;tag=a",
    "sip:alice@atlanta.example.com;tag=88sja8x",
    "\"J. Rosenberg, jr (x)\" <sip:jdrosen@example.com>;tag=98asjd8",
];
const TOS: &[&str] = &[
    "<sip:bob@biloxi.example.com>",
    "\"Bob\" <sip:bob@biloxi.example.com;user=phone>",
    "sip:bob@biloxi.example.com",
];
const ROUTES: &[&str] = &[
    "<sip:p1.example.com;lr>",
    "<sip:p2.example.net:5070;lr;transport=tcp>",
    "<sip:alice@p3.example.org;lr>;x=1",
    "<sips:p4.example.org>",
];
const CODES: &[u16] = &[100, 180, 200, 299, 300, 302, 404, 486, 500, 600, 603, 699];
/// first `receive()` of a paced caller: at once, while responses arrive, only after 64*T1 (never exactly on it)
const FIRST_POLLS: &[u64] = &[0, 0, 0, 1, 700, 5_000, 20_000, 31_500, TIMEOUT + 1, 33_000, 40_000, 70_000];
const THINKS: &[u64] = &[0, 0, 0, 10, 600, 5_000, 33_000];
const COPIES: &[u16] = &[1, 2, 3, 8, 16, 31, 32, 33, 40, 64, 65, 100];
const OFFSETS: &[u64] = &[0, 1, 499, 500, 5000, 20_000, 31_999, 32_001, TIMEOUT - 1, TIMEOUT + 1, 50_000];

pub fn strategy() -> BoxedStrategy<Case> {
    (
        prop_oneof![3 => Just(false), 1 => Just(true)],
        (any::<u16>(), any::<u16>(), any::<u16>()),
        "[a-zA-Z0-9.@-]{1,24}",
        1u32..u32::MAX,
        prop::collection::vec(any::<u16>(), 0..4),
        prop::option::of(prop_oneof![Just("198.51.100.7:5099".to_string()), Just("nat.example.com".to_string()), Just("[2001:db8::1]:5060".to_string())]),
        prop::collection::vec(
            (
                (any::<u16>(), 0u64..40_000, any::<bool>(), any::<u16>(), prop::option::of(0u8..3), prop_oneof![2 => Just(0u8), 1 => 0u8..16, 1 => prop::sample::select(vec![1u8, 2, 4, 8])]),
                prop_oneof![2 => Just(false), 1 => Just(true)],
                prop_oneof![5 => Just(false), 1 => Just(true)],
                prop_oneof![4 => Just(false), 1 => Just(true)],
            ),
            1..6,
        ),
        any::<u8>(),
        (
            // pace of the application: always inside receive() | first receive(), busy time after each response
            prop_oneof![2 => Just(false), 3 => Just(true)],
            any::<u16>(),
            prop::collection::vec(any::<u16>(), 0..4),
            // one response of the history is followed by a burst of retransmissions of itself
            prop_oneof![5 => Just(None), 1 => (any::<u16>(), any::<u16>()).prop_map(Some)],
        ),
    )
        .prop_map(|(reliable, (us, fs, ts), call_id, cseq, rs, via_host_port, raw, rng, (use_pace, psel, thsel, burst))| {
            let first_poll = if use_pace { FIRST_POLLS[pick_idx(psel, FIRST_POLLS.len())] } else { 0 };
            let thinks: Vec<u64> = if use_pace { thsel.into_iter().map(|s| THINKS[pick_idx(s, THINKS.len())]).collect() } else { vec![] };
            let burst_at = burst.map(|(which, len)| (pick_idx(which, raw.len()), COPIES[pick_idx(len, COPIES.len())]));
            let mut t = 0;
            let mut responses: Vec<Resp> = vec![];
            // has a 3xx-6xx arrived while no 2xx had been seen (= the transaction is in Completed)
            let mut completed = false;
            let mut accepted = false;
            for (i, ((osel, rnd, use_rnd, csel, to_tag, mangle), fault, other_source, other_transport)) in raw.into_iter().enumerate() {
                let copies = match burst_at {
                    Some((at, n)) if at == i => n,
                    _ => 0,
                };
                let off = if use_rnd { rnd } else { OFFSETS[pick_idx(osel, OFFSETS.len())] };
                t += if i == 0 { off.min(31_000).max(1) } else { off };
                // keep clear of the INVITE retransmission instants and of the 32 s / 64*T1 edges (ties are don't-care)
                while [500u64, 1500, 3500, 7500, 15500, 31500].contains(&t) {
                    t += 1;
                }
                let code = CODES[pick_idx(csel, CODES.len())];
                responses.push(Resp {
                    t_ms: t,
                    code,
                    to_tag,
                    mangle,
                    send_fault: fault && completed && !reliable && copies == 0,
                    other_source,
                    other_transport,
                    copies,
                });
                if (200..300).contains(&code) && !completed {
                    accepted = true;
                }
                if code >= 300 && !accepted {
                    completed = true;
                }
            }
            // the fault plan ("the send call made while this response is handled fails") is only meaningful for a
            // response that arrives after the caller took the first 3xx-6xx (then the Completed state answers it
            // on its own, at once)
            let taken = first_failure_taken(&flatten(&responses), first_poll, &thinks);
            for r in responses.iter_mut() {
                r.send_fault = r.send_fault && taken.map_or(false, |(_, p)| r.t_ms > p);
            }
            Case {
                reliable,
                request_uri: REQ_URIS[pick_idx(us, REQ_URIS.len())].to_string(),
                from: FROMS[pick_idx(fs, FROMS.len())].to_string(),
                to: TOS[pick_idx(ts, TOS.len())].to_string(),
                call_id,
                cseq,
                routes: rs.into_iter().map(|r| ROUTES[pick_idx(r, ROUTES.len())].to_string()).collect(),
                via_host_port,
                responses,
                rng,
                first_poll,
                thinks,
            }
        })
        .boxed()
}

/// Caller model for the part of the history in which every response must be handed out (1xx, then the first
/// final): the caller asks at `first_poll`, takes a response at max(arrival, asks), is busy for `thinks[k]` after
/// the k-th response. Returns (flat index, instant) at which the first 3xx-6xx is taken, None when a 2xx comes
/// first or no final arrives.
fn first_failure_taken(flat: &[Flat], first_poll: u64, thinks: &[u64]) -> Option<(usize, u64)> {
    let mut ready = first_poll;
    for (i, r) in flat.iter().enumerate() {
        let p = r.t_ms.max(ready);
        if (200..300).contains(&r.code) {
            return None;
        }
        if r.code >= 300 {
            return Some((i, p));
        }
        ready = p + thinks.get(i).copied().unwrap_or(0);
    }
    None
}

fn build_request(case: &Case) -> Option<Request> {
    let uri: SipUri = case.request_uri.parse().ok()?;
    let mut request = Request::new(Method::INVITE, uri);
    request.headers.insert(Name::FROM, case.from.as_str());
    request.headers.insert(Name::TO, case.to.as_str());
    request.headers.insert(Name::CALL_ID, case.call_id.as_str());
    request.headers.insert(Name::CSEQ, format!("{} INVITE", case.cseq));
    request.headers.insert(Name::MAX_FORWARDS, "70");
    for r in &case.routes {
        request.headers.insert(Name::ROUTE, r.as_str());
    }
    request.headers.insert(Name::CONTACT, "<sip:alice@10.0.0.1>");
    Some(request)
}

fn parse_host_port(s: &str) -> Option<HostPort> {
    // through a URI: the public way to obtain a HostPort from text
    let uri: SipUri = format!("sip:{s}").parse().ok()?;
    Some(uri.host_port)
}

pub fn check(case: &Case, out: &mut CaseOut) {
    let Some(request) = build_request(case) else {
        out.fail("c07.harness/request", "generator produced an unparsable request uri");
        return;
    };
    // the response history as it reaches the endpoint (bursts written out); markers m<i> follow this list
    let flat = flatten(&case.responses);
    let paced = case.first_poll > 0 || case.thinks.iter().any(|t| *t > 0);
    let horizon = flat.last().map(|r| r.t_ms).unwrap_or(0).max(case.first_poll)
        + case.thinks.iter().sum::<u64>()
        + 2 * TIMEOUT
        + 40_000;
    let responses: Vec<(u64, Box<dyn Fn(&WireMsg) -> Vec<u8> + Send>)> = flat
        .iter()
        .enumerate()
        .map(|(i, r)| {
            let code = r.code;
            let tag = r.to_tag.map(|t| format!("tag{t}"));
            let mangle = r.mangle;
            let f: Box<dyn Fn(&WireMsg) -> Vec<u8> + Send> = Box::new(move |req: &WireMsg| {
                mangled_response(req, code, tag.as_deref(), &format!("X-Seq: m{i}"), mangle)
            });
            (r.t_ms, f)
        })
        .collect();
    let delivery: Vec<Delivery> = flat
        .iter()
        .map(|r| Delivery {
            source: if r.other_source { Some(OTHER_SOURCE.parse().unwrap()) } else { None },
            fail_send: r.send_fault,
            other_transport: r.other_transport,
            glued: r.glued,
        })
        .collect();
    let obs = run_client_paced(
        true,
        case.reliable,
        request,
        responses,
        delivery,
        Pace { first_poll: case.first_poll, thinks: case.thinks.clone() },
        vec![],
        horizon,
        case.rng as u64,
        case.via_host_port.as_deref().and_then(parse_host_port),
    );
    let Some(invite) = obs.first_request.clone() else {
        out.fail("c07.harness/no-invite", "INVITE not on the wire");
        return;
    };
    let invite_sent = obs.sends.first().cloned();

    // ---- reference state machine over the response history and the caller's pace ----
    // (what the peer put into To of response i)
    let to_of = |r: &Flat| -> String {
        let to = invite.header("to").unwrap_or("").to_string();
        match r.to_tag {
            Some(t) if param_of(&to, "tag").is_none() => format!("{to};tag=tag{t}"),
            _ => to,
        }
    };
    #[derive(Debug)]
    struct WantAck {
        t: u64,
        to: Option<String>,
        optional: bool,
        /// the transport fails the send of this ACK: it must be attempted, it cannot appear on the wire
        faulted: bool,
    }
    /// must `receive()` hand this response to the caller
    #[derive(Clone, Copy, PartialEq, Debug)]
    enum Need {
        Must,
        May,
        Never,
    }
    let mut want_acks: Vec<WantAck> = vec![];
    let mut need = vec![Need::Never; flat.len()];
    // the first 3xx-6xx while no 2xx was seen: (flat index, arrival, instant the caller takes it)
    let completed = first_failure_taken(&flat, case.first_poll, &case.thinks);
    let completed_at: Option<u64> = completed.map(|c| flat[c.0].t_ms);
    // the first 2xx while no 3xx-6xx was seen: arrival instant
    let mut accepted_at: Option<u64> = None;
    for (i, r) in flat.iter().enumerate() {
        if let Some((ci, taken)) = completed {
            if i < ci {
                need[i] = Need::Must; // 1xx before the final
                continue;
            }
            if i == ci {
                need[i] = Need::Must;
                want_acks.push(WantAck { t: taken, to: Some(to_of(r)), optional: false, faulted: r.send_fault });
                continue;
            }
            // Completed: each further final response within 32 s is answered with an ACK (unreliable only).
            // The window of the statement counts from the arrival of the first one; the transaction enters
            // Completed when the caller takes it, which may be later: what arrives in between the two ends of
            // the window is not asserted. Responses that piled up before the caller took the first one are
            // answered right behind it.
            let f = flat[ci].t_ms;
            if case.reliable || r.t_ms > taken + 32_000 + 1 {
                continue;
            }
            let in_window = r.t_ms < f + 32_000;
            let same_to = to_of(r) == to_of(&flat[ci]);
            want_acks.push(WantAck {
                t: r.t_ms.max(taken),
                to: if same_to { Some(to_of(r)) } else { None },
                optional: r.code < 300 || !in_window,
                faulted: r.send_fault,
            });
        } else if let Some(a) = accepted_at {
            // Accepted: every 2xx that arrives within 64*T1 of the first one goes to the caller
            need[i] = if r.t_ms < a + TIMEOUT {
                if (200..300).contains(&r.code) { Need::Must } else { Need::May }
            } else if paced {
                Need::May // a late caller may still find it queued: not asserted
            } else {
                Need::Never
            };
        } else {
            need[i] = Need::Must;
            if (200..300).contains(&r.code) {
                accepted_at = Some(r.t_ms);
            }
        }
    }

    // ---- observed ACKs ----
    let acks: Vec<(&Sent, &WireMsg)> = obs
        .others
        .iter()
        .filter_map(|(s, m)| m.as_ref().map(|m| (s, m)))
        .filter(|(_, m)| m.method() == Some("ACK"))
        .collect();
    let non_ack_others = obs.others.len() - acks.len();
    if non_ack_others > 0 {
        out.fail("c07.wire/unexpected-message", format!("{non_ack_others} messages that are neither INVITE nor ACK"));
    }
    let ack_times: Vec<u64> = acks.iter().map(|(s, _)| s.t_ms).collect();
    let ack_times_brief = if ack_times.len() <= 12 {
        format!("{ack_times:?}")
    } else {
        format!("{:?} ..{} more", &ack_times[..8], ack_times.len() - 8)
    };
    out.note = Some(format!("acks@{ack_times_brief} results={}", brief(&obs.results)));

    if accepted_at.is_some() && completed_at.is_none() && !acks.is_empty() {
        out.fail("c07.ack/sent-for-2xx", format!("transaction sent {} ACK(s) although only 2xx finals arrived", acks.len()));
    }
    if accepted_at.is_none() && completed_at.is_none() && !acks.is_empty() {
        out.fail("c07.ack/sent-without-final", "ACK sent although no final response arrived");
    }

    // match ACK instants: one transmission (attempt) per received response, at the instant it arrived. An ACK
    // whose send the fault plan fails shows up in `failed_sends` instead of on the wire.
    let failed = &obs.failed_sends;
    let mut ai = 0;
    let mut fi = 0;
    let mut timing_bad = None;
    let mut fault_before = false; // an earlier ACK of this transaction was lost in the transport
    let mut missing_after_fault = false;
    for w in &want_acks {
        if w.faulted {
            match failed.get(fi) {
                Some(f) if f.0 == w.t => {
                    fi += 1;
                    fault_before = true;
                }
                _ if w.optional => {}
                other => {
                    timing_bad = Some(format!(
                        "expected an ACK transmission attempt (failed by the transport) at {} ms, next failed send at {:?}",
                        w.t,
                        other.map(|f| f.0)
                    ));
                    missing_after_fault = fault_before;
                    break;
                }
            }
            continue;
        }
        match acks.get(ai) {
            Some((s, _)) if s.t_ms == w.t => ai += 1,
            _ if w.optional => {}
            other => {
                timing_bad = Some(format!(
                    "expected an ACK at {} ms, next observed ACK at {:?}",
                    w.t,
                    other.map(|(s, _)| s.t_ms)
                ));
                missing_after_fault = fault_before;
                break;
            }
        }
    }
    if timing_bad.is_none() && ai < acks.len() && (completed_at.is_some()) {
        timing_bad = Some(format!("extra ACK at {} ms", acks[ai].0.t_ms));
    }
    if timing_bad.is_none() && fi < failed.len() {
        timing_bad = Some(format!("extra (failed) transmission attempt at {} ms", failed[fi].0));
    }
    if let Some(b) = timing_bad {
        let locus = if want_acks.iter().filter(|w| !w.optional).count() <= 1 && acks.is_empty() && failed.is_empty() {
            "first-missing"
        } else if case.reliable {
            "reliable"
        } else if missing_after_fault {
            // the transaction stopped answering retransmitted finals after a transient transport error
            "once-per-response-after-send-fault"
        } else {
            "once-per-response"
        };
        out.fail(
            format!("c07.ack/{locus}"),
            format!(
                "{b}; all ACKs at {ack_times_brief}, failed sends at {:?}",
                failed.iter().map(|f| f.0).collect::<Vec<_>>()
            ),
        );
    }
    // a lost ACK was addressed like the INVITE
    if let Some(inv) = &invite_sent {
        for f in failed {
            if f.2 != inv.dest {
                out.fail("c07.ack/destination", format!("(failed) ACK transmission addressed to {}, INVITE went to {}", f.2, inv.dest));
            }
        }
    }

    // ACK contents
    for (s, ack) in &acks {
        if let Some(inv) = &invite_sent {
            if s.dest != inv.dest || s.tp != inv.tp {
                out.fail("c07.ack/destination", format!("ACK sent to {} tp{}, INVITE went to {} tp{}", s.dest, s.tp, inv.dest, inv.tp));
            }
        }
        if ack.request_uri() != invite.request_uri() {
            out.fail("c07.ack/request-uri", format!("ACK uri {:?} != INVITE uri {:?}", ack.request_uri(), invite.request_uri()));
        }
        let vias = ack.list_values("via");
        if vias.len() != 1 || Some(&vias[0]) != invite.list_values("via").first() {
            out.fail("c07.ack/via", format!("ACK Via {:?} != INVITE top Via {:?}", vias, invite.list_values("via").first()));
        }
        if ack.header("from") != invite.header("from") {
            out.fail("c07.ack/from", format!("ACK From {:?} != INVITE From {:?}", ack.header("from"), invite.header("from")));
        }
        if ack.call_id() != invite.call_id() {
            out.fail("c07.ack/call-id", "ACK Call-ID differs");
        }
        match (ack.cseq(), invite.cseq()) {
            (Some((n, m)), Some((n2, _))) if n == n2 && m == "ACK" => {}
            (a, b) => out.fail("c07.ack/cseq", format!("ACK CSeq {a:?}, INVITE CSeq {b:?}")),
        }
        if ack.list_values("route") != invite.list_values("route") {
            out.fail(
                "c07.ack/route",
                format!("ACK Route {:?} != INVITE Route {:?}", ack.list_values("route"), invite.list_values("route")),
            );
        }
        if ack.content_length_headers().len() != 1 || ack.header("content-length").map(str::trim) != Some("0") || ack.raw_body_len != 0 {
            out.fail("c07.ack/content-length", "ACK must carry exactly one Content-Length: 0 and no body");
        }
        // ezk's own parser must accept it as an ACK request
        match parse_complete(Default::default(), &s.bytes) {
            Ok(CompleteItem::Sip { line, .. }) if line.request_method() == Some(&Method::ACK) => {}
            _ => out.fail("c07.ack/unparsable", "ezk cannot parse its own ACK"),
        }
    }
    // To of each ACK = To of the response it answers
    let mut ai = 0;
    for w in want_acks.iter().filter(|w| !w.faulted) {
        if let Some((s, ack)) = acks.get(ai) {
            if s.t_ms == w.t {
                if let Some(to) = &w.to {
                    if ack.header("to") != Some(to.as_str()) {
                        out.fail(
                            "c07.ack/to",
                            format!("ACK To {:?}, response To {:?}", ack.header("to"), to),
                        );
                    }
                }
                ai += 1;
            }
        }
    }

    // ---- results of receive() ----
    // walk over what the caller got: every response that had to come out did, in arrival order, at the instant
    // max(arrival, caller asks); then the end the statement fixes
    let mut ready = case.first_poll; // the caller is (or will be) inside receive() from here on
    let mut next = 0usize; // next arrival to account for
    let mut taken = 0usize; // results so far (index into thinks)
    let mut first_2xx_taken: Option<u64> = None;
    let mut ended: Option<(u64, Res)> = None;
    let mut bad: Option<String> = None;
    for (t, res) in &obs.results {
        match res {
            Res::Resp(code, marker) => {
                let idx = marker.strip_prefix('m').and_then(|x| x.parse::<usize>().ok());
                let Some(idx) = idx.filter(|i| *i < flat.len() && flat[*i].code == *code) else {
                    bad = Some(format!("receive() yielded {res:?} which was never sent"));
                    break;
                };
                if idx < next {
                    bad = Some(format!("response m{idx} yielded again / out of order at {t}"));
                    break;
                }
                if let Some(k) = (next..idx).find(|k| need[*k] == Need::Must) {
                    bad = Some(format!("missing result: response m{k} ({}, arrived at {}) was skipped, next result is m{idx} at {t}", flat[k].code, flat[k].t_ms));
                    break;
                }
                if need[idx] == Need::Never {
                    bad = Some(format!("unexpected result {res:?} at {t}"));
                    break;
                }
                let due = flat[idx].t_ms.max(ready);
                if *t < flat[idx].t_ms || (need[idx] == Need::Must && *t != due) {
                    bad = Some(format!("expected {res:?} at {due} (arrived at {}, caller asks at {ready}), observed at {t}", flat[idx].t_ms));
                    break;
                }
                if accepted_at.is_some() && first_2xx_taken.is_none() && (200..300).contains(code) {
                    first_2xx_taken = Some(*t);
                }
                next = idx + 1;
                ready = *t + case.thinks.get(taken).copied().unwrap_or(0);
                taken += 1;
            }
            other => {
                ended = Some((*t, other.clone()));
                break;
            }
        }
    }
    if bad.is_none() {
        if let Some(k) = (next..flat.len()).find(|k| need[*k] == Need::Must) {
            bad = Some(format!(
                "missing result: response m{k} ({}, arrived at {}) was never handed to the caller; transaction ended with {ended:?}",
                flat[k].code, flat[k].t_ms
            ));
        } else if completed.is_some() {
            // the failure was reported once (above), then the transaction ends: the next receive() says so at once
            match &ended {
                Some((t, Res::Finished)) if *t == ready => {}
                e => bad = Some(format!("expected Finished at {ready}, observed {e:?}")),
            }
        } else if let Some(a) = accepted_at {
            // completion: not before 64*T1 after the first 2xx arrived, not later than 64*T1 after the caller
            // took it (or the caller's next receive(), when that is later still)
            let hi = (first_2xx_taken.unwrap_or(a) + TIMEOUT).max(ready) + 2;
            match &ended {
                Some((t, Res::Finished)) if *t + 2 >= a + TIMEOUT && *t <= hi => {}
                e => bad = Some(format!("expected Finished between {} and {hi}, observed {e:?}", a + TIMEOUT)),
            }
        } else if let Some((t, e)) = &ended {
            // an INVITE that saw only provisional responses keeps waiting
            bad = Some(format!("unexpected result {e:?} at {t}"));
        }
    }
    if let Some(b) = bad {
        // a transaction that never got any response times out at 64*T1 — covered by C05; here first response < 31 s always
        let timed_out_at = match &ended {
            Some((t, Res::Err(m))) if m.contains("timed out") => Some(*t),
            _ => None,
        };
        let locus = if timed_out_at.map_or(false, |at| (next..flat.len()).any(|k| need[k] == Need::Must && flat[k].t_ms < at)) {
            // a timeout is reported while a response that had arrived before is still owed to the caller
            "timeout-although-response-arrived"
        } else if completed_at.is_some() { "failure-once-then-end" } else if accepted_at.is_some() { "2xx-to-caller" } else { "provisional" };
        out.fail(format!("c07.results/{locus}"), format!("{b}; all: {}", brief(&obs.results)));
    }

    // ---- classes ----
    out.class(if case.reliable { "reliable" } else { "unreliable" });
    if !case.routes.is_empty() {
        out.class("with-route");
    }
    if case.via_host_port.is_some() {
        out.class("via-host-port-override");
    }
    let tags: std::collections::BTreeSet<_> = case.responses.iter().filter(|r| r.code >= 200).map(|r| r.to_tag).collect();
    if tags.len() > 1 {
        out.class("forked-finals");
    }
    let retransmitted_final = want_acks.len() > 1 || (accepted_at.is_some() && flat.iter().filter(|r| (200..300).contains(&r.code)).count() > 1);
    if retransmitted_final {
        out.class("retransmitted-final");
    }
    if completed_at.is_some() {
        out.class("non-2xx-final");
    }
    if case.responses.iter().any(|r| r.code >= 300 && r.mangle != 0) {
        out.class("non-2xx final whose echoed headers differ from the INVITE's");
    }
    if accepted_at.is_some() {
        out.class("2xx-final");
    }
    if case.responses.iter().any(|r| r.other_source) {
        out.class("response from another source address than the INVITE's destination");
    }
    if case.responses.iter().any(|r| r.other_source && r.code >= 300) && !acks.is_empty() {
        out.class("ACK for a non-2xx final that came from another source address");
    }
    if !obs.failed_sends.is_empty() {
        out.class("an ACK retransmission fails in the transport");
        let first_fault = want_acks.iter().position(|w| w.faulted);
        if first_fault.map_or(false, |p| want_acks[p + 1..].iter().any(|w| !w.optional && !w.faulted)) {
            out.class("retransmitted final after a failed ACK retransmission");
        }
    }
    if case.responses.iter().any(|r| r.other_transport) {
        out.class("response received on another transport handle than the INVITE was sent with");
    }
    if let Some((ci, _)) = completed {
        if flat[ci].other_transport && !acks.is_empty() {
            out.class(if case.reliable {
                "ACK for a non-2xx final received on another transport handle (reliable)"
            } else {
                "ACK for a non-2xx final received on another transport handle (unreliable)"
            });
        }
    }
    for r in case.responses.iter().filter(|r| r.copies > 0) {
        out.class(match (r.code, r.copies) {
            (0..=199, _) => "burst of identical provisional responses in one go",
            (200..=299, 0..=31) => "burst of 2..32 identical 2xx in one go",
            (200..=299, _) => "burst of more than 32 identical 2xx in one go",
            (_, 0..=31) => "burst of 2..32 identical non-2xx finals in one go",
            (_, _) => "burst of more than 32 identical non-2xx finals in one go",
        });
    }
    if paced {
        out.class("caller not always inside receive() (first receive() delayed / busy after a response)");
        let first_final = flat.iter().find(|r| r.code >= 200);
        if case.first_poll > TIMEOUT {
            out.class("first receive() only after 64*T1, first response arrived in time");
            if first_final.map_or(false, |r| r.t_ms < case.first_poll) && flat.iter().take_while(|r| r.code < 200).count() == 0 {
                out.class("final response is the first thing a caller finds that asks only after 64*T1");
            }
        }
        if let Some((ci, taken)) = completed {
            if taken > flat[ci].t_ms {
                out.class("non-2xx final taken by the caller later than it arrived");
                if !case.reliable && flat[ci + 1..].iter().any(|r| r.code >= 300 && r.t_ms < taken) {
                    out.class("retransmitted finals piled up before the caller took the first one");
                }
            }
        }
        if first_2xx_taken.zip(accepted_at).map_or(false, |(t, a)| t > a) {
            out.class("first 2xx taken by the caller later than it arrived");
        }
    }
    if !case.routes.is_empty() || tags.len() > 1 || retransmitted_final {
        out.nontrivial(case);
    }
}

pub fn property() -> Property {
    Property {
        fuzz: vec![],
        id: "C07",
        rule: "cases = INVITE (Request-URI shapes incl. IPv6/params, From/To with display names, 0..3 Route values, optional Via sent-by override, random Call-ID/CSeq) x reliable/unreliable x 1..5 scripted responses (any class, To-tag none/3 tags, offsets around 32 s and 64*T1, echoed CSeq number / Call-ID / From / top-Via parameters optionally changed by the peer, packet source = INVITE destination or another address, received on the INVITE's transport handle or on a second transport of the same kind, one response optionally followed by a burst of 1..100 retransmissions of itself that reach the endpoint before any task runs, transient send failure of the ACK for a retransmitted final) x pace of the application (first receive() at once / at 1 ms..31.5 s / only after 64*T1: 32.001..70 s; busy 0/10/600/5000/33000 ms after each response) under a paused clock. Non-trivial = INVITE carries a Route, or finals with different To-tags, or a retransmitted final; distinct by hash of the case.",
        assumptions: vec![
            "timers on tokio's paused clock (hook H2); wire read back with the independent WireMsg parser and with ezk's parse_complete",
            "the ACK for a later non-2xx with a different To-tag must be sent but its To is not asserted; ACKs triggered by 1xx/2xx arriving in Completed are optional",
            "responses never arrive exactly on the 32 s / 64*T1 edge",
            "send faults hit only ACK retransmissions of the Completed state (unreliable transport): the failed call counts as the one ACK for that response, every other response within 32 s still needs its own ACK on the wire",
            "the ACK goes to the INVITE's destination, on the transport handle the INVITE was sent with, also when the response came from another source address or was received on another transport handle",
            "the transaction object is poll-driven: the ACK for the first 3xx-6xx is due when the caller's receive() takes that response (arrival, or the caller's next receive() if later), retransmitted finals that piled up until then are answered right behind it; the 32 s / 64*T1 windows of the statement count from the ARRIVAL of the first final, what arrives after that but within 32 s / 64*T1 of the caller TAKING it is optional",
            "a response that arrived before 64*T1 must come out of receive() however late the caller asks (the first response always arrives before 31 s); a first receive() exactly on 64*T1 is not generated",
            "responses of one burst are expected in the order they were handed to the endpoint (the simulated scheduler runs the endpoint's per-message tasks first-in first-out)",
            "send faults are generated only for responses arriving after the caller took the first 3xx-6xx, never inside a burst",
        ],
        explanation: "sampled histories; header shapes from fixed pools",
        subs: vec![prop_sub("ack", strategy, 3000, 60000, check)],
    }
}
