//! C09 — Responses mirror the request and are routed per RFC 3261 sec. 18.2.2 / RFC 3581
//!
//! A generated request is delivered to a real endpoint (datagram mock, inbound or outbound mock
//! connection), taken by a layer, answered with `Endpoint::create_response` through the matching server
//! transaction, and what leaves on the wire is read with the independent `WireMsg` reader and compared
//! with the *generated* request description (never with a second parse by ezk).
//!
//! Two further dimensions (round 3):
//!
//! * configuration — the endpoint owns 1..4 datagram transports (names UDP / DTLS, both address families,
//!   several local addresses and ports, any registration order) and the request arrives on any of them:
//!   the response has to leave through the socket the request arrived on (RFC 3581 sec. 4; not asserted
//!   when the destination is of the other address family than that socket and other sockets exist);
//! * history — the response does not stop existing after its first transmission: the peer retransmits the
//!   request (from the same source, another port, another address; before the first response of the TU
//!   and after the last), virtual time passes (timer G of the INVITE server transaction), the TU
//!   retransmits its 2xx (`Accepted::retransmit`). Every copy that leaves is held against the same
//!   sec. 18.2.2 table: maddr wins whatever the packet sources were; without maddr the source of any
//!   injected (re)transmission is accepted. A copy whose bytes differ from the first transmission is
//!   checked as a response of its own. Whether and how often copies are sent is C06's subject, not
//!   asserted here.
//!
//! Two more (round 4):
//!
//! * how a connection takes what ezk writes to it — a byte stream accepts a write call for as many bytes as
//!   its send buffer has room (`AsyncWrite::poll_write` returns a short count) and reports a full buffer in
//!   between (`Poll::Pending`). The mock connection is told to take 1..8192 bytes per write call (or
//!   everything, as before), optionally with a full-buffer report before each piece; the very first message of
//!   an outbound connection (the set-up request) is subject to it as well. The oracle is the peer's view of
//!   the stream: everything the peer read must be complete messages — a head and exactly as many body bytes
//!   as its Content-Length announces — one per response, on the connection the request arrived on;
//! * responses with a body — the TU attaches a body of 0..20000 bytes to any of its responses before it hands
//!   it to the transaction: the Content-Length on the wire has to be the size of that body and that many
//!   bytes have to follow the head (the content of the body is not compared).

use crate::engine::*;
use crate::props::c06::ChannelLayer;
use crate::refmodel::ref_route::{self as rs, Destination, Maddr, RefHost, RefVia};
use crate::world::stream::{mock_factory, mock_listener};
use crate::world::*;
use bytesstr::BytesStr;
use proptest::prelude::*;
use serde::{Deserialize, Serialize};
use sip_core::transport::streaming::StreamingListenerBuilder;
use sip_core::transport::{TargetTransportInfo, TpHandle};
use sip_core::{IncomingRequest, Request};
use sip_types::uri::sip::SipUri;
use sip_types::{Code, Method, Name};
use std::net::{IpAddr, Ipv4Addr, Ipv6Addr, SocketAddr};
use std::sync::Arc;
use tokio::sync::mpsc;

// ------------------------------------------------------------------------------------------------
// case description

#[derive(Serialize, Deserialize, Clone, Debug, Hash, PartialEq, Eq)]
pub enum H {
    V4([u8; 4]),
    V6([u16; 8]),
    Name(String),
}

impl H {
    pub fn ip(&self) -> Option<IpAddr> {
        match self {
            H::V4(a) => Some(IpAddr::V4(Ipv4Addr::new(a[0], a[1], a[2], a[3]))),
            H::V6(g) => Some(IpAddr::V6(Ipv6Addr::new(
                g[0], g[1], g[2], g[3], g[4], g[5], g[6], g[7],
            ))),
            H::Name(_) => None,
        }
    }
    pub fn reference(&self) -> RefHost {
        match self {
            H::Name(n) => RefHost::Name(n.clone()),
            other => RefHost::Ip(other.ip().unwrap()),
        }
    }
    /// IPv6address text in one of three spellings (0 canonical, 1 upper-case hex, 2 all eight groups)
    fn v6_text(g: &[u16; 8], style: u8) -> String {
        let a = Ipv6Addr::new(g[0], g[1], g[2], g[3], g[4], g[5], g[6], g[7]);
        match style {
            1 => a.to_string().to_ascii_uppercase(),
            2 => g.iter().map(|x| format!("{x:x}")).collect::<Vec<_>>().join(":"),
            _ => a.to_string(),
        }
    }
    /// `host` production: IPv4address / IPv6reference / hostname
    pub fn host_text(&self, style: u8) -> String {
        match self {
            H::V4(_) => self.ip().unwrap().to_string(),
            H::V6(g) => format!("[{}]", Self::v6_text(g, style)),
            H::Name(n) => n.clone(),
        }
    }
    /// IPv4address / IPv6address (no brackets) — the `received` production
    pub fn bare_text(&self) -> String {
        match self {
            H::V6(g) => Self::v6_text(g, 0),
            other => other.host_text(0),
        }
    }
}

#[derive(Serialize, Deserialize, Clone, Debug, Hash, PartialEq, Eq)]
pub enum PVal {
    None,
    Token(String),
    /// content of a quoted-string (qdtext only: no `"` and no `\`)
    Quoted(String),
}

impl PVal {
    fn raw(&self) -> Option<String> {
        match self {
            PVal::None => None,
            PVal::Token(t) => Some(t.clone()),
            PVal::Quoted(q) => Some(format!("\"{q}\"")),
        }
    }
}

#[derive(Serialize, Deserialize, Clone, Debug, Hash, PartialEq, Eq)]
pub enum VP {
    Branch(String),
    /// `bare_v6`: IPv6 maddr written without brackets (not the RFC 3261 `host` production; destination not asserted)
    Maddr { host: H, bare_v6: bool },
    Rport(Option<u16>),
    Received(H),
    Ttl(u8),
    Ext(String, PVal),
}

#[derive(Serialize, Deserialize, Clone, Debug, Hash, PartialEq, Eq)]
pub struct ViaSpec {
    pub transport: String,
    pub host: H,
    pub v6style: u8,
    pub port: Option<u16>,
    pub params: Vec<VP>,
    /// spelling of the names maddr/rport/received/ttl: 0 lower, 1 UPPER, 2 Capitalised
    pub name_case: u8,
    /// 0 no optional white space, 1 blanks around ';', 2 blanks around '/', ';' and '='
    pub lws: u8,
}

fn cased(name: &str, style: u8) -> String {
    match style {
        1 => name.to_ascii_uppercase(),
        2 => {
            let mut c = name.chars();
            match c.next() {
                Some(f) => f.to_ascii_uppercase().to_string() + c.as_str(),
                None => String::new(),
            }
        }
        _ => name.to_string(),
    }
}

impl ViaSpec {
    /// (name as written, value as written)
    pub fn pairs(&self) -> Vec<(String, Option<String>)> {
        self.params
            .iter()
            .map(|p| match p {
                VP::Branch(b) => ("branch".to_string(), Some(b.clone())),
                VP::Maddr { host, bare_v6 } => (
                    cased("maddr", self.name_case),
                    Some(if *bare_v6 { host.bare_text() } else { host.host_text(0) }),
                ),
                VP::Rport(v) => (cased("rport", self.name_case), v.map(|p| p.to_string())),
                VP::Received(h) => (cased("received", self.name_case), Some(h.bare_text())),
                VP::Ttl(t) => (cased("ttl", self.name_case), Some(t.to_string())),
                VP::Ext(n, v) => (n.clone(), v.raw()),
            })
            .collect()
    }
    pub fn text(&self) -> String {
        let (slash, semi, eq) = match self.lws {
            1 => ("/", " ; ", "="),
            2 => (" / ", " ;  ", " = "),
            _ => ("/", ";", "="),
        };
        let mut s = format!("SIP{slash}2.0{slash}{} {}", self.transport, self.host.host_text(self.v6style));
        if self.lws == 1 {
            s = format!("SIP/2.0/{}   {}", self.transport, self.host.host_text(self.v6style));
        }
        if let Some(p) = self.port {
            s.push_str(&format!(":{p}"));
        }
        for (n, v) in self.pairs() {
            s.push_str(semi);
            s.push_str(&n);
            if let Some(v) = v {
                s.push_str(eq);
                s.push_str(&v);
            }
        }
        s
    }
    fn maddr(&self) -> Option<(&H, bool)> {
        self.params.iter().find_map(|p| match p {
            VP::Maddr { host, bare_v6 } => Some((host, *bare_v6)),
            _ => None,
        })
    }
    fn rport(&self) -> Option<Option<u16>> {
        self.params.iter().find_map(|p| match p {
            VP::Rport(v) => Some(*v),
            _ => None,
        })
    }
    fn has_received(&self) -> bool {
        self.params.iter().any(|p| matches!(p, VP::Received(_)))
    }
}

#[derive(Serialize, Deserialize, Clone, Debug, Hash, PartialEq, Eq)]
pub struct AddrSpec {
    /// (quoted, text)
    pub display: Option<(bool, String)>,
    /// name-addr form (`<...>`); false only without display name and without uri parameters
    pub angle: bool,
    pub sips: bool,
    pub user: Option<String>,
    pub host: H,
    /// never maddr/ttl/transport/lr/method (RFC 3261 Table 1 forbids them in From/To)
    pub uri_params: Vec<(String, Option<String>)>,
    pub tag: Option<String>,
    /// index of the tag among the header parameters
    pub tag_pos: u8,
    pub params: Vec<(String, PVal)>,
}

impl AddrSpec {
    pub fn uri_text(&self) -> String {
        let mut s = String::from(if self.sips { "sips:" } else { "sip:" });
        if let Some(u) = &self.user {
            s.push_str(u);
            s.push('@');
        }
        s.push_str(&self.host.host_text(0));
        for (n, v) in &self.uri_params {
            s.push(';');
            s.push_str(n);
            if let Some(v) = v {
                s.push('=');
                s.push_str(v);
            }
        }
        s
    }
    pub fn header_params(&self) -> Vec<(String, Option<String>)> {
        let mut v: Vec<(String, Option<String>)> =
            self.params.iter().map(|(n, v)| (n.clone(), v.raw())).collect();
        if let Some(t) = &self.tag {
            let pos = (self.tag_pos as usize).min(v.len());
            v.insert(pos, ("tag".to_string(), Some(t.clone())));
        }
        v
    }
    pub fn text(&self) -> String {
        let mut s = String::new();
        if let Some((quoted, d)) = &self.display {
            if *quoted {
                s.push_str(&format!("\"{d}\" "));
            } else {
                s.push_str(d);
                s.push(' ');
            }
        }
        if self.angle {
            s.push_str(&format!("<{}>", self.uri_text()));
        } else {
            s.push_str(&self.uri_text());
        }
        for (n, v) in self.header_params() {
            s.push(';');
            s.push_str(&n);
            if let Some(v) = v {
                s.push('=');
                s.push_str(&v);
            }
        }
        s
    }
}

#[derive(Serialize, Deserialize, Clone, Debug, Hash, PartialEq, Eq)]
pub struct Req {
    pub method: String,
    pub vias: Vec<ViaSpec>,
    /// 0 one header line per Via, 1 all in one comma separated line, 2 top alone + rest in one line
    pub via_layout: u8,
    /// compact header names (v, f, t, i, l)
    pub compact: bool,
    pub from: AddrSpec,
    pub to: AddrSpec,
    pub call_id: String,
    pub cseq: u32,
    pub timestamp: Option<String>,
    pub body_len: u16,
}

#[derive(Serialize, Deserialize, Clone, Copy, Debug, Hash, PartialEq, Eq)]
pub enum Tp {
    Datagram,
    Inbound { secure: bool },
    Outbound { secure: bool },
}

#[derive(Serialize, Deserialize, Clone, Debug, Hash, PartialEq, Eq)]
pub struct Case {
    pub req: Req,
    /// packet source ip = the top Via's sent-by ip (when that is an IP literal)
    pub src_same: bool,
    /// packet source ip otherwise (always an IP)
    pub src_alt: H,
    pub src_port: u16,
    pub tp: Tp,
    /// (status code, caller supplied reason); all but the last are provisional
    pub responses: Vec<(u16, Option<String>)>,
    pub rng: u8,
    /// shapes the generator drew and then replaced because they are recorded as open findings
    #[serde(default)]
    pub excluded: Vec<String>,
    /// datagram transports registered with the endpoint, in registration order (`Tp::Datagram` only).
    /// Empty = the single "UDP" transport on port 5060 of all earlier replay files.
    #[serde(default)]
    pub locals: Vec<LocalTp>,
    /// index into `locals` of the transport the request (and its retransmissions) arrives on
    #[serde(default)]
    pub arrive_on: u8,
    /// retransmissions of the request that arrive before the TU sent its first response (`Ev::Retx` only)
    #[serde(default)]
    pub early: Vec<Ev>,
    /// what happens after the last response was handed to the transaction
    #[serde(default)]
    pub history: Vec<Ev>,
    /// connection transports: room in the send buffer of ezk's end of the connection — each write call of ezk
    /// on it is accepted for at most that many bytes (`AsyncWrite::poll_write` returns the short count, the
    /// next call takes the next piece). 0 = every write call is taken whole (all earlier replay files)
    #[serde(default)]
    pub conn_chunk: u16,
    /// with `conn_chunk` > 0: before each piece the connection reports a full buffer once (`Poll::Pending`, woken at once)
    #[serde(default)]
    pub conn_stall: bool,
    /// length of the body the TU attaches to the n-th response before handing it to the transaction (missing / 0 = none)
    #[serde(default)]
    pub resp_bodies: Vec<u16>,
}

/// one datagram transport the endpoint owns
#[derive(Serialize, Deserialize, Clone, Debug, Hash, PartialEq, Eq)]
pub struct LocalTp {
    /// false: name "UDP"; true: name "DTLS" (secure datagram transport)
    pub dtls: bool,
    /// bound to an address of the family the packet source does NOT have
    /// (ignored for the transport the request arrives on: a packet arrives on a socket of its own family)
    pub other_family: bool,
    /// selects the bound ip: 10.0.0.<1+n> / fd00::<1+n>
    pub ip_sel: u8,
    pub port: u16,
}

/// where a retransmission of the request comes from
#[derive(Serialize, Deserialize, Clone, Debug, Hash, PartialEq, Eq)]
pub enum RSrc {
    /// the packet source of the first transmission
    Same,
    /// same ip, this port (NAT rebinding)
    OtherPort(u16),
    /// another ip of the family of the first packet source
    OtherIp { v4: [u8; 4], v6: [u16; 8], port: u16 },
}

#[derive(Serialize, Deserialize, Clone, Debug, Hash, PartialEq, Eq)]
pub enum Ev {
    /// the peer retransmits the request (same bytes, same local transport)
    Retx(RSrc),
    /// virtual time passes (timer driven retransmissions of the response)
    Advance(u16),
    /// the TU retransmits its 2xx to the INVITE (`Accepted::retransmit`); nothing for other cases
    TuRetransmit,
}

/// a resolved `LocalTp`
#[derive(Clone, Debug)]
pub struct LocalAddr {
    pub name: &'static str,
    pub secure: bool,
    pub bound: SocketAddr,
}

impl Case {
    pub fn source(&self) -> SocketAddr {
        let ip = match (self.src_same, self.req.vias[0].host.ip()) {
            (true, Some(ip)) => ip,
            _ => self.src_alt.ip().unwrap_or(IpAddr::V4(Ipv4Addr::new(192, 0, 2, 200))),
        };
        SocketAddr::new(ip, self.src_port.max(1))
    }
    /// the datagram transports of the endpoint in registration order and the index of the one the
    /// request arrives on; bound addresses are pairwise distinct
    pub fn resolved_locals(&self) -> (Vec<LocalAddr>, usize) {
        let v4 = self.source().is_ipv4();
        if self.locals.is_empty() {
            let bound: SocketAddr = if v4 { "10.0.0.1:5060" } else { "[fd00::1]:5060" }.parse().unwrap();
            return (vec![LocalAddr { name: "UDP", secure: false, bound }], 0);
        }
        let arrive = (self.arrive_on as usize).min(self.locals.len() - 1);
        let mut out: Vec<LocalAddr> = vec![];
        for (i, l) in self.locals.iter().enumerate() {
            let fam4 = if i == arrive { v4 } else { v4 != l.other_family };
            let n = 1 + (l.ip_sel % 3) as u16;
            let ip: IpAddr = if fam4 {
                IpAddr::V4(Ipv4Addr::new(10, 0, 0, n as u8))
            } else {
                IpAddr::V6(Ipv6Addr::new(0xfd00, 0, 0, 0, 0, 0, 0, n))
            };
            let mut port = l.port.max(1);
            while out.iter().any(|o| o.bound == SocketAddr::new(ip, port)) {
                port = if port == u16::MAX { 1024 } else { port + 1 };
            }
            out.push(LocalAddr {
                name: if l.dtls { "DTLS" } else { "UDP" },
                secure: l.dtls,
                bound: SocketAddr::new(ip, port),
            });
        }
        (out, arrive)
    }
    /// packet source of a retransmission
    pub fn retx_source(&self, s: &RSrc) -> SocketAddr {
        let src = self.source();
        match s {
            RSrc::Same => src,
            RSrc::OtherPort(p) => SocketAddr::new(src.ip(), (*p).max(1)),
            RSrc::OtherIp { v4, v6, port } => {
                let ip = if src.is_ipv4() { H::V4(*v4).ip().unwrap() } else { H::V6(*v6).ip().unwrap() };
                SocketAddr::new(ip, (*port).max(1))
            }
        }
    }
    /// every packet source a (re)transmission of the request came from
    pub fn all_sources(&self) -> Vec<SocketAddr> {
        let mut v = vec![self.source()];
        for e in self.early.iter().chain(self.history.iter()) {
            if let Ev::Retx(s) = e {
                let a = self.retx_source(s);
                if !v.contains(&a) {
                    v.push(a);
                }
            }
        }
        v
    }
    /// length of the body of the n-th response
    pub fn resp_body_len(&self, n: usize) -> usize {
        self.resp_bodies.get(n).copied().unwrap_or(0) as usize
    }
    pub fn request_bytes(&self) -> Vec<u8> {
        let r = &self.req;
        let (v, f, t, i, l) = if r.compact {
            ("v", "f", "t", "i", "l")
        } else {
            ("Via", "From", "To", "Call-ID", "Content-Length")
        };
        let mut s = format!("{} sip:uas@10.0.0.1 SIP/2.0\r\n", r.method);
        let texts: Vec<String> = r.vias.iter().map(|x| x.text()).collect();
        match r.via_layout {
            1 => s.push_str(&format!("{v}: {}\r\n", texts.join(", "))),
            2 if texts.len() > 1 => {
                s.push_str(&format!("{v}: {}\r\n", texts[0]));
                s.push_str(&format!("{v}: {}\r\n", texts[1..].join(" ,")));
            }
            _ => {
                for x in &texts {
                    s.push_str(&format!("{v}: {x}\r\n"));
                }
            }
        }
        s.push_str(&format!("{f}: {}\r\n", r.from.text()));
        s.push_str(&format!("{t}: {}\r\n", r.to.text()));
        s.push_str(&format!("{i}: {}\r\n", r.call_id));
        s.push_str(&format!("CSeq: {} {}\r\n", r.cseq, r.method));
        s.push_str("Max-Forwards: 70\r\n");
        if let Some(ts) = &r.timestamp {
            s.push_str(&format!("Timestamp: {ts}\r\n"));
        }
        let body: Vec<u8> = (0..r.body_len).map(|k| b"v=0\r\no=- 1 1 IN IP4 x\r\n"[k as usize % 22]).collect();
        if !body.is_empty() {
            s.push_str("Content-Type: application/sdp\r\n");
        }
        s.push_str(&format!("{l}: {}\r\n\r\n", body.len()));
        let mut b = s.into_bytes();
        b.extend_from_slice(&body);
        b
    }
}

/// the body the TU attaches to a response
fn resp_body(len: usize) -> Vec<u8> {
    (0..len).map(|k| b"v=0\r\no=- 2 2 IN IP4 y\r\ns=-\r\n"[k % 28]).collect()
}

// ------------------------------------------------------------------------------------------------
// generators

const POOL4: &[[u8; 4]] = &[
    [192, 0, 2, 1],
    [192, 0, 2, 9],
    [10, 0, 0, 7],
    [198, 51, 100, 23],
    [203, 0, 113, 5],
    [224, 0, 1, 75],
    [127, 0, 0, 1],
];
const POOL6: &[[u16; 8]] = &[
    [0x2001, 0xdb8, 0, 0, 0, 0, 0, 1],
    [0x2001, 0xdb8, 0, 0, 0, 0, 2, 1],
    [0xfe80, 0, 0, 0, 0, 0, 0, 1],
    [0, 0, 0, 0, 0, 0, 0, 1],
    [0x2001, 0xdb8, 0xa, 1, 1, 1, 1, 0xabcd],
    [0xff02, 0, 0, 0, 0, 0, 0, 0xfb],
];
/// host names: labels start with a letter (never a dotted quad / all-numeric name)
const NAMES: &[&str] = &[
    "example.com",
    "proxy1.example.net",
    "pc33.atlanta.example.com",
    "localhost",
    "a-b.example",
    "host",
    "sip-gw.example.org.",
    "BigBox3.Site3.Atlanta.example.com",
];
const TRANSPORTS: &[&str] = &["UDP", "TCP", "TLS", "SCTP", "WS", "udp", "Tcp", "x-foo"];
const METHODS: &[&str] = &["OPTIONS", "REGISTER", "BYE", "MESSAGE", "INFO", "SUBSCRIBE", "NOTIFY", "UPDATE", "REFER"];
const TOKEN_CHARS: &str = "abcdefghijklmnopqrstuvwxyzABCDEFGHIJKLMNOPQRSTUVWXYZ0123456789-.!*_+`'~";

fn s_ip4() -> BoxedStrategy<[u8; 4]> {
    prop_oneof![
        3 => any::<u16>().prop_map(|s| POOL4[pick_idx(s, POOL4.len())]),
        1 => (1u8..=223, any::<u8>(), any::<u8>(), 1u8..=254).prop_map(|(a, b, c, d)| [a, b, c, d]),
    ]
    .boxed()
}

fn s_ip6() -> BoxedStrategy<[u16; 8]> {
    prop_oneof![
        3 => any::<u16>().prop_map(|s| POOL6[pick_idx(s, POOL6.len())]),
        1 => (any::<[u16; 4]>(), any::<u16>()).prop_map(|(g, x)| [0x2001, 0xdb8, g[0], g[1], g[2], g[3], 0, x | 1]),
    ]
    .boxed()
}

fn s_ip() -> BoxedStrategy<H> {
    prop_oneof![3 => s_ip4().prop_map(H::V4), 2 => s_ip6().prop_map(H::V6)].boxed()
}

fn s_name() -> BoxedStrategy<String> {
    prop_oneof![
        3 => any::<u16>().prop_map(|s| NAMES[pick_idx(s, NAMES.len())].to_string()),
        1 => ("[a-z][a-z0-9]{0,5}(-[a-z0-9]{1,3})?", "[a-z]{2,5}").prop_map(|(a, b)| format!("{a}.{b}")),
    ]
    .boxed()
}

fn s_host() -> BoxedStrategy<H> {
    prop_oneof![4 => s_ip4().prop_map(H::V4), 3 => s_ip6().prop_map(H::V6), 3 => s_name().prop_map(H::Name)].boxed()
}

/// RFC 3261 token; 3 in 100 carry a `%` (lone or as an escape-looking `%41`), see `exclude_open_findings`
fn s_token(min: usize, max: usize) -> BoxedStrategy<String> {
    let plain = proptest::collection::vec(any::<u16>(), min..=max).prop_map(|v| {
        v.into_iter()
            .map(|s| TOKEN_CHARS.as_bytes()[pick_idx(s, TOKEN_CHARS.len())] as char)
            .collect::<String>()
    });
    prop_oneof![
        97 => plain.clone(),
        3 => (plain, any::<bool>()).prop_map(|(p, lone)| if lone { format!("{p}%") } else { format!("{p}%41x") }),
    ]
    .boxed()
}

fn s_pval() -> BoxedStrategy<PVal> {
    prop_oneof![
        30 => Just(PVal::None),
        60 => s_token(1, 8).prop_map(PVal::Token),
        4 => s_host().prop_map(|h| PVal::Token(h.host_text(0))),
        6 => "[a-zA-Z0-9 ,;=/:@<>()é-]{1,10}".prop_map(PVal::Quoted),
    ]
    .boxed()
}

fn s_ext_params(max: usize) -> BoxedStrategy<Vec<(String, PVal)>> {
    proptest::collection::vec(("[a-z][a-z0-9-]{0,5}", s_pval()), 0..=max)
        .prop_map(|v| {
            v.into_iter()
                .enumerate()
                .map(|(i, (n, v))| (format!("x{n}{i}"), v))
                .collect()
        })
        .boxed()
}

fn s_via(top: bool) -> BoxedStrategy<ViaSpec> {
    let maddr = prop_oneof![
        55 => Just(None),
        20 => s_ip4().prop_map(|a| Some(VP::Maddr { host: H::V4(a), bare_v6: false })),
        12 => s_ip6().prop_map(|a| Some(VP::Maddr { host: H::V6(a), bare_v6: false })),
        3 => s_ip6().prop_map(|a| Some(VP::Maddr { host: H::V6(a), bare_v6: true })),
        10 => s_name().prop_map(|n| Some(VP::Maddr { host: H::Name(n), bare_v6: false })),
    ];
    let rport = prop_oneof![
        40 => Just(None),
        40 => Just(Some(VP::Rport(None))),
        20 => (1u16..=65535).prop_map(|p| Some(VP::Rport(Some(p)))),
    ];
    let received = prop_oneof![4 => Just(None), 1 => s_ip().prop_map(|h| Some(VP::Received(h)))];
    let ttl = prop_oneof![5 => Just(None), 1 => any::<u8>().prop_map(|t| Some(VP::Ttl(t)))];
    let branch = if top {
        s_token(1, 16).prop_map(|t| Some(VP::Branch(format!("z9hG4bK{t}")))).boxed()
    } else {
        prop_oneof![
            6 => s_token(1, 12).prop_map(|t| Some(VP::Branch(format!("z9hG4bK{t}")))),
            2 => s_token(1, 12).prop_map(|t| Some(VP::Branch(t))),
            1 => Just(None),
        ]
        .boxed()
    };
    let port = prop_oneof![
        2 => Just(None),
        1 => Just(Some(5060u16)),
        2 => (1u16..=65535).prop_map(Some),
    ];
    (
        any::<u16>(),
        s_host(),
        0u8..3,
        port,
        (branch, maddr, rport, received, ttl, s_ext_params(3)),
        prop_oneof![94 => Just(0u8), 3 => Just(1u8), 3 => Just(2u8)],
        prop_oneof![84 => Just(0u8), 8 => Just(1u8), 8 => Just(2u8)],
    )
        .prop_flat_map(|(tsel, host, v6style, port, (b, m, r, rc, ttl, ext), name_case, lws)| {
            let mut params: Vec<VP> = vec![];
            params.extend(b);
            params.extend(m);
            params.extend(r);
            params.extend(rc);
            params.extend(ttl);
            params.extend(ext.into_iter().map(|(n, v)| VP::Ext(n, v)));
            let transport = TRANSPORTS[pick_idx(tsel, TRANSPORTS.len())].to_string();
            Just(params).prop_shuffle().prop_map(move |params| ViaSpec {
                transport: transport.clone(),
                host: host.clone(),
                v6style,
                port,
                params,
                name_case,
                lws,
            })
        })
        .boxed()
}

fn s_addr(is_from: bool) -> BoxedStrategy<AddrSpec> {
    let display = prop_oneof![
        3 => Just(None),
        2 => "[A-Za-z0-9!%*_+`'~.-]{1,8}( [A-Za-z0-9!%*_+`'~.-]{1,8}){0,2}".prop_map(|d| Some((false, d))),
        2 => "[A-Za-z0-9.'!?()=+*&/@_-]([A-Za-z0-9 .'!?()=+*&/@_é-]{0,12}[A-Za-z0-9.'!?()é-])?".prop_map(|d| Some((true, d))),
        1 => "[A-Za-z]{1,6}[,;:<>][ A-Za-z,;:<>]{0,6}[A-Za-z>]".prop_map(|d| Some((true, d))),
    ];
    let user = prop_oneof![1 => Just(None), 4 => "[a-zA-Z0-9_.!~*'()+-]{1,10}".prop_map(Some)];
    let uri_params = prop_oneof![
        6 => Just(vec![]),
        2 => Just(vec![("user".to_string(), Some("phone".to_string()))]),
        2 => "[a-z][a-z0-9]{0,5}".prop_map(|n| vec![(format!("x-{n}"), Some("1".to_string()))]),
        1 => "[a-z][a-z0-9]{0,5}".prop_map(|n| vec![("user".to_string(), Some("ip".to_string())), (format!("y-{n}"), None)]),
    ];
    let tag = if is_from {
        s_token(1, 12).prop_map(Some).boxed()
    } else {
        prop_oneof![1 => Just(None), 1 => s_token(1, 12).prop_map(Some)].boxed()
    };
    (display, any::<bool>(), any::<bool>(), user, s_host(), uri_params, tag, 0u8..3, s_ext_params(2))
        .prop_map(|(display, angle, sips, user, host, uri_params, tag, tag_pos, params)| {
            let angle = angle || display.is_some() || !uri_params.is_empty();
            AddrSpec {
                display,
                angle,
                sips: sips && angle,
                user,
                host,
                uri_params,
                tag,
                tag_pos,
                params,
            }
        })
        .boxed()
}

fn s_reason() -> BoxedStrategy<Option<String>> {
    prop_oneof![
        3 => Just(None),
        2 => "[A-Za-z0-9][A-Za-z0-9 ,;:=/?@&+$%!~*'()_.-]{0,20}[A-Za-z0-9.!)]".prop_map(Some),
        1 => "[A-Za-zäöüé]{1,6}( [A-Za-zäöüé]{1,6}){0,2}".prop_map(Some),
    ]
    .boxed()
}

fn s_code() -> BoxedStrategy<u16> {
    prop_oneof![
        4 => 100u16..=699,
        1 => Just(100u16),
        2 => any::<u16>().prop_map(|s| {
            const K: &[u16] = &[180, 183, 199, 200, 202, 204, 299, 300, 302, 380, 399, 400, 401, 404, 408, 414, 422, 480, 481, 486, 487, 489, 499, 500, 503, 504, 505, 513, 555, 599, 600, 603, 606, 608, 699];
            K[pick_idx(s, K.len())]
        }),
    ]
    .boxed()
}

fn s_responses() -> BoxedStrategy<Vec<(u16, Option<String>)>> {
    (
        proptest::collection::vec((prop_oneof![2 => Just(100u16), 1 => 100u16..=199], s_reason()), 0..=2),
        (s_code(), s_reason()),
    )
        .prop_map(|(mut prov, last)| {
            prov.push(last);
            prov
        })
        .boxed()
}

fn s_req() -> BoxedStrategy<Req> {
    let vias = prop_oneof![
        2 => Just(1usize),
        5 => 2usize..=5,
    ]
    .prop_flat_map(|n| (s_via(true), proptest::collection::vec(s_via(false), n - 1)))
    .prop_map(|(top, mut rest)| {
        rest.insert(0, top);
        rest
    });
    let method = prop_oneof![
        2 => Just("INVITE".to_string()),
        3 => any::<u16>().prop_map(|s| METHODS[pick_idx(s, METHODS.len())].to_string()),
    ];
    let timestamp = prop_oneof![
        1 => Just(None),
        1 => (0u32..100000, proptest::option::of(0u16..1000), proptest::option::of(0u16..100)).prop_map(|(a, frac, delay)| {
            let mut s = a.to_string();
            if let Some(f) = frac { s.push_str(&format!(".{f}")); }
            if let Some(d) = delay { s.push_str(&format!(" 0.{d}")); }
            Some(s)
        }),
    ];
    (
        method,
        vias,
        prop_oneof![6 => Just(0u8), 2 => Just(1u8), 2 => Just(2u8)],
        prop_oneof![5 => Just(false), 1 => Just(true)],
        s_addr(true),
        s_addr(false),
        "[A-Za-z0-9_.!%*+~'()<>:/?{}\\[\\]-]{1,20}(@[A-Za-z0-9.-]{1,12})?",
        0u32..=0x7fff_ffff,
        timestamp,
        prop_oneof![3 => Just(0u16), 1 => 1u16..200],
    )
        .prop_map(|(method, vias, via_layout, compact, from, to, call_id, cseq, timestamp, body_len)| Req {
            method,
            vias,
            via_layout,
            compact,
            from,
            to,
            call_id,
            cseq,
            timestamp,
            body_len,
        })
        .boxed()
}

/// ports of the endpoint's datagram transports (drawn without repetition)
const LOCAL_PORTS: &[u16] = &[5060, 5080, 5061, 5062, 6060, 15060, 50600];

/// 0 = the legacy single "UDP" transport; else 1..=4 transports with distinct ports, the request arriving on any of them
fn s_locals() -> BoxedStrategy<(Vec<LocalTp>, u8)> {
    let one = (prop_oneof![4 => Just(false), 1 => Just(true)], prop_oneof![4 => Just(false), 1 => Just(true)], 0u8..3);
    prop_oneof![
        4 => Just((vec![], 0u8)),
        6 => (
            proptest::collection::vec(one, 1..=4),
            Just(LOCAL_PORTS.to_vec()).prop_shuffle(),
            any::<u16>(),
            // most endpoints bind all their sockets to one address
            prop_oneof![2 => Just(true), 1 => Just(false)],
        )
            .prop_map(|(v, ports, sel, one_ip)| {
                let arrive = pick_idx(sel, v.len()) as u8;
                let locals = v
                    .into_iter()
                    .enumerate()
                    .map(|(i, (dtls, other_family, ip_sel))| LocalTp {
                        dtls,
                        other_family,
                        ip_sel: if one_ip { 0 } else { ip_sel },
                        port: ports[i],
                    })
                    .collect();
                (locals, arrive)
            }),
    ]
    .boxed()
}

fn s_rsrc() -> BoxedStrategy<RSrc> {
    prop_oneof![
        4 => Just(RSrc::Same),
        2 => (1u16..=65535).prop_map(RSrc::OtherPort),
        1 => (s_ip4(), s_ip6(), 1u16..=65535).prop_map(|(v4, v6, port)| RSrc::OtherIp { v4, v6, port }),
    ]
    .boxed()
}

/// (early, history); the sum of all `Advance` stays far below the 32 s life time of a server transaction
fn s_events() -> BoxedStrategy<(Vec<Ev>, Vec<Ev>)> {
    let ev = prop_oneof![
        5 => s_rsrc().prop_map(Ev::Retx),
        // around the instants of timer G (500, 1500, 3500 ms after the final response) without sitting on them
        3 => prop_oneof![1u16..=499, 501u16..=1499, 1501u16..=2600].prop_map(Ev::Advance),
        1 => Just(Ev::TuRetransmit),
    ];
    let early = prop_oneof![
        6 => Just(vec![]),
        1 => proptest::collection::vec(s_rsrc().prop_map(Ev::Retx), 1..=2),
    ];
    let history = prop_oneof![
        4 => Just(vec![]),
        6 => proptest::collection::vec(ev, 1..=4),
    ];
    (early, history).boxed()
}

/// how ezk's end of a connection takes what is written to it: (conn_chunk, conn_stall)
fn s_conn_write() -> BoxedStrategy<(u16, bool)> {
    (
        prop_oneof![
            3 => Just(0u16),
            // a response head is a few hundred bytes: most limits cut it into several pieces
            2 => 1u16..=16,
            3 => 17u16..=300,
            2 => 301u16..=2000,
            1 => 2001u16..=8192,
        ],
        prop_oneof![2 => Just(false), 1 => Just(true)],
    )
        .prop_map(|(chunk, stall)| (chunk, stall && chunk > 0))
        .boxed()
}

/// body lengths of up to three responses
fn s_resp_bodies() -> BoxedStrategy<Vec<u16>> {
    let one = prop_oneof![
        6 => Just(0u16),
        3 => 1u16..=300,
        1 => 301u16..=3000,
        1 => 3001u16..=20000,
    ];
    proptest::collection::vec(one, 3).boxed()
}

pub fn strategy() -> BoxedStrategy<Case> {
    (
        s_req(),
        prop_oneof![1 => Just(true), 1 => Just(false)],
        s_ip(),
        prop_oneof![1 => Just(5060u16), 4 => 1u16..=65535],
        prop_oneof![
            5 => Just(Tp::Datagram),
            1 => Just(Tp::Inbound { secure: false }),
            1 => Just(Tp::Inbound { secure: true }),
            1 => Just(Tp::Outbound { secure: false }),
            1 => Just(Tp::Outbound { secure: true }),
        ],
        s_responses(),
        any::<u8>(),
        s_locals(),
        s_events(),
        (s_conn_write(), s_resp_bodies()),
    )
        .prop_map(|(req, src_same, src_alt, src_port, tp, responses, rng, (locals, arrive_on), (early, history), ((conn_chunk, conn_stall), mut resp_bodies))| {
            let datagram = matches!(tp, Tp::Datagram);
            // connection transports: the peer never retransmits and no virtual time passes (keep-alive and
            // idle handling of connections is not C09's subject); only the TU's own retransmission remains
            let keep = |e: &Ev| datagram || matches!(e, Ev::TuRetransmit);
            resp_bodies.truncate(responses.len());
            if resp_bodies.iter().all(|b| *b == 0) {
                resp_bodies.clear();
            }
            Case {
                req,
                src_same,
                src_alt,
                src_port,
                tp,
                responses,
                rng,
                excluded: vec![],
                locals: if datagram { locals } else { vec![] },
                arrive_on: if datagram { arrive_on } else { 0 },
                early: early.into_iter().filter(|e| keep(e)).collect(),
                history: history.into_iter().filter(|e| keep(e)).collect(),
                conn_chunk: if datagram { 0 } else { conn_chunk },
                conn_stall: !datagram && conn_stall,
                resp_bodies,
            }
        })
        .prop_map(exclude_open_findings)
        .boxed()
}

/// Shapes that hit a recorded *open* finding are taken out of the generated domain by construction
/// (and counted through the class histogram) so that the search continues behind them:
///
/// * `c09.mirror/quoted-string-param-rewritten` — a quoted-string parameter value whose content is not a
///   token comes back percent-encoded without quotes: the content is reduced to token characters;
/// * `c09.mirror/percent-in-param-decoded` — `%HH` inside a token parameter value comes back decoded:
///   `%` is replaced by `.`.
///
/// Replay files keep the original shapes (`check` never rewrites a case).
pub fn exclude_open_findings(mut case: Case) -> Case {
    let mut quoted = 0usize;
    let mut percent = 0usize;
    fn fix_token(t: &mut String, n: &mut usize) {
        if t.contains('%') {
            *t = t.replace('%', ".");
            *n += 1;
        }
    }
    fn fix_pval(v: &mut PVal, quoted: &mut usize, percent: &mut usize) {
        match v {
            PVal::Quoted(q) if !rs::is_token(q) || q.contains('%') => {
                let mut t: String = q.chars().filter(|c| rs::is_token_char(*c) && *c != '%').collect();
                if t.is_empty() {
                    t.push('q');
                }
                *q = t;
                *quoted += 1;
            }
            PVal::Token(t) => fix_token(t, percent),
            _ => {}
        }
    }
    for via in &mut case.req.vias {
        for p in &mut via.params {
            match p {
                VP::Branch(b) => fix_token(b, &mut percent),
                VP::Ext(_, v) => fix_pval(v, &mut quoted, &mut percent),
                _ => {}
            }
        }
    }
    for a in [&mut case.req.from, &mut case.req.to] {
        if let Some(t) = &mut a.tag {
            fix_token(t, &mut percent);
        }
        for (_, v) in &mut a.params {
            fix_pval(v, &mut quoted, &mut percent);
        }
    }
    if quoted > 0 {
        case.excluded.push("quoted-string-param".into());
    }
    if percent > 0 {
        case.excluded.push("percent-in-param".into());
    }
    case
}

fn simple_addr(user: &str, tag: Option<&str>) -> AddrSpec {
    AddrSpec {
        display: None,
        angle: true,
        sips: false,
        user: Some(user.to_string()),
        host: H::Name("example.com".into()),
        uri_params: vec![],
        tag: tag.map(|t| t.to_string()),
        tag_pos: 0,
        params: vec![],
    }
}

fn simple_via(host: H, port: Option<u16>, params: Vec<VP>) -> ViaSpec {
    ViaSpec {
        transport: "UDP".into(),
        host,
        v6style: 0,
        port,
        params,
        name_case: 0,
        lws: 0,
    }
}

fn simple_req(invite: bool, vias: Vec<ViaSpec>) -> Req {
    Req {
        method: if invite { "INVITE".into() } else { "OPTIONS".into() },
        vias,
        via_layout: 0,
        compact: false,
        from: simple_addr("alice", Some("ftag1")),
        to: simple_addr("bob", None),
        call_id: "c09-call@example.com".into(),
        cseq: 314159,
        timestamp: Some("54.21".into()),
        body_len: 0,
    }
}

/// every status code 100..=699 x (no reason | supplied reason) x (INVITE | OPTIONS) on a simple two-Via request
pub fn status_cases(_tier: Tier) -> Vec<Case> {
    let mut out = vec![];
    for code in 100u16..=699 {
        for invite in [false, true] {
            for reason in [None, Some(format!("Custom Reason {code}"))] {
                let vias = vec![
                    simple_via(H::V4([192, 0, 2, 9]), Some(5062), vec![VP::Branch("z9hG4bKc09top".into()), VP::Rport(None)]),
                    simple_via(H::Name("proxy1.example.net".into()), None, vec![VP::Branch("z9hG4bKc09low".into()), VP::Received(H::V4([10, 0, 0, 7]))]),
                ];
                out.push(Case {
                    req: simple_req(invite, vias),
                    src_same: false,
                    src_alt: H::V4([198, 51, 100, 23]),
                    src_port: 40123,
                    tp: Tp::Datagram,
                    responses: vec![(code, reason)],
                    rng: 0,
                    excluded: vec![],
                    locals: vec![],
                    arrive_on: 0,
                    early: vec![],
                    history: vec![],
                    conn_chunk: 0,
                    conn_stall: false,
                    resp_bodies: vec![],
                });
            }
        }
    }
    out
}

/// the sec. 18.2.2 configuration space: transport kind x sent-by kind x port x source relation/family x
/// maddr kind x rport kind x received present x number of Via values
pub fn grid_cases(_tier: Tier) -> Vec<Case> {
    let mut out = vec![];
    let tps = [
        Tp::Datagram,
        Tp::Inbound { secure: false },
        Tp::Inbound { secure: true },
        Tp::Outbound { secure: false },
        Tp::Outbound { secure: true },
    ];
    let sent_bys = [H::V4([192, 0, 2, 9]), H::V6(POOL6[1]), H::Name("pc33.atlanta.example.com".into())];
    let maddrs: [Option<H>; 4] = [None, Some(H::V4([224, 0, 1, 75])), Some(H::V6(POOL6[5])), Some(H::Name("mcast.example.com".into()))];
    let rports: [Option<Option<u16>>; 3] = [None, Some(None), Some(Some(7777))];
    // source: same as sent-by | different v4 | different v6
    for tp in tps {
        for sent_by in &sent_bys {
            for port in [None, Some(5070u16)] {
                for src in 0..3u8 {
                    for maddr in &maddrs {
                        for rport in &rports {
                            for received in [false, true] {
                                for nvias in [1usize, 2, 4] {
                                    let mut params = vec![VP::Branch("z9hG4bKc09grid".into())];
                                    if let Some(m) = maddr {
                                        params.push(VP::Maddr { host: m.clone(), bare_v6: false });
                                    }
                                    if let Some(r) = rport {
                                        params.push(VP::Rport(*r));
                                    }
                                    if received {
                                        params.push(VP::Received(H::V4([10, 9, 8, 7])));
                                    }
                                    params.push(VP::Ext("xe".into(), PVal::None));
                                    let mut vias = vec![simple_via(sent_by.clone(), port, params)];
                                    for k in 1..nvias {
                                        vias.push(simple_via(
                                            H::V4([10, 1, 1, k as u8]),
                                            Some(5060 + k as u16),
                                            vec![
                                                VP::Branch(format!("z9hG4bKlow{k}")),
                                                VP::Received(H::V4([10, 2, 2, k as u8])),
                                                VP::Rport(Some(1000 + k as u16)),
                                                VP::Maddr { host: H::V4([224, 0, 0, k as u8]), bare_v6: false },
                                            ],
                                        ));
                                    }
                                    let invite = (nvias + src as usize) % 2 == 0;
                                    out.push(Case {
                                        req: simple_req(invite, vias),
                                        src_same: src == 0,
                                        src_alt: if src == 2 { H::V6(POOL6[4]) } else { H::V4([198, 51, 100, 23]) },
                                        src_port: if src == 1 { 5070 } else { 33444 },
                                        tp,
                                        responses: vec![(if received { 200 } else { 404 }, None)],
                                        rng: 0,
                                        excluded: vec![],
                                        locals: vec![],
                                        arrive_on: 0,
                                        early: vec![],
                                        history: vec![],
                                        conn_chunk: 0,
                                        conn_stall: false,
                                        resp_bodies: vec![],
                                    });
                                }
                            }
                        }
                    }
                }
            }
        }
    }
    out
}

fn lt(dtls: bool, other_family: bool, ip_sel: u8, port: u16) -> LocalTp {
    LocalTp { dtls, other_family, ip_sel, port }
}

/// top Via for the two enumerations below
fn enum_top(sent_by: &H, port: Option<u16>, maddr: &Option<H>, rport: bool) -> ViaSpec {
    let mut params = vec![VP::Branch("z9hG4bKc09enum".into())];
    if let Some(m) = maddr {
        params.push(VP::Maddr { host: m.clone(), bare_v6: false });
    }
    if rport {
        params.push(VP::Rport(None));
    }
    simple_via(sent_by.clone(), port, params)
}

/// endpoints that own several datagram transports: socket layout x socket the request arrives on x
/// maddr kind x rport x source family x INVITE / non-INVITE x (no | one) retransmission of the request
pub fn socket_cases(_tier: Tier) -> Vec<Case> {
    let layouts: Vec<Vec<LocalTp>> = vec![
        // same name, same family, same ip: only the port tells them apart
        vec![lt(false, false, 0, 5060), lt(false, false, 0, 5080)],
        vec![lt(false, false, 0, 5080), lt(false, false, 0, 5060), lt(false, false, 0, 6060)],
        // same port on several addresses
        vec![lt(false, false, 0, 5060), lt(false, false, 1, 5060), lt(false, false, 2, 5060)],
        // both families
        vec![lt(false, true, 0, 5060), lt(false, false, 0, 5060), lt(false, false, 0, 5080)],
        vec![lt(false, false, 0, 5060), lt(false, true, 0, 5060)],
        // two kinds of datagram transport
        vec![lt(true, false, 0, 5061), lt(false, false, 0, 5060), lt(true, false, 0, 5081), lt(false, false, 0, 5080)],
    ];
    let maddrs: [Option<H>; 3] = [None, Some(H::V4([224, 0, 1, 75])), Some(H::V6(POOL6[5]))];
    let mut out = vec![];
    for layout in &layouts {
        for arrive_on in 0..layout.len() as u8 {
            for maddr in &maddrs {
                for rport in [false, true] {
                    for src6 in [false, true] {
                        for invite in [false, true] {
                            for retx in [false, true] {
                                let vias = vec![
                                    enum_top(&H::V4([192, 0, 2, 9]), Some(5070), maddr, rport),
                                    simple_via(H::V4([10, 1, 1, 1]), None, vec![VP::Branch("z9hG4bKlow1".into())]),
                                ];
                                out.push(Case {
                                    req: simple_req(invite, vias),
                                    src_same: false,
                                    src_alt: if src6 { H::V6(POOL6[4]) } else { H::V4([198, 51, 100, 23]) },
                                    src_port: 33444,
                                    tp: Tp::Datagram,
                                    responses: vec![(if invite { 180 } else { 100 }, None), (if rport { 200 } else { 486 }, None)],
                                    rng: 0,
                                    excluded: vec![],
                                    locals: layout.clone(),
                                    arrive_on,
                                    early: vec![],
                                    history: if retx { vec![Ev::Retx(RSrc::Same), Ev::TuRetransmit] } else { vec![] },
                                    conn_chunk: 0,
                                    conn_stall: false,
                                    resp_bodies: vec![],
                                });
                            }
                        }
                    }
                }
            }
        }
    }
    out
}

/// the life of a server transaction after its final response: INVITE / non-INVITE x final 2xx / 486 x
/// maddr kind x rport x sent-by port x source relation x one or two sockets x shape of the history
pub fn retransmission_cases(_tier: Tier) -> Vec<Case> {
    let other_ip = RSrc::OtherIp { v4: [203, 0, 113, 5], v6: POOL6[0], port: 6001 };
    let shapes: Vec<(Vec<Ev>, Vec<Ev>)> = vec![
        (vec![], vec![Ev::Retx(RSrc::Same)]),
        (vec![], vec![Ev::Retx(RSrc::Same), Ev::Advance(200), Ev::Retx(RSrc::Same)]),
        (vec![], vec![Ev::Retx(RSrc::OtherPort(40999))]),
        (vec![], vec![Ev::Retx(other_ip.clone())]),
        // timer G of the INVITE server transaction: 500 and 1500 ms after the final response
        (vec![], vec![Ev::Advance(600), Ev::Advance(1100)]),
        (vec![], vec![Ev::Advance(600), Ev::Retx(RSrc::Same), Ev::Advance(1100), Ev::Retx(RSrc::OtherPort(40999)), Ev::Advance(2100)]),
        (vec![Ev::Retx(RSrc::Same)], vec![Ev::Retx(RSrc::Same)]),
        (vec![Ev::Retx(RSrc::OtherPort(40999)), Ev::Retx(RSrc::Same)], vec![]),
        (vec![], vec![Ev::TuRetransmit, Ev::Retx(RSrc::Same), Ev::Advance(500), Ev::TuRetransmit]),
    ];
    let maddrs: [Option<H>; 4] = [None, Some(H::V4([192, 0, 2, 99])), Some(H::V6(POOL6[5])), Some(H::Name("mcast.example.com".into()))];
    let mut out = vec![];
    for invite in [false, true] {
        for code in [200u16, 486] {
            for maddr in &maddrs {
                for rport in [false, true] {
                    for port in [None, Some(5070u16)] {
                        for src in 0..3u8 {
                            for two_sockets in [false, true] {
                                for (early, history) in &shapes {
                                    let vias = vec![enum_top(&H::V4([192, 0, 2, 9]), port, maddr, rport)];
                                    out.push(Case {
                                        req: simple_req(invite, vias),
                                        src_same: src == 0,
                                        src_alt: if src == 2 { H::V6(POOL6[4]) } else { H::V4([198, 51, 100, 7]) },
                                        src_port: 5062,
                                        tp: Tp::Datagram,
                                        responses: vec![(code, None)],
                                        rng: 0,
                                        excluded: vec![],
                                        locals: if two_sockets { vec![lt(false, false, 0, 5060), lt(false, false, 0, 5080)] } else { vec![] },
                                        arrive_on: 1,
                                        early: early.clone(),
                                        history: history.clone(),
                                        conn_chunk: 0,
                                        conn_stall: false,
                                        resp_bodies: vec![],
                                    });
                                }
                            }
                        }
                    }
                }
            }
        }
    }
    out
}

/// what a connection does with the bytes ezk writes to it: connection kind(4) x room per write call(7) x
/// buffer-full between the pieces(2) x body of the responses(3) x shape of the answer(4)
pub fn connection_write_cases(_tier: Tier) -> Vec<Case> {
    let tps = [
        Tp::Inbound { secure: false },
        Tp::Inbound { secure: true },
        Tp::Outbound { secure: false },
        Tp::Outbound { secure: true },
    ];
    // (INVITE, responses, history)
    let shapes: Vec<(bool, Vec<(u16, Option<String>)>, Vec<Ev>)> = vec![
        (false, vec![(200, None)], vec![]),
        (false, vec![(100, None), (404, Some("Nobody Here".into()))], vec![]),
        (true, vec![(180, None), (200, None)], vec![Ev::TuRetransmit]),
        (true, vec![(100, None), (486, None)], vec![]),
    ];
    let mut out = vec![];
    for tp in tps {
        for chunk in [1u16, 3, 16, 100, 256, 1000, 4096] {
            for stall in [false, true] {
                for body in [0u16, 40, 6000] {
                    for (invite, responses, history) in &shapes {
                        let vias = vec![
                            simple_via(H::V4([192, 0, 2, 9]), Some(5062), vec![VP::Branch("z9hG4bKc09conn".into()), VP::Rport(None)]),
                            simple_via(H::Name("proxy1.example.net".into()), None, vec![VP::Branch("z9hG4bKc09low".into())]),
                        ];
                        let mut req = simple_req(*invite, vias);
                        req.vias[0].transport = if matches!(tp, Tp::Inbound { secure: true } | Tp::Outbound { secure: true }) { "TLS".into() } else { "TCP".into() };
                        out.push(Case {
                            req,
                            src_same: false,
                            src_alt: H::V4([198, 51, 100, 23]),
                            src_port: 40123,
                            tp,
                            responses: responses.clone(),
                            rng: 0,
                            excluded: vec![],
                            locals: vec![],
                            arrive_on: 0,
                            early: vec![],
                            history: history.clone(),
                            conn_chunk: chunk,
                            conn_stall: stall,
                            // the provisional response stays without body, the final one carries it
                            resp_bodies: if body == 0 { vec![] } else { vec![0, body] },
                        });
                    }
                }
            }
        }
    }
    out
}

// ------------------------------------------------------------------------------------------------
// running a case against ezk

#[derive(Debug, Clone)]
pub struct RespObs {
    pub code: u16,
    pub supplied: Option<String>,
    pub msgs: Vec<Sent>,
    pub call_err: Option<String>,
    /// length of the body the TU attached
    pub body_len: usize,
}

#[derive(Debug, Default)]
pub struct Observed {
    pub inject: String,
    pub delivered: bool,
    pub resp: Vec<RespObs>,
    /// everything in the wire log at the end
    pub all: Vec<Sent>,
    /// id of the datagram transport / of the connection the request arrived on
    pub tp_id: u32,
    /// bytes the peer read from that connection
    pub conn_received: usize,
    /// the bytes the peer read from that connection behind the last complete message (at most 120 of them)
    pub conn_tail: Vec<u8>,
    pub connects: usize,
    pub setup_error: Option<String>,
    /// bound address of the transport the request arrived on (datagram)
    pub arrival_bound: Option<SocketAddr>,
    /// number of datagram transports the endpoint owns
    pub n_locals: usize,
    /// what went out while the `history` events ran: (index of the event, message)
    pub late: Vec<(usize, Sent)>,
    /// messages that went out between the delivery of the request and the first response of the TU
    pub before_first: Vec<Sent>,
    /// errors of `Accepted::retransmit`
    pub tu_retransmit_errors: Vec<String>,
    pub tu_retransmits: usize,
}

/// what the TU still holds after its last response (kept alive until the end of the case)
#[allow(dead_code)]
enum Kept {
    Inv(sip_core::transaction::ServerInvTsx),
    Non(sip_core::transaction::ServerTsx),
    Accepted(sip_core::transaction::Accepted),
    Nothing,
}

async fn answer(
    endpoint: &sip_core::Endpoint,
    mut req: IncomingRequest,
    case: &Case,
    log: &WireLog,
    obs: &mut Observed,
) -> Kept {
    let invite = req.line.method == Method::INVITE;
    enum Tsx {
        Inv(sip_core::transaction::ServerInvTsx),
        Non(sip_core::transaction::ServerTsx),
        Done,
    }
    let mut accepted_state = None;
    let mut tsx = if invite {
        Tsx::Inv(endpoint.create_server_inv_tsx(&mut req))
    } else {
        Tsx::Non(endpoint.create_server_tsx(&mut req))
    };
    for (code, reason) in &case.responses {
        let before = log.len();
        let mut response =
            endpoint.create_response(&req, Code::from(*code), reason.as_ref().map(|r| BytesStr::from(r.as_str())));
        let body_len = case.resp_body_len(obs.resp.len());
        if body_len > 0 {
            response.msg.headers.insert(Name::CONTENT_TYPE, "application/sdp");
            response.msg.body = bytes::Bytes::from(resp_body(body_len));
        }
        let mut call_err = None;
        let provisional = (100..200).contains(code);
        tsx = match tsx {
            Tsx::Inv(mut t) if provisional => {
                if let Err(e) = t.respond_provisional(&mut response).await {
                    call_err = Some(e.to_string());
                }
                Tsx::Inv(t)
            }
            Tsx::Non(mut t) if provisional => {
                if let Err(e) = t.respond_provisional(&mut response).await {
                    call_err = Some(e.to_string());
                }
                Tsx::Non(t)
            }
            Tsx::Inv(t) if (200..300).contains(code) => {
                match t.respond_success(response).await {
                    // the TU keeps the Accepted state for the rest of the case
                    Ok(accepted) => accepted_state = Some(accepted),
                    Err(e) => call_err = Some(e.to_string()),
                }
                Tsx::Done
            }
            Tsx::Inv(t) => {
                // returns only after the ACK / timeout: run it as the TU's task
                tokio::spawn(async move {
                    let _ = t.respond_failure(response).await;
                });
                Tsx::Done
            }
            Tsx::Non(t) => {
                if let Err(e) = t.respond(response).await {
                    call_err = Some(e.to_string());
                }
                Tsx::Done
            }
            Tsx::Done => Tsx::Done,
        };
        settle().await;
        if case.conn_chunk > 0 {
            // the TU task that sends an INVITE failure response needs up to one poll per piece and one per
            // full-buffer report (tokio's cooperative budget also makes a task yield after 128 write calls):
            // give it the polls a message of that size can need (fixed bound)
            let polls = 2 * (case.request_bytes().len() + body_len + 1024) / case.conn_chunk as usize;
            let mut rounds = polls / 40 + 2;
            while log.len() == before && rounds > 0 {
                settle().await;
                rounds -= 1;
            }
        }
        let msgs: Vec<Sent> = log.snapshot().into_iter().skip(before).collect();
        obs.resp.push(RespObs {
            code: *code,
            supplied: reason.clone(),
            msgs,
            call_err,
            body_len,
        });
    }
    drop(req);
    // a transaction that only saw provisional responses stays alive as well
    match (tsx, accepted_state) {
        (_, Some(a)) => Kept::Accepted(a),
        (Tsx::Inv(t), _) => Kept::Inv(t),
        (Tsx::Non(t), _) => Kept::Non(t),
        (Tsx::Done, _) => Kept::Nothing,
    }
}

/// the retransmissions that precede the TU's first response
async fn run_early(endpoint: &sip_core::Endpoint, tp: &TpHandle, case: &Case, bytes: &[u8], log: &WireLog, obs: &mut Observed) {
    let before = log.len();
    for e in &case.early {
        if let Ev::Retx(s) = e {
            inject(endpoint, tp, case.retx_source(s), bytes);
            settle().await;
        }
    }
    obs.before_first = log.snapshot().into_iter().skip(before).collect();
}

/// `tp` = the datagram transport the request arrived on (None: connection transports, no `Retx` / `Advance`)
async fn run_history(
    endpoint: &sip_core::Endpoint,
    tp: Option<&TpHandle>,
    case: &Case,
    bytes: &[u8],
    clock: Clock,
    log: &WireLog,
    kept: &mut Kept,
    obs: &mut Observed,
) {
    for (i, e) in case.history.iter().enumerate() {
        let before = log.len();
        match e {
            Ev::Retx(s) => {
                if let Some(tp) = tp {
                    inject(endpoint, tp, case.retx_source(s), bytes);
                }
            }
            Ev::Advance(ms) => {
                if tp.is_some() {
                    clock.advance(*ms as u64).await;
                }
            }
            Ev::TuRetransmit => {
                if let Kept::Accepted(a) = kept {
                    obs.tu_retransmits += 1;
                    if let Err(e) = a.retransmit().await {
                        obs.tu_retransmit_errors.push(e.to_string());
                    }
                }
            }
        }
        settle().await;
        obs.late.extend(log.snapshot().into_iter().skip(before).map(|s| (i, s)));
    }
}

/// what the peer read on `conn` behind the last complete message
fn conn_tail(conn: &crate::world::stream::PeerConn, log: &WireLog) -> Vec<u8> {
    let framed: usize = log.snapshot().iter().filter(|s| s.tp == conn.id).map(|s| s.bytes.len()).sum();
    let got = conn.received.lock();
    got.iter().skip(framed).take(120).copied().collect()
}

pub fn run(case: &Case) -> Observed {
    let case = case.clone();
    run_world(case.rng as u64, |clock| async move {
        let mut obs = Observed::default();
        let log = WireLog::new(clock);
        let rec = Recorder::new(clock);
        let (tx, mut rx) = mpsc::unbounded_channel();
        let mut b = offline_builder();
        b.add_layer(ChannelLayer { rec: rec.clone(), tx });
        let source = case.source();
        let v4 = source.is_ipv4();
        let local = if v4 { "10.0.0.1:5060" } else { "[fd00::1]:5060" };
        let bytes = case.request_bytes();

        match case.tp {
            Tp::Datagram => {
                let (locals, arrive) = case.resolved_locals();
                let mut handles = vec![];
                for l in &locals {
                    let (tp, id) = mock_datagram(&log, l.name, l.secure, false, &l.bound.to_string());
                    b.add_unmanaged_transport(tp.clone());
                    handles.push((tp, id));
                }
                let (tp, id) = handles[arrive].clone();
                let endpoint = b.build();
                obs.tp_id = id;
                obs.arrival_bound = Some(locals[arrive].bound);
                obs.n_locals = locals.len();
                obs.inject = format!("{:?}", inject(&endpoint, &tp, source, &bytes));
                settle().await;
                if let Ok(req) = rx.try_recv() {
                    obs.delivered = true;
                    run_early(&endpoint, &tp, &case, &bytes, &log, &mut obs).await;
                    let mut kept = answer(&endpoint, req, &case, &log, &mut obs).await;
                    run_history(&endpoint, Some(&tp), &case, &bytes, clock, &log, &mut kept, &mut obs).await;
                }
                settle().await;
            }
            Tp::Inbound { secure } => {
                // a datagram transport and both factories exist as well: none of them may be used
                let (udp, _) = mock_datagram(&log, "UDP", false, false, local);
                b.add_unmanaged_transport(udp);
                let (f_tcp, p_tcp) = mock_factory::<false>(clock, &log);
                let (f_tls, p_tls) = mock_factory::<true>(clock, &log);
                b.add_transport_factory(Arc::new(f_tcp));
                b.add_transport_factory(Arc::new(f_tls));
                let src_text = source.to_string();
                let mut conn = if secure {
                    let (lb, dialer) = mock_listener::<true>(clock, &log, local);
                    if let Err(e) = lb.spawn(&mut b, local).await {
                        obs.setup_error = Some(e.to_string());
                    }
                    dialer.dial(&src_text)
                } else {
                    let (lb, dialer) = mock_listener::<false>(clock, &log, local);
                    if let Err(e) = lb.spawn(&mut b, local).await {
                        obs.setup_error = Some(e.to_string());
                    }
                    dialer.dial(&src_text)
                };
                conn.write_chunk.store(case.conn_chunk as u32, std::sync::atomic::Ordering::SeqCst);
                conn.write_stall.store(case.conn_stall, std::sync::atomic::Ordering::SeqCst);
                let endpoint = b.build();
                settle().await;
                obs.tp_id = conn.id;
                obs.inject = format!("written={}", conn.write(&bytes).await);
                settle().await;
                if let Ok(req) = rx.try_recv() {
                    obs.delivered = true;
                    let mut kept = answer(&endpoint, req, &case, &log, &mut obs).await;
                    run_history(&endpoint, None, &case, &bytes, clock, &log, &mut kept, &mut obs).await;
                }
                settle().await;
                obs.conn_received = conn.received_len();
                obs.conn_tail = conn_tail(&conn, &log);
                obs.connects = p_tcp.connects.lock().len() + p_tls.connects.lock().len();
            }
            Tp::Outbound { secure } => {
                // only the factory of the wanted kind: ezk connects to `source`, the peer then sends its
                // request on that connection
                let probe = if secure {
                    let (f, p) = mock_factory::<true>(clock, &log);
                    b.add_transport_factory(Arc::new(f));
                    p
                } else {
                    let (f, p) = mock_factory::<false>(clock, &log);
                    b.add_transport_factory(Arc::new(f));
                    p
                };
                // the connection ezk is about to open takes its very first message (the set-up request) in pieces already
                probe.write_chunk.store(case.conn_chunk as u32, std::sync::atomic::Ordering::SeqCst);
                probe.write_stall.store(case.conn_stall, std::sync::atomic::Ordering::SeqCst);
                let endpoint = b.build();
                let uri_text = format!("sip:peer@{source};transport={}", if secure { "tls" } else { "tcp" });
                let uri: SipUri = match uri_text.parse() {
                    Ok(u) => u,
                    Err(_) => {
                        obs.setup_error = Some(format!("cannot build uri {uri_text}"));
                        return obs;
                    }
                };
                let mut out_req = Request::new(Method::OPTIONS, uri);
                out_req.headers.insert(Name::FROM, "<sip:uas@10.0.0.1>;tag=setup");
                out_req.headers.insert(Name::TO, "<sip:peer@example.com>");
                out_req.headers.insert(Name::CALL_ID, "c09-setup");
                out_req.headers.insert(Name::CSEQ, "1 OPTIONS");
                out_req.headers.insert(Name::MAX_FORWARDS, "70");
                let mut target = TargetTransportInfo::default();
                let client = match endpoint.send_request(out_req, &mut target).await {
                    Ok(c) => c,
                    Err(e) => {
                        obs.setup_error = Some(format!("outbound setup failed: {e}"));
                        return obs;
                    }
                };
                settle().await;
                if probe.conns.lock().is_empty() {
                    obs.setup_error = Some("no outbound connection created".into());
                    return obs;
                }
                let mut conn = probe.conns.lock().remove(0);
                if conn.peer_addr != source {
                    obs.setup_error = Some(format!("connected to {} instead of {source}", conn.peer_addr));
                }
                obs.tp_id = conn.id;
                obs.inject = format!("written={}", conn.write(&bytes).await);
                settle().await;
                if let Ok(req) = rx.try_recv() {
                    obs.delivered = true;
                    let mut kept = answer(&endpoint, req, &case, &log, &mut obs).await;
                    run_history(&endpoint, None, &case, &bytes, clock, &log, &mut kept, &mut obs).await;
                }
                settle().await;
                obs.conn_received = conn.received_len();
                obs.conn_tail = conn_tail(&conn, &log);
                obs.connects = probe.connects.lock().len();
                drop(client);
                drop(target);
            }
        }
        obs.all = log.snapshot();
        obs
    })
}

// ------------------------------------------------------------------------------------------------
// oracle

fn unq(s: &str) -> String {
    rs::unquote(s).unwrap_or_else(|| s.trim().to_string())
}

/// parameter value as written in the request vs as written in the response
fn val_equiv(gen: &Option<String>, got: &Option<String>) -> bool {
    match (gen, got) {
        (None, None) => true,
        (Some(a), Some(b)) => {
            if a == b {
                return true;
            }
            // harmless re-quoting: the same content, and the content is a token
            let (ca, cb) = (unq(a), unq(b));
            ca == cb && rs::is_token(&ca)
        }
        _ => false,
    }
}

/// narrow signature for a mirrored parameter that came back changed
fn param_sig(generic: &str, gen: &Option<String>) -> String {
    match gen {
        Some(v) if rs::unquote(v).map_or(false, |c| !rs::is_token(&c)) => "c09.mirror/quoted-string-param-rewritten".to_string(),
        Some(v) if v.contains('%') => "c09.mirror/percent-in-param-decoded".to_string(),
        _ => generic.to_string(),
    }
}

fn cmp_params(
    what: &str,
    generic_sig: &str,
    gen: &[(String, Option<String>)],
    got: &[(String, Option<String>)],
    out: &mut CaseOut,
) {
    if gen.len() != got.len() {
        // find a reason among the generated values for a narrower signature
        let special = gen.iter().find(|(_, v)| param_sig("", v) != "");
        let sig = special.map(|(_, v)| param_sig("", v)).unwrap_or_else(|| generic_sig.to_string());
        out.fail(sig, format!("{what}: {} parameters in the request, {} in the response: {gen:?} vs {got:?}", gen.len(), got.len()));
        return;
    }
    for ((gn, gv), (on, ov)) in gen.iter().zip(got.iter()) {
        if !gn.eq_ignore_ascii_case(on) {
            out.fail(generic_sig.to_string(), format!("{what}: parameter {gn:?} came back as {on:?} (order/content changed): {gen:?} vs {got:?}"));
        } else if !val_equiv(gv, ov) {
            out.fail(param_sig(generic_sig, gv), format!("{what}: parameter {gn} value {gv:?} came back as {ov:?}"));
        }
    }
}

fn cmp_via_base(idx: usize, spec: &ViaSpec, got: &RefVia, out: &mut CaseOut) {
    if spec.transport != got.transport {
        out.fail("c09.via/transport", format!("Via[{idx}] transport {:?} came back as {:?}", spec.transport, got.transport));
    }
    if !spec.host.reference().same_as(&got.host) {
        out.fail("c09.via/sent-by-host", format!("Via[{idx}] sent-by host {:?} came back as {:?}", spec.host, got.host));
    }
    if spec.port != got.port {
        out.fail("c09.via/sent-by-port", format!("Via[{idx}] sent-by port {:?} came back as {:?}", spec.port, got.port));
    }
}

fn is_name(n: &str, k: &str) -> bool {
    n.eq_ignore_ascii_case(k)
}

fn check_addr(which: &str, spec: &AddrSpec, values: &[&str], out: &mut CaseOut) {
    if values.len() != 1 {
        out.fail(format!("c09.{which}/count"), format!("{} {which} headers in the response", values.len()));
        return;
    }
    let Some(got) = rs::parse_name_addr(values[0]) else {
        out.fail(format!("c09.{which}/unreadable"), format!("cannot read {which}: {:?}", values[0]));
        return;
    };
    let want_display = spec.display.as_ref().map(|(_, d)| d.trim().to_string());
    if want_display != got.display.as_ref().map(|d| d.trim().to_string()) {
        out.fail(
            format!("c09.{which}/display-name"),
            format!("{which} display name {want_display:?} came back as {:?} ({:?})", got.display, values[0]),
        );
    }
    if spec.uri_text() != got.uri {
        out.fail(format!("c09.{which}/uri"), format!("{which} URI {:?} came back as {:?}", spec.uri_text(), got.uri));
    }
    let gen_params = spec.header_params();
    let gen_tag: Vec<&Option<String>> = gen_params.iter().filter(|(n, _)| is_name(n, "tag")).map(|(_, v)| v).collect();
    let got_tag: Vec<&Option<String>> = got.params.iter().filter(|(n, _)| is_name(n, "tag")).map(|(_, v)| v).collect();
    if gen_tag.len() != got_tag.len() || gen_tag.iter().zip(got_tag.iter()).any(|(a, b)| a != b) {
        let sig = gen_tag.first().map(|v| param_sig(&format!("c09.{which}/tag"), v)).unwrap_or_else(|| format!("c09.{which}/tag"));
        out.fail(sig, format!("{which} tag {gen_tag:?} came back as {got_tag:?}"));
    }
    let g: Vec<(String, Option<String>)> = gen_params.into_iter().filter(|(n, _)| !is_name(n, "tag")).collect();
    let o: Vec<(String, Option<String>)> = got.params.into_iter().filter(|(n, _)| !is_name(n, "tag")).collect();
    cmp_params(which, &format!("c09.{which}/params"), &g, &o, out);
}

/// a failure that involves a known parameter written in another letter case gets its own signature
/// (only when the parameter concerned is present in the request, i.e. is one of those written that way)
fn nc(top: &ViaSpec, sig: &str, param_present: bool) -> String {
    if top.name_case != 0 && param_present {
        "c09.via/known-param-name-case".to_string()
    } else {
        sig.to_string()
    }
}

/// the content of one response message: status line, Via stack, From, To, Call-ID, CSeq, Timestamp
fn check_mirror(case: &Case, r: &RespObs, m: &WireMsg, out: &mut CaseOut) {
    let req = &case.req;
    let source = case.source();
    let top = &req.vias[0];
    let nc = |sig: &str, param_present: bool| -> String { nc(top, sig, param_present) };

    // --- status line
    if !m.start.starts_with("SIP/2.0 ") {
        out.fail("c09.status/version", format!("status line {:?}", m.start));
    }
    if m.status() != Some(r.code) {
        out.fail("c09.status/code", format!("status code {} expected, line {:?}", r.code, m.start));
    }
    let got_reason = m.reason().unwrap_or("");
    match &r.supplied {
        Some(want) => {
            if got_reason != want {
                out.fail("c09.reason/supplied", format!("supplied reason {want:?}, status line {:?}", m.start));
            }
        }
        None => {
            if let Some(std) = rs::rfc3261_reason(r.code) {
                if !std.iter().any(|p| p.eq_ignore_ascii_case(got_reason)) {
                    out.fail("c09.reason/standard", format!("code {} must carry one of {std:?}, status line {:?}", r.code, m.start));
                }
            } else if let Some(ext) = rs::extension_reason(r.code) {
                if got_reason.is_empty() {
                    out.class("extension-code-without-default-phrase");
                } else if !ext.iter().any(|p| p.eq_ignore_ascii_case(got_reason)) {
                    out.fail("c09.reason/extension", format!("code {} registered as {ext:?}, status line {:?}", r.code, m.start));
                }
            }
        }
    }

    // --- Via
    let got_vias = m.list_values("via");
    if got_vias.len() != req.vias.len() {
        let special = req.vias.iter().flat_map(|v| v.pairs()).find(|(_, v)| param_sig("", v) != "");
        let sig = special.map(|(_, v)| param_sig("", &v)).unwrap_or_else(|| "c09.via/count".to_string());
        out.fail(sig, format!("{} Via values in the request, {} in the response: {got_vias:?}", req.vias.len(), got_vias.len()));
    } else {
        for (idx, (spec, text)) in req.vias.iter().zip(got_vias.iter()).enumerate() {
            let Some(got) = rs::parse_via(text) else {
                out.fail("c09.via/unreadable", format!("cannot read Via[{idx}] {text:?}"));
                continue;
            };
            cmp_via_base(idx, spec, &got, out);
            let gen = spec.pairs();
            if idx > 0 {
                cmp_params(&format!("Via[{idx}]"), "c09.via/order-or-content", &gen, &got.params, out);
                continue;
            }
            // top Via: sec. 18.2.1 received, RFC 3581 rport
            let need_received = rs::received_required(&spec.host.reference(), source.ip());
            let gen_nr: Vec<(String, Option<String>)> = gen.iter().filter(|(n, _)| !is_name(n, "received")).cloned().collect();
            let got_nr: Vec<(String, Option<String>)> = got.params.iter().filter(|(n, _)| !is_name(n, "received")).cloned().collect();
            // rport is compared separately
            let strip = |v: &[(String, Option<String>)]| -> Vec<(String, Option<String>)> {
                v.iter()
                    .map(|(n, v)| if is_name(n, "rport") { (n.clone(), None) } else { (n.clone(), v.clone()) })
                    .collect()
            };
            cmp_params("top Via", "c09.via/top-content", &strip(&gen_nr), &strip(&got_nr), out);
            let gen_rport: Vec<&Option<String>> = gen_nr.iter().filter(|(n, _)| is_name(n, "rport")).map(|(_, v)| v).collect();
            let got_rport: Vec<&Option<String>> = got_nr.iter().filter(|(n, _)| is_name(n, "rport")).map(|(_, v)| v).collect();
            if gen_rport.len() == got_rport.len() {
                for (g, o) in gen_rport.iter().zip(got_rport.iter()) {
                    // an empty rport is filled with the source port; one that came with a value: not asserted
                    if g.is_none() && o.as_deref() != Some(source.port().to_string().as_str()) {
                        out.fail(nc("c09.via/rport-not-filled-with-source-port", true), format!("empty rport, source {source}: response carries rport {o:?} ({text:?})"));
                    }
                }
            }
            let gen_recv: Vec<Option<String>> = gen.iter().filter(|(n, _)| is_name(n, "received")).map(|(_, v)| v.clone()).collect();
            let got_recv: Vec<Option<String>> = got.params.iter().filter(|(n, _)| is_name(n, "received")).map(|(_, v)| v.clone()).collect();
            if need_received {
                let ok = got_recv.len() == 1
                    && got_recv[0].as_deref().and_then(rs::parse_ip_lenient) == Some(source.ip());
                if !ok {
                    out.fail(
                        nc("c09.via/received-missing-or-wrong", top.has_received()),
                        format!("sent-by {:?} differs from source {source}: top Via must carry received={} once, response has {got_recv:?} ({text:?})", spec.host, source.ip()),
                    );
                }
            } else if gen_recv != got_recv {
                out.fail(
                    nc("c09.via/received-without-difference", top.has_received()),
                    format!("sent-by equals source {source}: received parameters {gen_recv:?} came back as {got_recv:?} ({text:?})"),
                );
            }
        }
    }

    // --- From / To / Call-ID / CSeq
    check_addr("from", &req.from, &m.headers_named("from"), out);
    check_addr("to", &req.to, &m.headers_named("to"), out);
    let cid = m.headers_named("call-id");
    if cid.len() != 1 || cid[0].trim() != req.call_id {
        out.fail("c09.call-id/changed", format!("Call-ID {:?} came back as {cid:?}", req.call_id));
    }
    let cs = m.headers_named("cseq");
    let cs_ok = cs.len() == 1 && {
        let mut it = cs[0].split_whitespace();
        it.next().and_then(|n| n.parse::<u64>().ok()) == Some(req.cseq as u64) && it.next() == Some(req.method.as_str()) && it.next().is_none()
    };
    if !cs_ok {
        out.fail("c09.cseq/changed", format!("CSeq {} {} came back as {cs:?}", req.cseq, req.method));
    }

    // --- Timestamp (100 only; nothing asserted for other codes)
    if r.code == 100 {
        if let Some(ts) = &req.timestamp {
            let got = m.headers_named("timestamp");
            let ok = got.len() == 1 && (got[0].trim() == ts || (!ts.contains(' ') && got[0].trim().starts_with(&format!("{ts} "))));
            if !ok {
                out.fail("c09.timestamp/not-copied-into-100", format!("Timestamp {ts:?} of the request, 100 response has {got:?}"));
            }
        }
    }

    // --- body: "a Content-Length equal to its body size", the body being the one the TU attached
    // (that the header agrees with the bytes that follow the head is checked for every message on the wire)
    if m.raw_body_len != r.body_len {
        out.fail(
            "c09.wire/body-on-the-wire-is-not-the-body-of-the-response",
            format!("the TU attached a body of {} bytes to response {}, {} bytes follow the head on the wire (Content-Length {:?})", r.body_len, r.code, m.raw_body_len, m.content_length_headers()),
        );
    }
}

/// sec. 18.2.2 / RFC 3581 destination of one transmission of a response over a datagram transport.
///
/// `first` = None: the first transmission of a response, the packet source is the one of the request.
/// `first` = Some(first transmission of that response; None when nothing went out): a further copy (the
/// transaction answered a retransmitted request, a timer fired, the TU retransmitted its 2xx). A maddr wins
/// whatever the packet sources were; without maddr the copy may follow the source of any (re)transmission
/// of the request that was injected. A copy that repeats the destination of the first transmission is not
/// reported again.
fn check_dest(case: &Case, sent: &Sent, first: Option<Option<&Sent>>, out: &mut CaseOut) {
    let top = &case.req.vias[0];
    let source = case.source();
    if !matches!(case.tp, Tp::Datagram) {
        // connection transports: checked per case (same connection, no new connection)
        return;
    }
    let maddr = match top.maddr() {
        None => Maddr::Absent,
        Some((h, bare)) => match (h.ip(), bare) {
            (Some(ip), false) => Maddr::Literal(ip),
            // IPv6 without brackets is not the `host` production: not asserted
            (Some(_), true) => Maddr::HostName,
            (None, _) => Maddr::HostName,
        },
    };
    let sources = if first.is_some() { case.all_sources() } else { vec![source] };
    let mut addrs: Vec<SocketAddr> = vec![];
    for src in &sources {
        match rs::response_destination(maddr, top.port, top.rport().is_some(), *src, top.transport.eq_ignore_ascii_case("TLS")) {
            Destination::NotAsserted => {
                out.class("dest-not-asserted(maddr is not an ip literal)");
                return;
            }
            Destination::OneOf(a) => {
                for x in a {
                    if !addrs.contains(&x) {
                        addrs.push(x);
                    }
                }
            }
        }
    }
    if addrs.contains(&sent.dest) {
        return;
    }
    let present = top.maddr().is_some() || top.rport().is_some();
    match first {
        None => {
            let sig = match maddr {
                Maddr::Literal(IpAddr::V6(_)) => "c09.dest/maddr-ipv6-reference",
                Maddr::Literal(_) => "c09.dest/maddr",
                _ if top.rport().is_some() => "c09.dest/rport",
                _ => "c09.dest/packet-source",
            };
            out.fail(
                nc(top, sig, present),
                format!("top Via {:?}, packet source {source}: response must go to {addrs:?}, went to {}", top.text(), sent.dest),
            );
        }
        Some(f) => {
            if f.map_or(false, |f| f.dest == sent.dest) {
                return;
            }
            let sig = match maddr {
                Maddr::Literal(_) => "c09.retransmit/copy-not-sent-to-maddr",
                _ if top.rport().is_some() => "c09.retransmit/copy-not-sent-to-source-ip-and-rport",
                _ => "c09.retransmit/copy-not-sent-to-packet-source",
            };
            out.fail(
                nc(top, sig, present),
                format!(
                    "top Via {:?}, packet sources of the request and its retransmissions {sources:?}: the first transmission of the response went to {:?}, a later copy of it must go to {addrs:?}, went to {} at {} ms",
                    top.text(),
                    f.map(|f| f.dest),
                    sent.dest,
                    sent.t_ms
                ),
            );
        }
    }
}

/// through which transport a transmission left. `first` as for `check_dest`.
fn check_transport(case: &Case, obs: &Observed, code: u16, sent: &Sent, first: Option<Option<&Sent>>, out: &mut CaseOut) {
    if sent.tp == obs.tp_id {
        return;
    }
    if let Some(f) = first {
        if f.map_or(false, |f| f.tp == sent.tp) {
            // already reported for the first transmission
            return;
        }
    }
    match case.tp {
        Tp::Datagram => {
            let same_family = obs.arrival_bound.map_or(true, |b| b.is_ipv4() == sent.dest.is_ipv4());
            if obs.n_locals > 1 && !same_family {
                // the receiving socket cannot reach that family and the endpoint owns other sockets: the statement is silent
                out.class("transport-not-asserted(destination of the other address family, several sockets)");
                return;
            }
            let sig = if first.is_some() { "c09.retransmit/other-transport" } else { "c09.dest/other-transport" };
            out.fail(
                sig,
                format!(
                    "request arrived on datagram transport {} bound to {:?} ({} registered), response {code} to {} left through transport {}",
                    obs.tp_id, obs.arrival_bound, obs.n_locals, sent.dest, sent.tp
                ),
            );
        }
        _ => {
            let sig = if first.is_some() {
                "c09.retransmit/connection-not-the-one-the-request-arrived-on"
            } else {
                "c09.dest/connection-not-the-one-the-request-arrived-on"
            };
            out.fail(
                sig,
                format!("request arrived on connection {}, response {code} left on transport {} towards {}", obs.tp_id, sent.tp, sent.dest),
            );
        }
    }
}

/// a further copy of response `r` (its first transmission: `first`)
fn check_copy(case: &Case, obs: &Observed, r: &RespObs, first: Option<&Sent>, sent: &Sent, out: &mut CaseOut) {
    check_transport(case, obs, r.code, sent, Some(first), out);
    if first.map_or(true, |f| f.bytes != sent.bytes) {
        // not the bytes that were checked already: the copy has to be a correct response of its own
        match WireMsg::parse(&sent.bytes) {
            None => {} // reported as c09.wire/unreadable-message
            Some(m) => {
                let mut scratch = CaseOut::default();
                check_mirror(case, r, &m, &mut scratch);
                for f in scratch.failures {
                    out.fail(
                        format!("c09.retransmit/copy-differs:{}", f.sig.trim_start_matches("c09.")),
                        format!("a later copy of response {} (at {} ms) is not the response that was sent first: {}", r.code, sent.t_ms, f.msg),
                    );
                }
            }
        }
    }
    check_dest(case, sent, Some(first), out);
}

pub fn check(case: &Case, out: &mut CaseOut) {
    let obs = run(case);
    let req = &case.req;
    let top = &req.vias[0];
    let source = case.source();
    let invite = req.method == "INVITE";

    // --- classes
    out.class(match case.tp {
        Tp::Datagram => "tp:datagram",
        Tp::Inbound { secure: false } => "tp:inbound-tcp",
        Tp::Inbound { secure: true } => "tp:inbound-tls",
        Tp::Outbound { secure: false } => "tp:outbound-tcp",
        Tp::Outbound { secure: true } => "tp:outbound-tls",
    });
    out.class(if invite { "invite" } else { "non-invite" });
    out.class(match req.vias.len() {
        1 => "vias:1",
        2 => "vias:2",
        3 => "vias:3",
        4 => "vias:4",
        _ => "vias:5",
    });
    out.class(match (&top.host, top.port.is_some()) {
        (H::V4(_), true) => "sent-by:ipv4+port",
        (H::V4(_), false) => "sent-by:ipv4",
        (H::V6(_), true) => "sent-by:ipv6+port",
        (H::V6(_), false) => "sent-by:ipv6",
        (H::Name(_), true) => "sent-by:name+port",
        (H::Name(_), false) => "sent-by:name",
    });
    let differs = rs::received_required(&top.host.reference(), source.ip());
    out.class(match (differs, source.is_ipv4()) {
        (true, true) => "source:v4 != sent-by",
        (true, false) => "source:v6 != sent-by",
        (false, true) => "source:v4 == sent-by",
        (false, false) => "source:v6 == sent-by",
    });
    match top.maddr() {
        None => {}
        Some((H::V4(_), _)) => out.class("maddr:ipv4"),
        Some((H::V6(_), false)) => out.class("maddr:ipv6-reference"),
        Some((H::V6(_), true)) => out.class("maddr:ipv6-without-brackets(not asserted)"),
        Some((H::Name(_), _)) => out.class("maddr:host-name(not asserted)"),
    }
    match top.rport() {
        None => {}
        Some(None) => out.class("rport:empty"),
        Some(Some(_)) => out.class("rport:with-value"),
    }
    if top.has_received() {
        out.class("received:already-in-request");
    }
    if top.params.iter().any(|p| matches!(p, VP::Ttl(_))) {
        out.class("ttl");
    }
    if req.vias.iter().any(|v| v.params.iter().any(|p| matches!(p, VP::Ext(_, PVal::None)))) {
        out.class("ext-param:no-value");
    }
    if req.vias.iter().any(|v| v.params.iter().any(|p| matches!(p, VP::Ext(_, PVal::Token(_))))) {
        out.class("ext-param:token");
    }
    if req.vias.iter().any(|v| v.params.iter().any(|p| matches!(p, VP::Ext(_, PVal::Quoted(_))))) {
        out.class("ext-param:quoted-string");
    }
    if top.name_case != 0 {
        out.class("known-param-name-in-other-letter-case");
    }
    if case.excluded.iter().any(|e| e == "quoted-string-param") {
        out.class("excluded-by-construction(open finding): quoted-string param with non-token content");
    }
    if case.excluded.iter().any(|e| e == "percent-in-param") {
        out.class("excluded-by-construction(open finding): % inside a token param value");
    }
    if req.vias.iter().any(|v| v.params.iter().any(|p| matches!(p, VP::Ext(_, PVal::Quoted(q)) if !rs::is_token(q)))) {
        out.class("ext-param:quoted-string-with-non-token-content");
    }
    if req.vias.iter().any(|v| v.lws != 0) {
        out.class("via:optional-white-space");
    }
    if req.vias.iter().any(|v| v.pairs().iter().any(|(_, v)| v.as_deref().map_or(false, |v| v.contains('%')))) {
        out.class("via:percent-in-param");
    }
    match req.via_layout {
        1 if req.vias.len() > 1 => out.class("via-layout:comma-list"),
        2 if req.vias.len() > 2 => out.class("via-layout:mixed"),
        _ => {}
    }
    if req.compact {
        out.class("compact-header-names");
    }
    for a in [&req.from, &req.to] {
        match &a.display {
            None => {}
            Some((false, _)) => out.class("display:token"),
            Some((true, _)) => out.class("display:quoted"),
        }
        if !a.angle {
            out.class("from-to:addr-spec-without-brackets");
        }
        if !a.params.is_empty() {
            out.class("from-to:extra-params");
        }
    }
    if req.timestamp.is_some() && case.responses.iter().any(|(c, _)| *c == 100) {
        out.class("timestamp+100");
    }
    if req.timestamp.is_some() && case.responses.iter().any(|(c, _)| *c != 100) {
        out.class("timestamp+other-code");
    }
    for (c, reason) in &case.responses {
        out.class(match c / 100 {
            1 => "code:1xx",
            2 => "code:2xx",
            3 => "code:3xx",
            4 => "code:4xx",
            5 => "code:5xx",
            _ => "code:6xx",
        });
        let std = rs::rfc3261_reason(*c).is_some();
        out.class(match (std, reason.is_some()) {
            (true, false) => "reason:standard-phrase-expected",
            (true, true) => "reason:supplied(code has a standard phrase)",
            (false, true) => "reason:supplied(code without standard phrase)",
            (false, false) => "reason:none(code without standard phrase)",
        });
    }

    if matches!(case.tp, Tp::Datagram) {
        let (locals, arrive) = case.resolved_locals();
        out.class(match (case.locals.is_empty(), locals.len()) {
            (true, _) => "sockets:single UDP (as before)",
            (false, 1) => "sockets:1",
            (false, 2) => "sockets:2",
            _ => "sockets:3-4",
        });
        let me = &locals[arrive];
        let twin = |l: &LocalAddr| l.name == me.name && l.bound.is_ipv4() == me.bound.is_ipv4();
        if locals.len() > 1 {
            out.class(if locals[..arrive].iter().any(|l| twin(l)) {
                "sockets:request arrives on a later socket of its name and family"
            } else if locals[arrive + 1..].iter().any(|l| twin(l)) {
                "sockets:request arrives on the first socket of its name and family"
            } else {
                "sockets:request arrives on the only socket of its name and family"
            });
        }
        if locals.iter().any(|l| l.name != me.name) {
            out.class("sockets:another datagram transport kind registered");
        }
        if locals.iter().any(|l| l.bound.is_ipv4() != me.bound.is_ipv4()) {
            out.class("sockets:other address family registered");
        }
        if locals.iter().enumerate().any(|(i, l)| i != arrive && l.bound.ip() != me.bound.ip() && twin(l)) {
            out.class("sockets:same kind on another local ip");
        }
    }
    for e in &case.early {
        if let Ev::Retx(_) = e {
            out.class("history:request retransmitted before the first response");
        }
    }
    for e in &case.history {
        out.class(match e {
            Ev::Retx(RSrc::Same) => "history:request retransmitted after the last response (same source)",
            Ev::Retx(RSrc::OtherPort(_)) => "history:request retransmitted after the last response (other source port)",
            Ev::Retx(RSrc::OtherIp { .. }) => "history:request retransmitted after the last response (other source ip)",
            Ev::Advance(_) => "history:time passes",
            Ev::TuRetransmit => "history:TU asked to retransmit",
        });
    }
    if obs.tu_retransmits > 0 {
        out.class("history:Accepted::retransmit called");
    }
    for r in &obs.resp {
        out.class(match r.body_len {
            0 => "response-body:none",
            1..=300 => "response-body:1-300 bytes",
            301..=3000 => "response-body:301-3000 bytes",
            _ => "response-body:3001-20000 bytes",
        });
    }
    if !matches!(case.tp, Tp::Datagram) {
        if case.conn_chunk == 0 {
            out.class("conn-write:every write call taken whole (as before)");
        } else {
            let chunk = case.conn_chunk as usize;
            for r in &obs.resp {
                // observed size of the message; nothing on the wire = no label
                if let Some(first) = r.msgs.first() {
                    let pieces = (first.bytes.len() + chunk - 1) / chunk;
                    out.class(match pieces {
                        0 | 1 => "conn-write:limit >= message (one write call)",
                        2..=4 => "conn-write:response taken in 2-4 pieces",
                        5..=32 => "conn-write:response taken in 5-32 pieces",
                        _ => "conn-write:response taken in more than 32 pieces",
                    });
                    if pieces > 1 && case.conn_stall {
                        out.class("conn-write:buffer reported full between the pieces (Pending)");
                    }
                    if pieces > 1 && r.body_len > 0 {
                        out.class("conn-write:response with body taken in pieces");
                    }
                }
            }
        }
    }

    // --- delivery
    if let Some(e) = &obs.setup_error {
        out.fail("c09.harness/setup", e.clone());
        return;
    }
    if !obs.delivered {
        out.fail(
            "c09.deliver/request-not-shown-to-layer",
            format!("request was not delivered to the layer (inject: {}): {:?}", obs.inject, String::from_utf8_lossy(&case.request_bytes())),
        );
        return;
    }

    // --- every message on the wire: one Content-Length, equal to the body size
    let mut stream_bytes = 0usize;
    for s in &obs.all {
        if s.tp == obs.tp_id && !matches!(case.tp, Tp::Datagram) {
            stream_bytes += s.bytes.len();
        }
        match WireMsg::parse(&s.bytes) {
            None => out.fail("c09.wire/unreadable-message", format!("cannot read outgoing message {:?}", String::from_utf8_lossy(&s.bytes))),
            Some(m) => {
                let cl = m.content_length_headers();
                if cl.len() != 1 {
                    out.fail("c09.wire/content-length-count", format!("{} Content-Length headers in {:?}", cl.len(), m.start));
                } else if cl[0].trim().parse::<usize>().ok() != Some(m.raw_body_len) {
                    out.fail("c09.wire/content-length-value", format!("Content-Length {:?}, body of {} bytes in {:?}", cl[0], m.raw_body_len, m.start));
                }
            }
        }
    }
    // a connection is a byte stream: the peer finds the end of a message by its Content-Length, so everything it
    // read must be complete messages (head + as many body bytes as the head announces), nothing more, nothing less
    let unframed = !matches!(case.tp, Tp::Datagram) && stream_bytes != obs.conn_received;
    if unframed {
        out.fail(
            "c09.wire/stream-not-framed-by-content-length",
            format!(
                "peer read {} bytes on the connection (each write call taken for at most {} bytes; 0 = whole), complete messages (head + Content-Length body bytes) account for {stream_bytes}; behind the last complete message it read {:?}",
                obs.conn_received,
                case.conn_chunk,
                String::from_utf8_lossy(&obs.conn_tail)
            ),
        );
    }

    // --- responses
    let mut notes = vec![];
    for r in &obs.resp {
        if let Some(e) = &r.call_err {
            out.fail("c09.send/error", format!("sending {} failed: {e}", r.code));
        }
        // a retransmission of the request that arrived before the TU answered may be answered as soon as
        // there is a response: one transmission, plus at most one copy per such retransmission
        let allowed = 1 + case.early.iter().filter(|e| matches!(e, Ev::Retx(_))).count();
        if r.msgs.is_empty() && unframed {
            // the response is among the bytes that do not form a complete message: reported above
        } else if r.msgs.is_empty() || r.msgs.len() > allowed {
            out.fail(
                "c09.send/count",
                format!("response {} produced {} messages on the wire right away (1..={allowed} expected)", r.code, r.msgs.len()),
            );
        }
        for (k, sent) in r.msgs.iter().enumerate() {
            if k > 0 {
                out.class("copy:sent-with-the-response(request was retransmitted before the first response)");
                check_copy(case, &obs, r, r.msgs.first(), sent, out);
                continue;
            }
            check_transport(case, &obs, r.code, sent, None, out);
            if let Some(m) = WireMsg::parse(&sent.bytes) {
                notes.push(format!("->{} {} | {}", sent.dest, m.start, m.list_values("via").first().cloned().unwrap_or_default()));
                check_mirror(case, r, &m, out);
                check_dest(case, sent, None, out);
            }
        }
    }
    // --- what left after the last response: copies of that response
    if let Some(last) = obs.resp.last() {
        let maddr_route = matches!(top.maddr(), Some((h, false)) if h.ip().is_some()) && matches!(case.tp, Tp::Datagram);
        for (i, sent) in &obs.late {
            out.class(match &case.history[*i] {
                Ev::Retx(RSrc::Same) => "copy:answers-retransmitted-request(same source)",
                Ev::Retx(RSrc::OtherPort(_)) => "copy:answers-retransmitted-request(other source port)",
                Ev::Retx(RSrc::OtherIp { .. }) => "copy:answers-retransmitted-request(other source ip)",
                Ev::Advance(_) => "copy:timer-driven",
                Ev::TuRetransmit => "copy:2xx-retransmitted-by-the-TU",
            });
            if maddr_route {
                out.class("copy:of-a-response-routed-by-maddr");
            } else if top.rport().is_some() {
                out.class("copy:of-a-response-routed-by-rport");
            }
            if obs.n_locals > 1 {
                out.class("copy:endpoint-with-several-sockets");
            }
            notes.push(format!("copy@{}ms ->{}", sent.t_ms, sent.dest));
            check_copy(case, &obs, last, last.msgs.first(), sent, out);
        }
    }
    for e in &obs.tu_retransmit_errors {
        out.fail("c09.retransmit/tu-retransmit-error", format!("Accepted::retransmit failed: {e}"));
    }
    if !obs.before_first.is_empty() {
        // nothing is asserted about messages that precede the TU's first response (Content-Length above)
        out.class("message-sent-before-the-first-response-of-the-TU(not asserted)");
    }
    let want_connects = match case.tp {
        Tp::Outbound { .. } => 1,
        _ => 0,
    };
    if obs.connects != want_connects {
        out.fail("c09.dest/new-connection-opened", format!("{} connect calls, expected {want_connects}", obs.connects));
    }
    if obs.resp.len() != case.responses.len() {
        out.fail("c09.harness/responses", "not every response was attempted");
    }
    out.note = Some(format!("source={source} {}", notes.join(" || ")));

    // --- non-triviality
    let special = top.maddr().is_some() || top.rport().is_some() || top.has_received();
    let eventful = !obs.late.is_empty() || obs.resp.iter().any(|r| r.msgs.len() > 1);
    if req.vias.len() >= 2 || special || differs || !matches!(case.tp, Tp::Datagram) || obs.n_locals > 1 || eventful {
        out.nontrivial(case);
    }
}

pub fn property() -> Property {
    Property {
        fuzz: vec![],
        id: "C09",
        rule: "case = request (INVITE or one of 9 other methods, never ACK; 1..5 Via values with transport token, sent-by IPv4/IPv6-reference/host name with or without port, parameters maddr (IPv4, IPv6 reference, host name) / rport (empty, with value) / received / ttl / branch / extension parameters (no value, token, quoted-string) in shuffled order, optional white space, one-per-line or comma-list layout, compact names; From/To with token or quoted display names, addr-spec or name-addr form, tag and extra parameters; Call-ID, CSeq, optional Timestamp, optional body) x packet source (IPv4/IPv6, equal to or different from the sent-by host, any port) x transport (datagram mock, inbound/outbound TCP and TLS mock connections) x 1..3 responses (provisionals then any code of 100..=699, with or without caller-supplied reason) produced by Endpoint::create_response and sent through the server transaction x datagram sockets of the endpoint (the single UDP socket, or 1..4 transports named UDP/DTLS on IPv4/IPv6 addresses with distinct ports in any registration order, the request arriving on any of them) x history (0..2 retransmissions of the request before the TU's first response; after the last response 0..4 events of: request retransmitted from the same source / another port / another ip, 1..2600 ms of virtual time, TU retransmits its 2xx; connection transports: TU retransmission only) x body the TU attaches to each response (none, 1..20000 bytes) x connection transports: how ezk's end of the connection takes a write call (whole, or at most 1..8192 bytes per call so that a message needs 2..thousands of calls, optionally reporting a full buffer (Pending) before each piece). Non-trivial = at least 2 Via values, or maddr/rport/received in the top Via, or sent-by host != packet source, or a connection transport, or an endpoint with several datagram sockets, or at least one further copy of a response observed on the wire; distinct by hash of the case.",
        assumptions: vec![
            "display names are qdtext / tokens, From/To URIs carry none of the components RFC 3261 Table 1 excludes there (port, maddr/ttl/transport/lr/method, headers)",
            "host names are never dotted quads; IPv4-mapped IPv6 addresses are not generated",
            "not asserted: destination for a maddr that is not an IP literal (host name, IPv6 without brackets), value of an rport that arrived non-empty, Timestamp in responses other than 100, reason text for codes outside RFC 3261 when none is supplied, choice between 5060 and 5061 for a maddr without sent-by port under a Via transport token TLS",
            "excluded from generation by construction and counted in the class histogram (open findings, replay files exist): quoted-string parameter values whose content is not a token; '%' inside token parameter values (branch, tag, extension parameters)",
            "datagram sockets: the bound addresses of one endpoint are pairwise distinct; the request and all its retransmissions arrive on the same socket, whose address family is that of the packet source; the response must leave through that socket, except that nothing is asserted when its destination is of the other address family and the endpoint owns further sockets",
            "history: retransmissions are byte-identical to the request; the virtual time of one case stays below 11 s (a server transaction lives 32 s); every message that leaves after the first transmission of a response is held to be a copy of that response: one whose bytes equal the first transmission is only checked for transport and destination, any other also for its content (signatures c09.retransmit/copy-differs:*); destination of a copy = the sec. 18.2.2 table evaluated for the packet source of ANY injected (re)transmission of the request (a maddr literal therefore admits one address only); a copy that repeats a wrong destination/transport of the first transmission is reported once (c09.dest/*), not twice",
            "not asserted: whether, when and how often copies of a response are sent (C06), messages sent before the TU's first response, the number of copies sent together with a response beyond 'at most one per retransmission that arrived before it'",
            "connection transports: 'same connection' is observed as the peer end of the mock connection the request was written to receiving the response, and the mock factories counting no further connect call",
            "connection transports: a write call that is accepted for fewer bytes than offered, and a full-buffer report (Pending, woken at once) between two write calls, are what tokio's AsyncWrite contract allows a stream to do; the connection never fails, never closes and always takes at least one byte. The peer frames the stream by Content-Length alone: every byte it read must belong to a complete message (c09.wire/stream-not-framed-by-content-length otherwise; a response that is missing for that reason is not reported a second time as c09.send/count)",
            "response bodies: the body is attached by the TU (OutgoingResponse::msg.body, plus a Content-Type header) before the response is given to the transaction; asserted: exactly one Content-Length, its value = number of bytes that follow the head = length of the attached body; the bytes of the body are not compared",
        ],
        explanation: "status-codes: all 600 codes x {default, supplied reason} x {INVITE, non-INVITE} enumerated on a fixed two-Via request; routing-grid: the full product transport kind(5) x sent-by kind(3) x port(2) x source relation(3) x maddr kind(4) x rport kind(3) x received(2) x Via count(3) enumerated; sockets: 6 socket layouts (ports only / several local ips / both families / two transport kinds) x arrival socket x maddr kind(3) x rport(2) x source family(2) x INVITE/non-INVITE x (no | one) retransmission enumerated; retransmissions: INVITE/non-INVITE x final 200/486 x maddr kind(4) x rport(2) x sent-by port(2) x source relation(3) x one/two sockets x 9 history shapes (request retransmitted once/twice, from another port, from another ip, timer G only, mixed, before the first response, TU retransmission) enumerated; connection-writes: connection kind(4: inbound/outbound x TCP/TLS) x bytes taken per write call(7: 1, 3, 16, 100, 256, 1000, 4096) x full-buffer report between the pieces(2) x body of the final response(3: none, 40, 6000 bytes) x answer shape(4: non-INVITE 200 / 100+404 with reason, INVITE 180+200+TU retransmission / 100+486) enumerated; random: sampled requests with arbitrary parameters, layouts, sources, codes, reasons, socket sets, histories, response bodies and connection write behaviours",
        subs: vec![
            enum_sub("status-codes", status_cases, check),
            enum_sub("routing-grid", grid_cases, check),
            enum_sub("sockets", socket_cases, check),
            enum_sub("retransmissions", retransmission_cases, check),
            enum_sub("connection-writes", connection_write_cases, check),
            prop_sub("random", strategy, 1500, 50000, check),
        ],
    }
}

#[cfg(test)]
mod dev {
    use super::*;
    use std::collections::BTreeMap;

    /// writes hand-minimised replay files for the two open findings into $C09_FINDINGS_DIR
    #[test]
    fn write_open_finding_replays() {
        let Ok(dir) = std::env::var("C09_FINDINGS_DIR") else { return };
        let mk = |vias: Vec<ViaSpec>| Case {
            req: simple_req(false, vias),
            src_same: true,
            src_alt: H::V4([192, 0, 2, 9]),
            src_port: 5062,
            tp: Tp::Datagram,
            responses: vec![(200, None)],
            rng: 0,
            excluded: vec![],
            locals: vec![],
            arrive_on: 0,
            early: vec![],
            history: vec![],
            conn_chunk: 0,
            conn_stall: false,
            resp_bodies: vec![],
        };
        let percent = mk(vec![simple_via(H::V4([192, 0, 2, 9]), Some(5062), vec![VP::Branch("z9hG4bKab%41cd".into())])]);
        let quoted = mk(vec![
            simple_via(H::V4([192, 0, 2, 9]), Some(5062), vec![VP::Branch("z9hG4bKtop".into())]),
            simple_via(H::V4([192, 0, 2, 1]), None, vec![VP::Branch("z9hG4bKlow".into()), VP::Ext("x-info".into(), PVal::Quoted("a b".into()))]),
        ]);
        for (sig, case) in [("c09.mirror_percent-in-param-decoded", percent), ("c09.mirror_quoted-string-param-rewritten", quoted)] {
            let out = guarded(check, &case);
            let body = serde_json::json!({"property": "C09", "sub": "random", "case": case, "failures": out.failures});
            std::fs::write(format!("{dir}/{sig}.json"), serde_json::to_string_pretty(&body).unwrap()).unwrap();
        }
    }

    /// development aid: histogram of failure signatures over sampled cases (no shrinking)
    #[test]
    fn tally() {
        crate::engine::panic_hook::install(false);
        let n: usize = std::env::var("C09_TALLY").ok().and_then(|s| s.parse().ok()).unwrap_or(3000);
        let cases = sample_strategy(&strategy(), 7, n);
        let mut hist: BTreeMap<String, (usize, String, String)> = BTreeMap::new();
        for c in &cases {
            let out = guarded(check, c);
            for f in out.failures {
                let e = hist.entry(f.sig.clone()).or_insert((0, f.msg.clone(), String::from_utf8_lossy(&c.request_bytes()).to_string()));
                e.0 += 1;
            }
        }
        for (k, (n, m, req)) in hist {
            println!("{n:6} {k}\n        {m}\n        {}", req.replace("\r\n", "\\r\\n"));
        }
    }
}
