//! Thin adapter between the reference data model and the ezk STUN API (the code under test).
//! No expected value is ever computed here: it only drives `MessageBuilder`, `ParsedMessage`
//! and turns what ezk returns into owned `RAttr` values for comparison.

use crate::refmodel::ref_stun::*;
use std::borrow::Cow;
use stun_types::attributes::turn::{
    ChannelNumber, Data, DontFragment, EvenPort, Lifetime, RequestedTransport, ReservationToken, XorPeerAddress,
    XorRelayedAddress,
};
use stun_types::attributes::{
    AlternateDomain, AlternateServer, ErrorCode, Fingerprint, MappedAddress, MessageIntegrity, MessageIntegrityKey,
    MessageIntegritySha256, Nonce, PasswordAlgorithm, PasswordAlgorithms, Realm, Software, UnknownAttributes,
    UserHash, Username, XorMappedAddress,
};
use stun_types::builder::MessageBuilder;
use stun_types::header::{Class, Method};
use stun_types::parse::ParsedMessage;

pub fn ezk_class(c: RClass) -> Class {
    match c {
        RClass::Request => Class::Request,
        RClass::Indication => Class::Indication,
        RClass::Success => Class::Success,
        RClass::Error => Class::Error,
    }
}

pub fn from_ezk_class(c: Class) -> RClass {
    match c {
        Class::Request => RClass::Request,
        Class::Indication => RClass::Indication,
        Class::Success => RClass::Success,
        Class::Error => RClass::Error,
    }
}

pub fn ezk_method(m: u16) -> Option<Method> {
    Some(match m {
        1 => Method::Binding,
        3 => Method::Allocate,
        4 => Method::Refresh,
        6 => Method::Send,
        7 => Method::Data,
        8 => Method::CreatePermission,
        9 => Method::ChannelBind,
        _ => return None,
    })
}

pub fn tid_u128(tid: &[u8; 12]) -> u128 {
    let mut v: u128 = 0;
    for b in tid {
        v = (v << 8) | *b as u128;
    }
    v
}

pub fn ezk_key(k: &RKey) -> MessageIntegrityKey<'_> {
    match k {
        RKey::ShortTerm { password } => MessageIntegrityKey::new_short_term(password),
        RKey::LongTermMd5 { user, realm, password } => MessageIntegrityKey::new_long_term_md5(user, realm, password),
        RKey::LongTermSha256 { user, realm, password } => {
            MessageIntegrityKey::new_long_term_sha256(user, realm, password)
        }
        RKey::Raw(b) => MessageIntegrityKey::new_raw(Cow::Borrowed(&b[..])),
    }
}

fn add(b: &mut MessageBuilder, a: &RAttr) -> Result<(), String> {
    let r = match a {
        RAttr::MappedAddress(x) => b.add_attr(&MappedAddress(x.to_std())),
        RAttr::XorMappedAddress(x) => b.add_attr(&XorMappedAddress(x.to_std())),
        RAttr::AlternateServer(x) => b.add_attr(&AlternateServer(x.to_std())),
        RAttr::XorPeerAddress(x) => b.add_attr(&XorPeerAddress(x.to_std())),
        RAttr::XorRelayedAddress(x) => b.add_attr(&XorRelayedAddress(x.to_std())),
        RAttr::Username(s) => b.add_attr(&Username::new(s)),
        RAttr::Realm(s) => b.add_attr(&Realm::new(s)),
        RAttr::Software(s) => b.add_attr(&Software::new(s)),
        RAttr::Nonce(v) => b.add_attr(&Nonce::new(v)),
        RAttr::Data(v) => b.add_attr(&Data::new(v)),
        RAttr::AlternateDomain(v) => b.add_attr(&AlternateDomain::new(v)),
        RAttr::ErrorCode { code, reason } => b.add_attr(&ErrorCode { number: *code as u32, reason }),
        RAttr::UnknownAttributes(l) => b.add_attr(&UnknownAttributes(l.clone())),
        RAttr::PasswordAlgorithm { alg, params } => b.add_attr(&PasswordAlgorithm { algorithm: *alg, params }),
        RAttr::PasswordAlgorithms(l) => {
            b.add_attr(&PasswordAlgorithms { algorithms: l.iter().map(|(a, p)| (*a, &p[..])).collect() })
        }
        RAttr::UserHash(h) => {
            let mut x = [0u8; 32];
            x.copy_from_slice(h);
            b.add_attr(&UserHash(x))
        }
        RAttr::Lifetime(v) => b.add_attr(&Lifetime(*v)),
        RAttr::ChannelNumber(v) => b.add_attr(&ChannelNumber(*v)),
        RAttr::RequestedTransport(p) => b.add_attr(&RequestedTransport { protocol_number: *p }),
        RAttr::EvenPort(r) => b.add_attr(&EvenPort(*r)),
        RAttr::DontFragment => b.add_attr(&DontFragment),
        RAttr::ReservationToken(t) => {
            let mut x = [0u8; 8];
            x.copy_from_slice(t);
            b.add_attr(&ReservationToken(x))
        }
    };
    r.map_err(|e| format!("add_attr({:#06x}): {e}", a.typ()))
}

/// Build `m` with ezk's `MessageBuilder`.
pub fn build(m: &RMsg, pad_in_len: bool) -> Result<Vec<u8>, String> {
    let method = ezk_method(m.method).ok_or("method not in ezk's enum")?;
    let mut b = MessageBuilder::new(ezk_class(m.class), method, tid_u128(&m.tid));
    b.padding_in_value_len(pad_in_len);
    for a in &m.attrs {
        add(&mut b, a)?;
    }
    for t in &m.tail {
        match t {
            RTail::Integrity(k) => b
                .add_attr_with(&MessageIntegrity::default(), &ezk_key(k))
                .map_err(|e| format!("add MESSAGE-INTEGRITY: {e}"))?,
            RTail::IntegritySha256(k) => b
                .add_attr_with(&MessageIntegritySha256::default(), &ezk_key(k))
                .map_err(|e| format!("add MESSAGE-INTEGRITY-SHA256: {e}"))?,
            RTail::Fingerprint => b.add_attr(&Fingerprint).map_err(|e| format!("add FINGERPRINT: {e}"))?,
        }
    }
    Ok(b.finish())
}

/// What ezk's `get_attr` returns for the attribute type of `like`, as an owned reference value.
/// None: attribute not found.
pub fn read(pm: &mut ParsedMessage, like: &RAttr) -> Option<Result<RAttr, String>> {
    fn cv<T, F: FnOnce(T) -> RAttr>(r: Option<Result<T, stun_types::Error>>, f: F) -> Option<Result<RAttr, String>> {
        r.map(|r| r.map(f).map_err(|e| e.to_string()))
    }
    match like {
        RAttr::MappedAddress(_) => cv(pm.get_attr::<MappedAddress>(), |a| RAttr::MappedAddress(RAddr::from_std(a.0))),
        RAttr::XorMappedAddress(_) => {
            cv(pm.get_attr::<XorMappedAddress>(), |a| RAttr::XorMappedAddress(RAddr::from_std(a.0)))
        }
        RAttr::AlternateServer(_) => {
            cv(pm.get_attr::<AlternateServer>(), |a| RAttr::AlternateServer(RAddr::from_std(a.0)))
        }
        RAttr::XorPeerAddress(_) => cv(pm.get_attr::<XorPeerAddress>(), |a| RAttr::XorPeerAddress(RAddr::from_std(a.0))),
        RAttr::XorRelayedAddress(_) => {
            cv(pm.get_attr::<XorRelayedAddress>(), |a| RAttr::XorRelayedAddress(RAddr::from_std(a.0)))
        }
        RAttr::Username(_) => cv(pm.get_attr::<Username>(), |a| RAttr::Username(a.0.to_string())),
        RAttr::Realm(_) => cv(pm.get_attr::<Realm>(), |a| RAttr::Realm(a.0.to_string())),
        RAttr::Software(_) => cv(pm.get_attr::<Software>(), |a| RAttr::Software(a.0.to_string())),
        RAttr::Nonce(_) => cv(pm.get_attr::<Nonce>(), |a| RAttr::Nonce(a.0.to_vec())),
        RAttr::Data(_) => cv(pm.get_attr::<Data>(), |a| RAttr::Data(a.0.to_vec())),
        RAttr::AlternateDomain(_) => cv(pm.get_attr::<AlternateDomain>(), |a| RAttr::AlternateDomain(a.0.to_vec())),
        RAttr::ErrorCode { .. } => cv(pm.get_attr::<ErrorCode>(), |a| RAttr::ErrorCode {
            code: u16::try_from(a.number).unwrap_or(u16::MAX),
            reason: a.reason.to_string(),
        }),
        RAttr::UnknownAttributes(_) => cv(pm.get_attr::<UnknownAttributes>(), |a| RAttr::UnknownAttributes(a.0)),
        RAttr::PasswordAlgorithm { .. } => cv(pm.get_attr::<PasswordAlgorithm>(), |a| RAttr::PasswordAlgorithm {
            alg: a.algorithm,
            params: a.params.to_vec(),
        }),
        RAttr::PasswordAlgorithms(_) => cv(pm.get_attr::<PasswordAlgorithms>(), |a| {
            RAttr::PasswordAlgorithms(a.algorithms.iter().map(|(x, p)| (*x, p.to_vec())).collect())
        }),
        RAttr::UserHash(_) => cv(pm.get_attr::<UserHash>(), |a| RAttr::UserHash(a.0.to_vec())),
        RAttr::Lifetime(_) => cv(pm.get_attr::<Lifetime>(), |a| RAttr::Lifetime(a.0)),
        RAttr::ChannelNumber(_) => cv(pm.get_attr::<ChannelNumber>(), |a| RAttr::ChannelNumber(a.0)),
        RAttr::RequestedTransport(_) => {
            cv(pm.get_attr::<RequestedTransport>(), |a| RAttr::RequestedTransport(a.protocol_number))
        }
        RAttr::EvenPort(_) => cv(pm.get_attr::<EvenPort>(), |a| RAttr::EvenPort(a.0)),
        RAttr::DontFragment => cv(pm.get_attr::<DontFragment>(), |_| RAttr::DontFragment),
        RAttr::ReservationToken(_) => {
            cv(pm.get_attr::<ReservationToken>(), |a| RAttr::ReservationToken(a.0.to_vec()))
        }
    }
}

/// ezk's verdict on a protection attribute. None: attribute not found / ignored,
/// Some(true): accepted, Some(false): rejected.
pub fn verify(pm: &mut ParsedMessage, t: &RTail) -> Option<bool> {
    match t {
        RTail::Integrity(k) => pm.get_attr_with::<MessageIntegrity>(&ezk_key(k)).map(|r| r.is_ok()),
        RTail::IntegritySha256(k) => pm.get_attr_with::<MessageIntegritySha256>(&ezk_key(k)).map(|r| r.is_ok()),
        RTail::Fingerprint => pm.get_attr::<Fingerprint>().map(|r| r.is_ok()),
    }
}

/// call every decoder ezk has on `pm` (used by the no-panic check); returns how many attribute
/// types were present
pub fn read_everything(pm: &mut ParsedMessage, key: &RKey) -> usize {
    let probes = probes();
    let mut n = 0;
    for p in &probes {
        if read(pm, p).is_some() {
            n += 1;
        }
    }
    for t in [RTail::Integrity(key.clone()), RTail::IntegritySha256(key.clone()), RTail::Fingerprint] {
        if verify(pm, &t).is_some() {
            n += 1;
        }
    }
    n
}

/// one value of every attribute type `read` knows (only the type matters)
pub fn probes() -> Vec<RAttr> {
    vec![
        RAttr::MappedAddress(RAddr::V4 { ip: [0; 4], port: 0 }),
        RAttr::XorMappedAddress(RAddr::V4 { ip: [0; 4], port: 0 }),
        RAttr::AlternateServer(RAddr::V4 { ip: [0; 4], port: 0 }),
        RAttr::XorPeerAddress(RAddr::V4 { ip: [0; 4], port: 0 }),
        RAttr::XorRelayedAddress(RAddr::V4 { ip: [0; 4], port: 0 }),
        RAttr::Username(String::new()),
        RAttr::Realm(String::new()),
        RAttr::Software(String::new()),
        RAttr::Nonce(vec![]),
        RAttr::Data(vec![]),
        RAttr::AlternateDomain(vec![]),
        RAttr::ErrorCode { code: 0, reason: String::new() },
        RAttr::UnknownAttributes(vec![]),
        RAttr::PasswordAlgorithm { alg: 0, params: vec![] },
        RAttr::PasswordAlgorithms(vec![]),
        RAttr::UserHash(vec![]),
        RAttr::Lifetime(0),
        RAttr::ChannelNumber(0),
        RAttr::RequestedTransport(0),
        RAttr::EvenPort(false),
        RAttr::DontFragment,
        RAttr::ReservationToken(vec![]),
    ]
}
