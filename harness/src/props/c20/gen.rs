//! Generators for C20: typed STUN messages (sound: only values the RFC grammar and the ezk API
//! document), byte strings for the parser, SIP text for the demultiplexer.
//!
//! Restrictions of the generator (each one is a statement about the DOMAIN, not the oracle):
//!  * text attributes (USERNAME, REALM, SOFTWARE, ERROR-CODE reason) never contain U+0000
//!    (RFC 8489 text is OpaqueString / quoted-string content; NUL is not a member) — this is what
//!    lets a decoder strip padding that a sender counted into the length;
//!  * UNKNOWN-ATTRIBUTES never lists type 0x0000 (reserved, can never be "an attribute the
//!    server did not understand" that a client then has to tell apart from padding);
//!  * ERROR-CODE is 300..=699 (RFC 8489 §14.8);
//!  * at most one attribute of each type per message (`get_attr` returns the first one;
//!    the RFC leaves duplicates to the receiver);
//!  * everything is far below the 64 kB limit of the 16-bit length field;
//!  * method Binding only in the asserted checks.

use crate::refmodel::ref_stun::*;
use proptest::collection::vec;
use proptest::prelude::*;
use serde::{Deserialize, Serialize};

#[derive(Clone, Debug, PartialEq, Eq, Hash, Serialize, Deserialize)]
pub struct MsgCase {
    pub msg: RMsg,
    /// ezk builder mode: true = attribute length field includes the padding (ezk's default,
    /// non-RFC), false = RFC 8489 length
    pub pad_in_len: bool,
    /// true: before use, a SOFTWARE attribute is appended and varied until the first protection
    /// attribute's value (HMAC / CRC) ends in a zero byte (construction of the 1/256 shape)
    pub grind: bool,
}

// --- addresses -----------------------------------------------------------------------------------

#[derive(Clone, Debug)]
struct AddrSpec {
    v6: bool,
    class_sel: u8,
    raw: [u8; 16],
    port_sel: u8,
    port_raw: u16,
    /// number of trailing bytes of X-Port||X-Address that are forced to encode as 0x00
    zero_tail: u8,
}

fn addr_spec() -> impl Strategy<Value = AddrSpec> {
    (
        any::<bool>(),
        0u8..12,
        any::<[u8; 16]>(),
        0u8..12,
        any::<u16>(),
        prop_oneof![
            6 => Just(0u8),
            2 => Just(1u8),
            1 => Just(2u8),
            1 => Just(3u8),
            1 => Just(4u8),
            1 => Just(5u8),
            1 => Just(6u8),
            1 => Just(18u8),
        ],
    )
        .prop_map(|(v6, class_sel, raw, port_sel, port_raw, zero_tail)| AddrSpec {
            v6,
            class_sel,
            raw,
            port_sel,
            port_raw,
            zero_tail,
        })
}

fn v4_class(sel: u8, r: &[u8; 16]) -> [u8; 4] {
    match sel {
        0 => [0, 0, 0, 0],                           // unspecified
        1 => [127, r[1], r[2], r[3]],                // loopback
        2 => [10, r[1], r[2], r[3]],                 // private
        3 => [172, 16 | (r[1] & 0x0f), r[2], r[3]],  // private
        4 => [192, 168, r[2], r[3]],                 // private
        5 => [169, 254, r[2], r[3]],                 // link local
        6 => [100, 64 | (r[1] & 0x3f), r[2], r[3]],  // CGNAT
        7 => [192, 0, 2, r[3]],                      // TEST-NET-1 (192.0.2.66 lives here)
        8 => [224 | (r[0] & 0x0f), r[1], r[2], r[3]], // multicast
        9 => [255, 255, 255, 255],                   // broadcast
        _ => [r[0], r[1], r[2], r[3]],               // anything
    }
}

fn v6_class(sel: u8, r: &[u8; 16]) -> [u8; 16] {
    let mut a = *r;
    match sel {
        0 => a = [0; 16], // ::
        1 => {
            a = [0; 16];
            a[15] = 1; // ::1
        }
        2 => {
            a[0] = 0xfe;
            a[1] = 0x80 | (r[1] & 0x3f); // link local
        }
        3 => a[0] = 0xfc | (r[0] & 1), // ULA
        4 => a[0] = 0xff,              // multicast
        5 => {
            // v4-mapped
            for b in a.iter_mut().take(10) {
                *b = 0;
            }
            a[10] = 0xff;
            a[11] = 0xff;
        }
        6 => {
            a[0] = 0x20;
            a[1] = 0x01;
            a[2] = 0x0d;
            a[3] = 0xb8; // documentation
        }
        7 => {
            // 2001:db8:: with a zero tail of its own
            a = [0; 16];
            a[0] = 0x20;
            a[1] = 0x01;
            a[2] = 0x0d;
            a[3] = 0xb8;
        }
        8 => a[0] = 0x20 | (r[0] & 0x1f), // global unicast
        _ => {}
    }
    a
}

fn materialize_addr(s: &AddrSpec, xor: bool, tid: &[u8; 12]) -> RAddr {
    let port = match s.port_sel {
        0 => 0,
        1 => 0x2112,                     // X-Port = 0x0000
        2 => s.port_raw & 0xff00,        // plain low byte zero
        3 => (s.port_raw & 0xff00) | 0x12, // X-Port low byte zero
        4 => 0xffff,
        5 => 3478,
        6 => 5060,
        _ => s.port_raw,
    };
    let mut pad = [0u8; 16];
    if xor {
        pad[..4].copy_from_slice(&COOKIE);
        pad[4..].copy_from_slice(tid);
    }
    // field = port(2) || ip(n); xpad = pad[0..2] || pad[0..n]
    let n = if s.v6 { 16 } else { 4 };
    let mut field = Vec::with_capacity(2 + n);
    field.extend_from_slice(&port.to_be_bytes());
    if s.v6 {
        field.extend_from_slice(&v6_class(s.class_sel, &s.raw));
    } else {
        field.extend_from_slice(&v4_class(s.class_sel, &s.raw));
    }
    let mut xpad = vec![pad[0], pad[1]];
    xpad.extend_from_slice(&pad[..n]);
    let k = (s.zero_tail as usize).min(field.len());
    let len = field.len();
    for j in len - k..len {
        field[j] = xpad[j];
    }
    let port = u16::from_be_bytes([field[0], field[1]]);
    if s.v6 {
        let mut ip = [0u8; 16];
        ip.copy_from_slice(&field[2..]);
        RAddr::V6 { ip, port }
    } else {
        let mut ip = [0u8; 4];
        ip.copy_from_slice(&field[2..]);
        RAddr::V4 { ip, port }
    }
}

// --- text / bytes -----------------------------------------------------------------------------------

const CHARS: &[char] = &[
    'a', 'b', 'z', 'A', 'Z', '0', '9', ' ', '.', ':', '@', '/', '-', '_', '"', '\\', '~', '!', '%', '=', ',', ';',
    '\u{e9}', '\u{fc}', '\u{df}', '\u{4e2d}', '\u{6587}', '\u{1f642}', '\u{7f}', '\t',
];

fn text_char() -> impl Strategy<Value = char> {
    prop_oneof![
        6 => (0x20u8..0x7f).prop_map(|b| b as char),
        2 => (0usize..CHARS.len()).prop_map(|i| CHARS[i]),
    ]
}

/// text without NUL; byte lengths of every residue mod 4 incl. 0 are constructed
pub fn text(max: usize) -> BoxedStrategy<String> {
    prop_oneof![
        5 => vec(text_char(), 0..=max).prop_map(|v| v.into_iter().collect::<String>()),
        1 => Just(String::new()),
        // exact ASCII lengths 4q+r
        3 => (0usize..4, 0usize..=(max / 4).max(1), vec(0x21u8..0x7f, max + 4))
            .prop_map(|(r, q, src)| src[..4 * q + r].iter().map(|&b| b as char).collect::<String>()),
    ]
    .boxed()
}

/// bytes with a constructed tail of zero bytes (0..=4), any length residue
pub fn bytes(max: usize) -> BoxedStrategy<Vec<u8>> {
    (
        vec(any::<u8>(), 0..=max),
        prop_oneof![5 => Just(0usize), 1 => Just(1usize), 1 => Just(2usize), 1 => Just(3usize), 1 => Just(4usize)],
        any::<bool>(),
    )
        .prop_map(|(mut v, z, align)| {
            if z > 0 {
                if align {
                    // make the total length a multiple of 4 so that the zero tail is the end of the
                    // value and not followed by padding
                    while (v.len() + z) % 4 != 0 {
                        v.push(0x5a);
                    }
                }
                v.extend(std::iter::repeat(0u8).take(z));
            }
            v
        })
        .boxed()
}

fn fixed_bytes(n: usize) -> BoxedStrategy<Vec<u8>> {
    (vec(any::<u8>(), n), prop_oneof![4 => Just(0usize), 1 => Just(1usize), 1 => Just(2usize), 1 => Just(4usize)])
        .prop_map(move |(mut v, z)| {
            for b in v.iter_mut().rev().take(z) {
                *b = 0;
            }
            v
        })
        .boxed()
}

// --- attributes --------------------------------------------------------------------------------------

#[derive(Clone, Debug)]
enum AttrSpec {
    Addr(u8, AddrSpec),
    Plain(RAttr),
}

fn error_code() -> BoxedStrategy<RAttr> {
    prop_oneof![
        3 => (300u16..=699, text(40)).prop_map(|(code, reason)| RAttr::ErrorCode { code, reason }),
        // x00 with empty reason: value 00 00 0x 00
        2 => (3u16..=6).prop_map(|c| RAttr::ErrorCode { code: c * 100, reason: String::new() }),
        1 => (3u16..=6, text(12)).prop_map(|(c, reason)| RAttr::ErrorCode { code: c * 100, reason }),
        1 => (300u16..=699).prop_map(|code| RAttr::ErrorCode { code, reason: String::new() }),
        1 => Just(RAttr::ErrorCode { code: 401, reason: "Unauthorized".into() }),
        1 => Just(RAttr::ErrorCode { code: 420, reason: "Unknown Attribute".into() }),
        1 => Just(RAttr::ErrorCode { code: 438, reason: "Stale Nonce".into() }),
    ]
    .boxed()
}

fn unknown_attributes() -> BoxedStrategy<RAttr> {
    // never 0x0000, see module comment
    let el = prop_oneof![
        3 => 1u16..=0xffff,
        2 => (1u16..=0xff).prop_map(|h| h << 8), // low byte zero
        1 => Just(0x8028u16),
        1 => Just(0x0001u16),
    ];
    vec(el, 0..=6).prop_map(RAttr::UnknownAttributes).boxed()
}

fn pw_alg() -> BoxedStrategy<(u16, Vec<u8>)> {
    prop_oneof![
        3 => Just((1u16, vec![])),
        3 => Just((2u16, vec![])),
        // other algorithm numbers may carry parameters (RFC 8489 §14.12)
        3 => (any::<u16>(), bytes(12)),
        1 => (1u16..=2, bytes(9)),
    ]
    .boxed()
}

fn plain_attr() -> BoxedStrategy<RAttr> {
    prop_oneof![
        3 => text(40).prop_map(RAttr::Username),
        2 => text(40).prop_map(RAttr::Realm),
        2 => text(40).prop_map(RAttr::Software),
        1 => text(500).prop_map(RAttr::Username),
        2 => bytes(40).prop_map(RAttr::Nonce),
        3 => bytes(60).prop_map(RAttr::Data),
        1 => bytes(1500).prop_map(RAttr::Data),
        1 => bytes(30).prop_map(RAttr::AlternateDomain),
        4 => error_code(),
        3 => unknown_attributes(),
        3 => pw_alg().prop_map(|(alg, params)| RAttr::PasswordAlgorithm { alg, params }),
        3 => vec(pw_alg(), 0..=4).prop_map(RAttr::PasswordAlgorithms),
        2 => fixed_bytes(32).prop_map(RAttr::UserHash),
        3 => prop_oneof![
            3 => any::<u32>(),
            1 => Just(0u32),
            1 => Just(256u32),
            1 => Just(600u32),
            1 => Just(3600u32),
            2 => (1u32..=0xff, 1u32..=3).prop_map(|(v, s)| v << (8 * s)),
            1 => (any::<u32>()).prop_map(|v| v & 0xffff_ff00),
        ]
        .prop_map(RAttr::Lifetime),
        2 => prop_oneof![
            2 => any::<u16>(),
            2 => 0x4000u16..=0x7fff,
            1 => (0x40u16..=0x7f).prop_map(|h| h << 8),
            1 => Just(0u16),
        ]
        .prop_map(RAttr::ChannelNumber),
        2 => prop_oneof![2 => Just(17u8), 1 => Just(6u8), 1 => Just(0u8), 2 => any::<u8>()]
            .prop_map(RAttr::RequestedTransport),
        2 => any::<bool>().prop_map(RAttr::EvenPort),
        1 => Just(RAttr::DontFragment),
        1 => fixed_bytes(8).prop_map(RAttr::ReservationToken),
    ]
    .boxed()
}

fn attr_spec() -> BoxedStrategy<AttrSpec> {
    prop_oneof![
        2 => (0u8..5, addr_spec()).prop_map(|(k, s)| AttrSpec::Addr(k, s)),
        3 => plain_attr().prop_map(AttrSpec::Plain),
    ]
    .boxed()
}

fn materialize_attr(s: &AttrSpec, tid: &[u8; 12]) -> RAttr {
    match s {
        AttrSpec::Plain(a) => a.clone(),
        AttrSpec::Addr(kind, spec) => match kind {
            0 => RAttr::MappedAddress(materialize_addr(spec, false, tid)),
            1 => RAttr::XorMappedAddress(materialize_addr(spec, true, tid)),
            2 => RAttr::AlternateServer(materialize_addr(spec, false, tid)),
            3 => RAttr::XorPeerAddress(materialize_addr(spec, true, tid)),
            _ => RAttr::XorRelayedAddress(materialize_addr(spec, true, tid)),
        },
    }
}

// --- keys, tails, ids -----------------------------------------------------------------------------------

pub fn key() -> BoxedStrategy<RKey> {
    let word = || vec(text_char(), 1..=16).prop_map(|v| v.into_iter().collect::<String>());
    prop_oneof![
        3 => word().prop_map(|password| RKey::ShortTerm { password }),
        2 => (word(), word(), word()).prop_map(|(user, realm, password)| RKey::LongTermMd5 { user, realm, password }),
        2 => (word(), word(), word()).prop_map(|(user, realm, password)| RKey::LongTermSha256 { user, realm, password }),
        2 => vec(any::<u8>(), 1..=64).prop_map(RKey::Raw),
    ]
    .boxed()
}

/// protection attributes in wire order. Orders: RFC 8489 (§14.5: MESSAGE-INTEGRITY, then
/// MESSAGE-INTEGRITY-SHA256, then FINGERPRINT) and the order ezk's own `auth.rs` emits
/// (SHA256 first, then MESSAGE-INTEGRITY).
fn tail(force: bool) -> BoxedStrategy<Vec<RTail>> {
    let mut opts: Vec<(u32, BoxedStrategy<Vec<RTail>>)> = vec![
        (3, key().prop_map(|k| vec![RTail::Integrity(k)]).boxed()),
        (3, key().prop_map(|k| vec![RTail::IntegritySha256(k)]).boxed()),
        (
            2,
            (key(), key(), any::<bool>())
                .prop_map(|(a, b, same)| {
                    let b = if same { a.clone() } else { b };
                    vec![RTail::Integrity(a), RTail::IntegritySha256(b)]
                })
                .boxed(),
        ),
        (1, key().prop_map(|k| vec![RTail::IntegritySha256(k.clone()), RTail::Integrity(k)]).boxed()),
    ];
    if !force {
        opts.insert(0, (3, Just(vec![]).boxed()));
    } else {
        opts.insert(0, (2, Just(vec![]).boxed())); // becomes FINGERPRINT only below
    }
    let integ = proptest::strategy::Union::new_weighted(opts);
    (integ, any::<bool>())
        .prop_map(move |(mut t, fp)| {
            if fp || (force && t.is_empty()) {
                t.push(RTail::Fingerprint);
            }
            t
        })
        .boxed()
}

fn tid() -> BoxedStrategy<[u8; 12]> {
    prop_oneof![
        8 => any::<[u8; 12]>(),
        1 => Just([0u8; 12]),
        1 => Just([0xffu8; 12]),
        2 => (any::<[u8; 12]>(), 1usize..=4).prop_map(|(mut t, k)| {
            for b in t.iter_mut().rev().take(k) {
                *b = 0;
            }
            t
        }),
        1 => (any::<[u8; 12]>(), 1usize..=8).prop_map(|(mut t, k)| {
            for b in t.iter_mut().take(k) {
                *b = 0;
            }
            t
        }),
    ]
    .boxed()
}

pub fn class() -> BoxedStrategy<RClass> {
    prop_oneof![Just(RClass::Request), Just(RClass::Indication), Just(RClass::Success), Just(RClass::Error)].boxed()
}

fn message_with(method: BoxedStrategy<u16>, force_tail: bool) -> BoxedStrategy<RMsg> {
    (class(), method, tid(), vec(attr_spec(), 0..=6), tail(force_tail))
        .prop_map(|(class, method, tid, specs, tail)| {
            let mut attrs: Vec<RAttr> = vec![];
            for s in &specs {
                let a = materialize_attr(s, &tid);
                if !attrs.iter().any(|b| b.typ() == a.typ()) {
                    attrs.push(a);
                }
            }
            RMsg { class, method, tid, attrs, tail }
        })
        .boxed()
}

/// Binding message, any class
pub fn message() -> BoxedStrategy<RMsg> {
    message_with(Just(1u16).boxed(), false)
}

/// Binding message carrying at least one protection attribute
pub fn protected_message() -> BoxedStrategy<RMsg> {
    message_with(Just(1u16).boxed(), true)
}

pub fn msg_case() -> BoxedStrategy<MsgCase> {
    (message(), any::<bool>(), prop_oneof![7 => Just(false), 1 => Just(true)])
        .prop_map(|(msg, pad_in_len, grind)| MsgCase { msg, pad_in_len, grind })
        .boxed()
}

pub fn protected_case() -> BoxedStrategy<MsgCase> {
    (protected_message(), any::<bool>(), prop_oneof![3 => Just(false), 1 => Just(true)])
        .prop_map(|(msg, pad_in_len, grind)| MsgCase { msg, pad_in_len, grind })
        .boxed()
}

// --- datagrams: a message followed by further bytes ---------------------------------------------------------

/// how the same-length twin of the attribute behind the message is made (bytes that are NOT a
/// well-formed attribute)
#[derive(Clone, Debug, PartialEq, Eq, Hash, Serialize, Deserialize)]
pub enum Twin {
    /// the attribute's own bytes with this much added to its length field (it overruns the datagram)
    Overrun(u16),
    /// these bytes repeated to the attribute's size
    Random(Vec<u8>),
}

/// One datagram = a complete reference-encoded message (its header length covers exactly its
/// attributes) followed by bytes that are not part of it.
#[derive(Clone, Debug, PartialEq, Eq, Hash, Serialize, Deserialize)]
pub struct DatagramCase {
    pub msg: RMsg,
    /// a well-formed attribute of a type the message does not carry (XOR-ed with the message's id)
    pub attr: RAttr,
    pub twin: Twin,
    /// other bytes behind the message (CRLF, a few bytes, zero words, random bytes, SIP text)
    pub extra: Vec<u8>,
    /// a second complete message behind the first one
    pub second: RMsg,
}

/// simple attributes of many types: the fallback when every drawn candidate's type is in the message
fn fallback_attrs() -> Vec<RAttr> {
    vec![
        RAttr::XorMappedAddress(RAddr::V4 { ip: [203, 0, 113, 99], port: 6666 }),
        RAttr::MappedAddress(RAddr::V4 { ip: [203, 0, 113, 99], port: 6666 }),
        RAttr::Software("behind".into()),
        RAttr::Lifetime(600),
        RAttr::Username("mallory".into()),
        RAttr::ErrorCode { code: 401, reason: "Unauthorized".into() },
        RAttr::DontFragment,
    ]
}

pub fn datagram_case() -> BoxedStrategy<DatagramCase> {
    let extra = prop_oneof![
        2 => Just(b"\r\n".to_vec()),
        1 => Just(b"\r\n\r\n".to_vec()),
        2 => vec(any::<u8>(), 1..=3),
        1 => Just(vec![0u8; 4]),
        1 => Just(vec![0u8; 8]),
        1 => (1usize..=3).prop_map(|n| vec![0u8; n]),
        2 => vec(any::<u8>(), 4..=40),
        1 => Just(b"OPTIONS sip:a@example.org SIP/2.0\r\nContent-Length: 0\r\n\r\n".to_vec()),
    ];
    let twin = prop_oneof![
        1 => (1u16..=0x4000).prop_map(Twin::Overrun),
        1 => Just(Twin::Overrun(0xfffc)),
        2 => vec(any::<u8>(), 1..=8).prop_map(Twin::Random),
    ];
    // the address attributes are what a STUN client acts on: half of the candidates are addresses
    let cand = prop_oneof![
        1 => (0u8..2, addr_spec()).prop_map(|(k, s)| AttrSpec::Addr(k, s)),
        1 => attr_spec(),
    ];
    (message(), any::<bool>(), vec(cand, 4), twin, extra, message())
        .prop_map(|(mut msg, keep_integrity, cands, twin, extra, second)| {
            // `get_attr` does not look behind MESSAGE-INTEGRITY(-SHA256): every other message goes without
            if !keep_integrity {
                msg.tail.retain(|t| matches!(t, RTail::Fingerprint));
            }
            let absent = |a: &RAttr| !msg.attrs.iter().any(|b| b.typ() == a.typ());
            let attr = cands
                .iter()
                .map(|s| materialize_attr(s, &msg.tid))
                .find(|a| absent(a))
                .or_else(|| fallback_attrs().into_iter().find(|a| absent(a)))
                .expect("a message carries at most 6 attribute types");
            DatagramCase { msg, attr, twin, extra, second }
        })
        .boxed()
}

// --- parser inputs (no-panic) ------------------------------------------------------------------------------

#[derive(Clone, Debug, PartialEq, Eq, Hash, Serialize, Deserialize)]
pub enum FuzzCase {
    /// arbitrary bytes
    Raw(Vec<u8>),
    /// valid header (type, cookie) followed by arbitrary bytes
    Header { typ: u16, tid: [u8; 12], body: Vec<u8> },
    /// header followed by TLVs of known attribute types with arbitrary values; `lie` is added to
    /// the length field of the last attribute
    Tlv { typ: u16, tid: [u8; 12], attrs: Vec<(u16, Vec<u8>)>, lie: i8 },
    /// reference-encoded message, then mutated: (position selector, xor mask) edits, optional
    /// truncation to a selector-chosen length, optional appended bytes
    Mutated { msg: RMsg, edits: Vec<(u16, u8)>, truncate: Option<u16>, append: Vec<u8> },
    /// ezk builder with a TURN method (only checked for absence of panics), RFC mode or not
    Turn { msg: RMsg, pad_in_len: bool },
}

pub const KNOWN_TYPES: &[u16] = &[
    T_MAPPED_ADDRESS, T_USERNAME, T_MESSAGE_INTEGRITY, T_ERROR_CODE, T_UNKNOWN_ATTRIBUTES, T_CHANNEL_NUMBER,
    T_LIFETIME, T_XOR_PEER_ADDRESS, T_DATA, T_REALM, T_NONCE, T_XOR_RELAYED_ADDRESS, T_EVEN_PORT,
    T_REQUESTED_TRANSPORT, T_DONT_FRAGMENT, T_MESSAGE_INTEGRITY_SHA256, T_PASSWORD_ALGORITHM, T_USERHASH,
    T_XOR_MAPPED_ADDRESS, T_RESERVATION_TOKEN, T_PASSWORD_ALGORITHMS, T_ALTERNATE_DOMAIN, T_SOFTWARE,
    T_ALTERNATE_SERVER, T_FINGERPRINT,
];

fn msg_type() -> BoxedStrategy<u16> {
    prop_oneof![
        12 => class().prop_map(|c| message_type(c, 1)),
        2 => (class(), prop_oneof![Just(3u16), Just(4), Just(6), Just(7), Just(8), Just(9)]).prop_map(|(c, m)| message_type(c, m)),
        1 => 0u16..0x4000,
        1 => any::<u16>(),
    ]
    .boxed()
}

pub fn fuzz_case() -> BoxedStrategy<FuzzCase> {
    let known = (0usize..KNOWN_TYPES.len()).prop_map(|i| KNOWN_TYPES[i]);
    let tlv_value = prop_oneof![
        4 => vec(any::<u8>(), 0..=40),
        2 => vec(prop_oneof![Just(0u8), Just(1u8), Just(2u8), Just(0xffu8)], 0..=24),
        1 => Just(vec![]),
    ];
    let turn_method = prop_oneof![Just(3u16), Just(4), Just(6), Just(7), Just(8), Just(9)].boxed();
    prop_oneof![
        2 => vec(any::<u8>(), 0..=200).prop_map(FuzzCase::Raw),
        2 => (msg_type(), any::<[u8; 12]>(), vec(any::<u8>(), 0..=120))
            .prop_map(|(typ, tid, body)| FuzzCase::Header { typ, tid, body }),
        5 => (msg_type(), any::<[u8; 12]>(), vec((prop_oneof![9 => known, 1 => any::<u16>()], tlv_value), 0..=6), prop_oneof![3 => Just(0i8), 1 => -8i8..=8])
            .prop_map(|(typ, tid, attrs, lie)| FuzzCase::Tlv { typ, tid, attrs, lie }),
        5 => (
            message_with(prop_oneof![4 => Just(1u16), 1 => 0u16..0x1000].boxed(), false),
            vec((any::<u16>(), 1u8..=255), 0..=4),
            prop_oneof![3 => Just(None), 1 => any::<u16>().prop_map(Some)],
            prop_oneof![3 => Just(vec![]), 1 => vec(any::<u8>(), 1..=9)],
        )
            .prop_map(|(msg, edits, truncate, append)| FuzzCase::Mutated { msg, edits, truncate, append }),
        1 => (message_with(turn_method, false), any::<bool>()).prop_map(|(msg, pad_in_len)| FuzzCase::Turn { msg, pad_in_len }),
    ]
    .boxed()
}

// --- SIP text for the demultiplexer ---------------------------------------------------------------------------

#[derive(Clone, Debug, PartialEq, Eq, Hash, Serialize, Deserialize)]
pub struct SipCase {
    pub text: String,
    pub body: Vec<u8>,
}

const TOKEN_FIRST_LOW: &[u8] = b"0123456789!%'*+-.";
const TOKEN: &[u8] = b"ABCDEFGHIJKLMNOPQRSTUVWXYZabcdefghijklmnopqrstuvwxyz0123456789-.!%*_+`'~";
const METHODS: &[&str] = &[
    "INVITE", "ACK", "BYE", "CANCEL", "OPTIONS", "REGISTER", "PRACK", "SUBSCRIBE", "NOTIFY", "PUBLISH", "INFO",
    "REFER", "MESSAGE", "UPDATE",
];

fn sip_method() -> BoxedStrategy<String> {
    prop_oneof![
        3 => (0usize..METHODS.len()).prop_map(|i| METHODS[i].to_string()),
        // extension methods (RFC 3261 token) whose first byte has the two top bits clear, i.e.
        // looks like a STUN message type to a demultiplexer that only inspects those bits
        4 => (0usize..TOKEN_FIRST_LOW.len(), vec(0usize..TOKEN.len(), 0..=10)).prop_map(|(f, r)| {
            let mut s = String::new();
            s.push(TOKEN_FIRST_LOW[f] as char);
            s.extend(r.into_iter().map(|i| TOKEN[i] as char));
            s
        }),
        2 => vec(0usize..TOKEN.len(), 1..=12).prop_map(|r| r.into_iter().map(|i| TOKEN[i] as char).collect()),
    ]
    .boxed()
}

pub fn sip_case() -> BoxedStrategy<SipCase> {
    let host = prop_oneof![
        Just("example.com".to_string()),
        Just("192.0.2.1".to_string()),
        Just("[2001:db8::1]".to_string()),
        "[a-z]{1,8}\\.(org|net|invalid)",
    ];
    let uri = (prop_oneof![Just("sip"), Just("sips")], proptest::option::of("[a-z0-9]{1,8}"), host.clone(), proptest::option::of(1u16..=65535))
        .prop_map(|(scheme, user, host, port)| {
            let mut s = format!("{scheme}:");
            if let Some(u) = user {
                s.push_str(&u);
                s.push('@');
            }
            s.push_str(&host);
            if let Some(p) = port {
                s.push_str(&format!(":{p}"));
            }
            s
        });
    let start = prop_oneof![
        3 => (sip_method(), uri.clone()).prop_map(|(m, u)| (format!("{m} {u} SIP/2.0"), m)),
        2 => (100u16..=699, "[A-Za-z ]{0,20}", sip_method()).prop_map(|(c, r, m)| (format!("SIP/2.0 {c} {r}"), m)),
    ];
    (
        start,
        uri,
        host,
        "[a-zA-Z0-9]{4,16}",
        1u32..=0x7fff_ffff,
        any::<bool>(),
        prop_oneof![3 => Just(vec![]), 2 => vec(any::<u8>(), 1..=60), 1 => Just(b"v=0\r\no=- 0 0 IN IP4 192.0.2.1\r\ns=-\r\n".to_vec())],
        prop_oneof![Just("UDP"), Just("TCP"), Just("TLS")],
        any::<bool>(),
    )
        .prop_map(|((line, method), uri, host, id, cseq, compact, body, tp, with_cl)| {
            let n = |long: &'static str, short: &'static str| if compact { short } else { long };
            let mut t = String::new();
            t.push_str(&line);
            t.push_str("\r\n");
            t.push_str(&format!("{}: SIP/2.0/{tp} {host};branch=z9hG4bK{id}\r\n", n("Via", "v")));
            t.push_str(&format!("{}: <{uri}>;tag={id}\r\n", n("From", "f")));
            t.push_str(&format!("{}: <{uri}>\r\n", n("To", "t")));
            t.push_str(&format!("{}: {id}@{host}\r\n", n("Call-ID", "i")));
            t.push_str(&format!("CSeq: {cseq} {method}\r\n"));
            t.push_str("Max-Forwards: 70\r\n");
            if with_cl || !body.is_empty() {
                t.push_str(&format!("{}: {}\r\n", n("Content-Length", "l"), body.len()));
            }
            t.push_str("\r\n");
            SipCase { text: t, body }
        })
        .boxed()
}
