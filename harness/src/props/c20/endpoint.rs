//! C20 (v)+(vi) end to end: `Endpoint::discover_public_address` over a mock datagram transport.
//!
//! The datagram path of production code in one piece: the Binding request goes out through
//! `StunUser::send_to` -> `Transport::send` (wire log), the answer of the scripted server comes back
//! as ONE DATAGRAM FROM ONE SOURCE ADDRESS through the demultiplexer (`parse_complete`, the way
//! `udp.rs::handle_msg` does it) -> `Endpoint::receive_stun` -> `StunEndpoint::receive`.
//!
//! Generated
//!  * the server address (IPv4 / IPv6 / IPv4-mapped IPv6) x the address the answer is received from
//!    (the server's; its host with another port; the same IPv4 host named in the other family; another
//!    address of the same / of the other family) x which transmission is answered (and how late) x
//!    {success, error};
//!  * what the response carries (XOR-MAPPED-ADDRESS, MAPPED-ADDRESS, both, none; SOFTWARE, FINGERPRINT)
//!    x what follows the message inside its datagram (nothing; CRLF / a few bytes; an attribute-shaped
//!    XOR-MAPPED-ADDRESS, MAPPED-ADDRESS or SOFTWARE; a second complete response with another address);
//!  * a response with a foreign transaction id (carrying another address) right in front of the answer;
//!    never answered; only foreign ids.
//!  The transaction id is ezk's own random one: read back from the wire.
//!
//! Oracle (statement only)
//!  * datagrams to the server, all the same Binding request (reference decoder), exactly at
//!    t_i = 500 ms * (2^i - 1) until the response is in; none afterwards; nothing goes anywhere else;
//!  * the response with the request's id completes the call at the instant it is delivered, whatever
//!    address it is received from; a foreign id never does;
//!  * the address returned is one the response carries (XOR-MAPPED-ADDRESS or MAPPED-ADDRESS, decoded
//!    by the reference), never one that lies behind the end of the message; a response that carries
//!    none does not yield one;
//!  * 0 pending STUN transactions afterwards.
//!
//! Not asserted: which of XOR-MAPPED-ADDRESS / MAPPED-ADDRESS wins when both are present and differ;
//! what an error response yields (only that the call ends when it comes in, not by timeout, and that
//! no address from outside the message is returned); whether a datagram in which bytes follow the
//! message is delivered at all: both readings (the message is taken / the whole datagram is ignored and
//! the retransmissions go on) are accepted as a whole; give-up at 39.5 s or 63.5 s.

use super::client::{arrival, refine_source_tag, scratch_out, source_class, source_kind, source_pool, source_tag, t_send, target_pool};
use crate::engine::*;
use crate::refmodel::ref_stun::*;
use crate::world::*;
use serde::{Deserialize, Serialize};
use std::net::SocketAddr;

/// what follows the response message inside its datagram
#[derive(Clone, Debug, Hash, PartialEq, Eq, Serialize, Deserialize)]
pub enum Behind {
    Nothing,
    Bytes(Vec<u8>),
    /// reference-encoded attribute (XOR-ed with the request's id)
    Attr(RAttr),
    /// a complete success response with the same id carrying this XOR-MAPPED-ADDRESS
    SecondResponse(RAddr),
}

#[derive(Clone, Debug, Hash, PartialEq, Eq, Serialize, Deserialize)]
pub struct EndpointCase {
    pub rng: u8,
    pub target: SocketAddr,
    /// None: the target
    pub source: Option<SocketAddr>,
    /// (transmission that is answered, delay selector as in client_schedule); None: never
    pub answer: Option<(u8, u8)>,
    /// Success or Error
    pub class: RClass,
    pub xor: Option<RAddr>,
    pub mapped: Option<RAddr>,
    pub software: bool,
    pub fingerprint: bool,
    pub behind: Behind,
    /// a response with another id (one bit flipped) and another address, delivered right before
    /// the answer (answer == None: after every transmission)
    pub foreign: bool,
}

fn a4(last: u8, port: u16) -> RAddr {
    RAddr::V4 { ip: [203, 0, 113, last], port }
}

fn a6(last: u8, port: u16) -> RAddr {
    RAddr::V6 { ip: [0x20, 0x01, 0x0d, 0xb8, 0, 0, 0, 0, 0, 0, 0, 0, 0, 0, 0x77, last], port }
}

/// the address only a forged attribute / a foreign response carries
fn evil() -> RAddr {
    RAddr::V4 { ip: [198, 51, 100, 66], port: 6666 }
}

pub fn endpoint_cases(tier: Tier) -> Vec<EndpointCase> {
    let mut v: Vec<EndpointCase> = vec![];
    let base = |target: SocketAddr| EndpointCase {
        rng: 0,
        target,
        source: None,
        answer: Some((0, 0)),
        class: RClass::Success,
        xor: Some(a4(7, 40_000)),
        mapped: None,
        software: false,
        fingerprint: false,
        behind: Behind::Nothing,
        foreign: false,
    };
    let answers: Vec<(u8, u8)> = match tier {
        Tier::Quick => vec![(0, 0), (0, 3), (1, 2), (2, 1), (4, 0), (6, 2)],
        Tier::Thorough => (0u8..7).flat_map(|i| (0u8..4).map(move |d| (i, d))).collect(),
    };
    // (a) where the answer comes from
    let mut n = 0usize;
    for t in target_pool() {
        for s in source_pool(t) {
            for &a in &answers {
                for class in [RClass::Success, RClass::Error] {
                    n += 1;
                    let mut c = base(t);
                    c.source = Some(s);
                    c.answer = Some(a);
                    c.class = class;
                    match n % 4 {
                        0 => {}
                        1 => {
                            c.xor = Some(a6(9, 50_000));
                            c.fingerprint = true;
                        }
                        2 => {
                            c.xor = None;
                            c.mapped = Some(a4(8, 1024));
                            c.software = true;
                        }
                        _ => {
                            c.mapped = c.xor;
                            c.software = true;
                            c.fingerprint = true;
                        }
                    }
                    c.foreign = n % 5 == 0;
                    v.push(c);
                }
            }
        }
    }
    // (b) what follows the message inside its datagram
    let behinds = vec![
        Behind::Bytes(b"\r\n".to_vec()),
        Behind::Bytes(vec![0x00]),
        Behind::Bytes(vec![0u8; 4]),
        Behind::Bytes(vec![0x80, 0x22, 0xff, 0xf0, 0x41, 0x42, 0x43]),
        Behind::Attr(RAttr::XorMappedAddress(evil())),
        Behind::Attr(RAttr::XorMappedAddress(RAddr::V6 { ip: [0xfd; 16], port: 6666 })),
        Behind::Attr(RAttr::MappedAddress(evil())),
        Behind::Attr(RAttr::Software("behind the message".into())),
        Behind::SecondResponse(evil()),
    ];
    // (XOR-MAPPED-ADDRESS, MAPPED-ADDRESS) of the message itself
    let shapes: Vec<(Option<RAddr>, Option<RAddr>)> = vec![
        (Some(a4(7, 40_000)), None),
        (None, Some(a4(7, 40_000))),
        (None, None),
        (Some(a6(9, 50_000)), Some(a6(9, 50_000))),
    ];
    let t = target_pool()[0];
    let b_answers: Vec<(u8, u8)> = match tier {
        Tier::Quick => vec![(0, 0), (3, 1)],
        Tier::Thorough => (0u8..7).map(|i| (i, i % 3)).collect(),
    };
    for (bi, behind) in behinds.iter().enumerate() {
        for (si, &(xor, mapped)) in shapes.iter().enumerate() {
            for &a in &b_answers {
                for src in [0usize, 3] {
                    n += 1;
                    let mut c = base(t);
                    c.source = Some(source_pool(t)[src]);
                    c.answer = Some(a);
                    c.xor = xor;
                    c.mapped = mapped;
                    c.software = (bi + si) % 2 == 0;
                    c.fingerprint = (bi + si) % 3 == 0;
                    c.class = if n % 7 == 0 { RClass::Error } else { RClass::Success };
                    c.behind = behind.clone();
                    v.push(c);
                }
            }
        }
    }
    // (c) never answered / only foreign ids
    for t in target_pool() {
        for foreign in [false, true] {
            let mut c = base(t);
            c.answer = None;
            c.foreign = foreign;
            v.push(c);
        }
    }
    for (i, c) in v.iter_mut().enumerate() {
        c.rng = (i * 37 % 251) as u8;
    }
    v
}

struct Run {
    /// (ms, destination, bytes) of every datagram ezk sent
    sent: Vec<(u64, SocketAddr, Vec<u8>)>,
    result: Result<SocketAddr, String>,
    timed_out: bool,
    t_ret: u64,
    pending: usize,
    /// what the demultiplexer did with the answer datagram(s): (ms, verdict)
    injected: Vec<(u64, Injected)>,
    /// the id read from the wire, if a request was seen
    tid: Option<[u8; 12]>,
}

fn response_bytes(case: &EndpointCase, tid: [u8; 12]) -> Vec<u8> {
    let mut attrs = vec![];
    if case.class == RClass::Error {
        attrs.push(RAttr::ErrorCode { code: 400, reason: "Bad Request".into() });
    }
    if case.software {
        attrs.push(RAttr::Software("scripted server".into()));
    }
    if let Some(a) = case.mapped {
        attrs.push(RAttr::MappedAddress(a));
    }
    if let Some(a) = case.xor {
        attrs.push(RAttr::XorMappedAddress(a));
    }
    let tail = if case.fingerprint { vec![RTail::Fingerprint] } else { vec![] };
    let mut b = encode(&RMsg { class: case.class, method: 1, tid, attrs, tail });
    match &case.behind {
        Behind::Nothing => {}
        Behind::Bytes(x) => b.extend_from_slice(x),
        Behind::Attr(a) => {
            let v = encode_value(a, &tid);
            b.extend_from_slice(&a.typ().to_be_bytes());
            b.extend_from_slice(&(v.len() as u16).to_be_bytes());
            b.extend_from_slice(&v);
            b.extend(std::iter::repeat(0u8).take(pad_len(v.len())));
        }
        Behind::SecondResponse(a) => {
            b.extend_from_slice(&encode(&RMsg { class: RClass::Success, method: 1, tid, attrs: vec![RAttr::XorMappedAddress(*a)], tail: vec![] }));
        }
    }
    b
}

fn foreign_bytes(tid: [u8; 12], bit: usize) -> Vec<u8> {
    let mut t = tid;
    t[(bit / 8) % 12] ^= 1 << (bit % 8);
    encode(&RMsg { class: RClass::Success, method: 1, tid: t, attrs: vec![RAttr::XorMappedAddress(evil())], tail: vec![] })
}

fn run(case: &EndpointCase) -> Run {
    let case = case.clone();
    run_world(case.rng as u64, |clock| async move {
        let log = WireLog::new(clock);
        let (udp, _) = mock_datagram(&log, "UDP", false, false, "10.0.0.1:5060");
        let mut b = offline_builder();
        b.add_unmanaged_transport(udp.clone());
        let endpoint = b.build();
        settle().await;
        let target = case.target;
        let source = case.source.unwrap_or(target);

        let call = async {
            let r = endpoint.discover_public_address(target, &udp).await;
            (r, clock.now_ms(), endpoint.verif_counts().2)
        };
        let script = async {
            // instants at which the scripted server's datagrams come in
            let mut script: Vec<(u64, bool)> = vec![];
            match case.answer {
                Some((i, d)) => {
                    let t = arrival(i as usize, d);
                    if case.foreign {
                        script.push((t, false));
                    }
                    script.push((t, true));
                }
                None if case.foreign => script.extend((0..7).map(|i| (arrival(i, 0), false))),
                None => {}
            }
            let mut injected = vec![];
            let mut tid_seen = None;
            for (k, (t, right)) in script.into_iter().enumerate() {
                clock.until(t).await;
                settle().await;
                let req = log.snapshot().into_iter().rev().find(|s| s.dest == target && s.bytes.len() >= 20);
                let Some(req) = req else { continue };
                let mut tid = [0u8; 12];
                tid.copy_from_slice(&req.bytes[8..20]);
                tid_seen = Some(tid);
                let dg = if right { response_bytes(&case, tid) } else { foreign_bytes(tid, k * 29 + case.rng as usize) };
                let verdict = inject(&endpoint, &udp, source, &dg);
                if right {
                    injected.push((clock.now_ms(), verdict));
                }
                settle().await;
            }
            (injected, tid_seen)
        };
        let ((r, t_ret, pending), (injected, tid)) = tokio::join!(call, script);
        let sent = log.snapshot().into_iter().map(|s| (s.t_ms, s.dest, s.bytes.to_vec())).collect();
        let timed_out = matches!(r, Err(sip_core::StunError::RequestTimedOut));
        Run { sent, result: r.map_err(|e| e.to_string()), timed_out, t_ret, pending, injected, tid }
    })
}

pub fn check_endpoint(case: &EndpointCase, out: &mut CaseOut) {
    check_endpoint_from(case, out);
    refine_source_tag(out, || {
        let mut o = scratch_out();
        check_endpoint_from(&EndpointCase { source: None, ..case.clone() }, &mut o);
        o
    });
}

fn check_endpoint_from(case: &EndpointCase, out: &mut CaseOut) {
    if !matches!(case.class, RClass::Success | RClass::Error) || case.answer.map_or(false, |(i, d)| i > 6 || d > 3) {
        out.class("skipped:not-a-generated-case");
        return;
    }
    out.nontrivial(case);
    let target = case.target;
    let source = case.source.unwrap_or(target);
    let skind = source_kind(target, source);
    out.class(source_class(skind));
    out.class(if case.class == RClass::Success { "class:success-response" } else { "class:error-response" });
    out.class(match (case.xor, case.mapped) {
        (Some(_), None) => "response:xor-mapped-address",
        (None, Some(_)) => "response:mapped-address-only",
        (Some(_), Some(_)) => "response:both-address-attributes",
        (None, None) => "response:no-address",
    });
    out.class(match &case.behind {
        Behind::Nothing => "datagram:the-message-only",
        Behind::Bytes(_) => "datagram:message+bytes",
        Behind::Attr(a) if a.is_address() => "datagram:message+address-attribute",
        Behind::Attr(_) => "datagram:message+other-attribute",
        Behind::SecondResponse(_) => "datagram:message+second-response",
    });
    match case.answer {
        None if case.foreign => out.class("only-foreign-ids"),
        None => out.class("never-answered"),
        Some((0, _)) => out.class("answered:initial-transmission"),
        Some(_) => out.class("answered:retransmission"),
    }
    if case.foreign && case.answer.is_some() {
        out.class("foreign-response-in-front-of-the-answer");
    }

    let r = run(case);
    out.note = Some(format!(
        "sent at {:?} ms; returned {:?} at {} ms; demultiplexer: {:?}",
        r.sent.iter().map(|s| s.0).collect::<Vec<_>>(),
        r.result,
        r.t_ret,
        r.injected
    ));

    if r.pending != 0 {
        out.fail("c20.endpoint/pending-after-return", format!("{} pending STUN transactions after discover_public_address returned", r.pending));
    }
    // every datagram: to the server, one and the same Binding request
    let first = r.sent.first().map(|s| s.2.clone()).unwrap_or_default();
    match decode(&first) {
        Ok(d) if d.class == RClass::Request && d.method == 1 && d.length + 20 == first.len() => {}
        other => out.fail("c20.endpoint/request-not-a-binding-request", format!("first datagram: {other:?}")),
    }
    if r.sent.iter().any(|(_, dest, b)| *dest != target || *b != first) {
        out.fail("c20.endpoint/retransmission-differs", format!("a datagram differs from the first transmission or goes elsewhere than {target}: {:?}", r.sent.iter().map(|s| (s.0, s.1)).collect::<Vec<_>>()));
    }

    let t_arr = case.answer.map(|(i, d)| arrival(i as usize, d));
    // which reading applies to a datagram in which bytes follow the message
    let ignored_whole = case.behind != Behind::Nothing && r.injected.iter().all(|(_, v)| *v == Injected::Rejected);
    if case.behind != Behind::Nothing && t_arr.is_some() {
        out.class(if ignored_whole { "message+bytes:datagram-ignored" } else { "message+bytes:message-delivered" });
    }
    if r.injected.iter().any(|(_, v)| matches!(v, Injected::Sip | Injected::KeepAlive)) {
        out.fail("c20.endpoint/stun-response-classified-sip", format!("{:?}", r.injected));
        return;
    }
    let t_done = if ignored_whole { None } else { t_arr };

    let exp_sends: Vec<u64> = (0..7).map(t_send).filter(|t| t_done.map_or(true, |a| *t < a)).collect();
    let got_sends: Vec<u64> = r.sent.iter().map(|s| s.0).collect();
    match t_done {
        Some(a) => {
            if r.timed_out || r.t_ret != a {
                // retransmissions and the late return are consequences
                out.fail(
                    format!("c20.endpoint/{}{}-not-matched", if case.class == RClass::Success { "success-response" } else { "error-response" }, source_tag(skind)),
                    format!(
                        "response with the request's id (request sent to {target}) received from {source} at {a} ms (demultiplexer: {:?}); discover_public_address returned {:?} at {} ms; datagrams sent at {got_sends:?} ms",
                        r.injected, r.result, r.t_ret
                    ),
                );
                return;
            }
        }
        None => {
            if !r.timed_out {
                out.fail("c20.endpoint/completed-without-its-response", format!("no response with the request's id was delivered, yet the call returned {:?} at {} ms", r.result, r.t_ret));
                return;
            }
            let s6 = t_send(6);
            if r.t_ret != s6 + 32_000 && r.t_ret != s6 + 8_000 {
                out.fail("c20.endpoint/give-up-time", format!("timed out at {} ms", r.t_ret));
            }
        }
    }
    if got_sends != exp_sends {
        let sig = if got_sends.len() != exp_sends.len() { "c20.endpoint/transmission-count" } else { "c20.endpoint/transmission-times" };
        out.fail(sig, format!("datagrams sent at {got_sends:?} ms, expected {exp_sends:?} ms"));
    }
    if t_done.is_none() {
        return;
    }
    // the address: one the message carries
    let inside: Vec<SocketAddr> = [case.xor, case.mapped].iter().flatten().map(|a| a.to_std()).collect();
    let behind_addr: Option<SocketAddr> = match &case.behind {
        Behind::Attr(RAttr::XorMappedAddress(a)) | Behind::Attr(RAttr::MappedAddress(a)) | Behind::SecondResponse(a) => Some(a.to_std()),
        _ => None,
    };
    match &r.result {
        Ok(got) if inside.contains(got) => {}
        Ok(got) if behind_addr == Some(*got) => out.fail(
            "c20.endpoint/address-taken-from-behind-the-message",
            format!("discover_public_address returned {got}, which only the bytes BEHIND the response message carry ({:?}); the message itself carries {inside:?}", case.behind),
        ),
        Ok(got) if *got == evil().to_std() => out.fail("c20.endpoint/address-of-a-foreign-response", format!("returned {got}")),
        Ok(got) => out.fail("c20.endpoint/address-differs", format!("returned {got}, the response carries {inside:?} (id {:?})", r.tid)),
        Err(e) => {
            // an error response may be reported as an error; a success response that carries an
            // address is "decoded to the original values"
            if case.class == RClass::Success && !inside.is_empty() {
                out.fail("c20.endpoint/address-not-decoded", format!("success response carries {inside:?}, discover_public_address returned Err({e})"));
            }
        }
    }
}
