//! C20 (vi): `StunEndpoint::send_request` over an unreliable transport — retransmission
//! schedule, matching by transaction id, no transaction entry outlives the call.
//!
//! One current-thread tokio runtime with a paused clock per case; all instants are virtual.
//! The expected schedule is computed here from the statement ("sent up to 7 times with a
//! doubling 500 ms timeout"): t_i = 500 ms * (2^i - 1), i = 0..6.

use crate::engine::*;
use crate::refmodel::ref_stun::*;
use parking_lot::Mutex;
use serde::{Deserialize, Serialize};
use std::io;
use std::net::SocketAddr;
use std::time::Duration;
use stun::{IncomingMessage, Request, StunEndpoint, StunEndpointUser, TransportInfo};
use stun_types::parse::ParsedMessage;
use tokio::time::Instant;

struct MockTp {
    reliable: bool,
}

impl TransportInfo for MockTp {
    fn reliable(&self) -> bool {
        self.reliable
    }
}

struct MockUser {
    t0: Instant,
    /// (virtual microseconds since t0, bytes, target)
    sends: Mutex<Vec<(u64, Vec<u8>, SocketAddr)>>,
    /// (virtual microseconds, transaction id) handed to `receive`
    received: Mutex<Vec<(u64, u128)>>,
    /// the n-th call (0-based) of `send_to` fails
    fail_on: Option<usize>,
    /// virtual milliseconds `send_to` itself takes (an await point inside the transport)
    send_delay_ms: u64,
}

impl MockUser {
    fn now_us(&self) -> u64 {
        (Instant::now() - self.t0).as_micros() as u64
    }
}

#[async_trait::async_trait]
impl StunEndpointUser for MockUser {
    type Transport = MockTp;

    async fn send_to(&self, bytes: &[u8], target: SocketAddr, _transport: &MockTp) -> io::Result<()> {
        let n = {
            let mut s = self.sends.lock();
            s.push((self.now_us(), bytes.to_vec(), target));
            s.len() - 1
        };
        if self.send_delay_ms > 0 {
            tokio::time::sleep(Duration::from_millis(self.send_delay_ms)).await;
        }
        if self.fail_on == Some(n) {
            return Err(io::Error::new(io::ErrorKind::ConnectionRefused, "mock send failure"));
        }
        Ok(())
    }

    async fn receive(&self, message: IncomingMessage<MockTp>) {
        self.received.lock().push((self.now_us(), message.message.tsx_id));
    }
}

const TID: [u8; 12] = [0x01, 0x23, 0x45, 0x67, 0x89, 0xab, 0xcd, 0xef, 0x10, 0x32, 0x54, 0x76];

fn tid_u128(t: &[u8; 12]) -> u128 {
    t.iter().fold(0u128, |v, b| (v << 8) | *b as u128)
}

fn request_bytes() -> Vec<u8> {
    encode(&RMsg { class: RClass::Request, method: 1, tid: TID, attrs: vec![], tail: vec![] })
}

/// header-only messages: the client checks do not depend on attribute handling of the codec
fn response(tid: [u8; 12]) -> ParsedMessage {
    let b = encode(&RMsg { class: RClass::Success, method: 1, tid, attrs: vec![], tail: vec![] });
    ParsedMessage::parse(b).expect("response parses")
}

/// expected transmission instants in ms
fn t_send(i: usize) -> u64 {
    500 * ((1u64 << i) - 1)
}

fn runtime() -> tokio::runtime::Runtime {
    tokio::runtime::Builder::new_current_thread()
        .enable_time()
        .start_paused(true)
        .build()
        .expect("runtime")
}

fn target() -> SocketAddr {
    "192.0.2.10:3478".parse().unwrap()
}

// --- schedule ---------------------------------------------------------------------------------------------------

#[derive(Clone, Debug, Hash, PartialEq, Eq, Serialize, Deserialize)]
pub struct ScheduleCase {
    /// bit i set: transmission i (0..7) is answered, bit clear: request or response lost
    pub answered: u8,
    /// bit i set: the answer to transmission i carries a different transaction id
    pub wrong_id: u8,
    /// 0: response 1 ms after the transmission; 1: in the middle of the wait; 2: 1 ms before the
    /// next transmission is due; 3: 1 ms after the next transmission (late response)
    pub delay: u8,
    /// which bit of the id differs in a wrong-id response
    pub wrong_bit: u8,
}

pub fn schedule_cases(_tier: Tier) -> Vec<ScheduleCase> {
    let mut v = vec![];
    for answered in 0u8..128 {
        let first = if answered == 0 { 0 } else { 1u8 << answered.trailing_zeros() };
        let mut wrongs = vec![0u8, answered, first];
        wrongs.dedup();
        if answered == 0 {
            wrongs = vec![0];
        }
        let mut seen = vec![];
        for w in wrongs {
            if seen.contains(&w) {
                continue;
            }
            seen.push(w);
            for delay in 0u8..4 {
                v.push(ScheduleCase { answered, wrong_id: w, delay, wrong_bit: (answered.wrapping_mul(13).wrapping_add(delay * 31)) % 96 });
            }
        }
    }
    v
}

/// arrival time (ms) of the answer to transmission i
fn arrival(i: usize, delay: u8) -> u64 {
    // wait after transmission i before the next one (or before giving up). For the last
    // transmission only the first 8 s are used so that both admissible give-up instants
    // (39.5 s and 63.5 s) lie after every generated arrival.
    let window = if i == 6 { 8000 } else { 500u64 << i };
    match delay {
        0 => t_send(i) + 1,
        1 => t_send(i) + window / 2,
        2 => t_send(i) + window - 1,
        _ => {
            if i == 6 {
                t_send(i) + window - 2
            } else {
                t_send(i) + window + 1
            }
        }
    }
}

pub fn check_schedule(case: &ScheduleCase, out: &mut CaseOut) {
    out.nontrivial(case);
    let mut wrong_tid = TID;
    wrong_tid[(case.wrong_bit / 8) as usize] ^= 1 << (case.wrong_bit % 8);

    // script of arrivals: (ms, right id?)
    let mut arrivals: Vec<(u64, bool)> = (0..7)
        .filter(|i| case.answered & (1 << i) != 0)
        .map(|i| (arrival(i, case.delay), case.wrong_id & (1 << i) == 0))
        .collect();
    arrivals.sort();

    // ---- expected, from the statement
    let t_star = arrivals.iter().find(|(_, right)| *right).map(|(t, _)| *t);
    let exp_sends: Vec<u64> = (0..7).map(t_send).filter(|t| t_star.map_or(true, |ts| *t < ts)).collect();
    let exp_received: Vec<(u64, bool)> = {
        let mut first_right_used = false;
        arrivals
            .iter()
            .filter(|(_, right)| {
                if *right && !first_right_used {
                    first_right_used = true;
                    false
                } else {
                    true
                }
            })
            .cloned()
            .collect()
    };
    out.class(match t_star {
        Some(_) => "answered-with-right-id",
        None if case.answered == 0 => "never-answered",
        None => "only-wrong-ids",
    });
    out.class(match exp_sends.len() {
        1 => "transmissions:1",
        2..=6 => "transmissions:2-6",
        _ => "transmissions:7",
    });
    if case.delay == 3 {
        out.class("late-response");
    }

    // ---- run ezk
    let rt = runtime();
    let bytes = request_bytes();
    let (result, t_ret, pending_after, sends, received) = rt.block_on(async {
        let t0 = Instant::now();
        let ep = StunEndpoint::new(MockUser {
            t0,
            sends: Mutex::new(vec![]),
            received: Mutex::new(vec![]),
            fail_on: None,
            send_delay_ms: 0,
        });
        let tp = MockTp { reliable: false };
        let call = async {
            let r = ep.send_request(Request { bytes: &bytes, tsx_id: tid_u128(&TID), transport: &tp }, target()).await;
            let t = (Instant::now() - t0).as_micros() as u64;
            (r, t, ep.verif_pending())
        };
        let script = async {
            for (t, right) in &arrivals {
                tokio::time::sleep_until(t0 + Duration::from_millis(*t)).await;
                let msg = response(if *right { TID } else { wrong_tid });
                ep.receive(msg, target(), MockTp { reliable: false }).await;
            }
        };
        let ((r, t, p), ()) = tokio::join!(call, script);
        let sends = ep.user().sends.lock().clone();
        let received = ep.user().received.lock().clone();
        (r, t, p, sends, received)
    });

    // ---- compare
    let got_sends: Vec<u64> = sends.iter().map(|s| s.0).collect();
    let exp_sends_us: Vec<u64> = exp_sends.iter().map(|t| t * 1000).collect();
    if got_sends != exp_sends_us {
        let sig = if got_sends.len() != exp_sends_us.len() { "c20.client/transmission-count" } else { "c20.client/transmission-times" };
        out.fail(sig, format!("send_to called at {got_sends:?} us, expected {exp_sends_us:?} us"));
    }
    for (_, b, tgt) in &sends {
        if *b != bytes || *tgt != target() {
            out.fail("c20.client/retransmission-differs", "retransmitted bytes or target differ from the request");
        }
    }
    match (&result, t_star) {
        (Ok(Some(msg)), Some(ts)) => {
            if msg.tsx_id != tid_u128(&TID) {
                out.fail("c20.client/response-with-foreign-id", format!("returned response has id {:#x}", msg.tsx_id));
            }
            if t_ret != ts * 1000 {
                out.fail("c20.client/return-time", format!("returned at {t_ret} us, response arrived at {} us", ts * 1000));
            }
        }
        (Ok(None), None) => {
            // give-up instant: 63.5 s (doubling, the statement) or 39.5 s (RFC 8489 Rm = 16)
            if t_ret != 63_500_000 && t_ret != 39_500_000 {
                out.fail("c20.client/give-up-time", format!("returned None at {t_ret} us"));
            }
        }
        (Ok(Some(msg)), None) => out.fail(
            "c20.client/completed-by-wrong-id",
            format!("no response with the request's id was delivered, yet the call returned a response with id {:#x}", msg.tsx_id),
        ),
        (Ok(None), Some(ts)) => out.fail("c20.client/response-not-matched", format!("response with the right id at {ts} ms, call returned None")),
        (Err(e), _) => out.fail("c20.client/unexpected-error", format!("{e}")),
    }
    let got_recv: Vec<(u64, bool)> = received.iter().map(|(t, id)| (*t / 1000, *id == tid_u128(&TID))).collect();
    if got_recv != exp_received {
        out.fail(
            "c20.client/unmatched-responses-to-user",
            format!("StunEndpointUser::receive saw {got_recv:?} (ms, right id), expected {exp_received:?}"),
        );
    }
    if pending_after != 0 {
        out.fail("c20.client/pending-after-return", format!("{pending_after} transaction entries after send_request returned"));
    }
    out.note = Some(format!("sends at {got_sends:?} us; returned at {t_ret} us"));
}

// --- cleanup ----------------------------------------------------------------------------------------------------------

#[derive(Clone, Debug, Hash, PartialEq, Eq, Serialize, Deserialize)]
pub enum CleanupCase {
    /// the future is dropped after `after_ms` of virtual time
    Drop { after_ms: u64, send_delay_ms: u64 },
    /// the n-th `send_to` fails
    SendErr { at: usize, send_delay_ms: u64 },
}

pub fn cleanup_cases(tier: Tier) -> Vec<CleanupCase> {
    let mut v = vec![];
    for send_delay_ms in [0u64, 3] {
        let mut grid: Vec<u64> = vec![0, 1, 2, 3, 4, 250, 40_000, 63_499, 63_500, 63_501, 64_000];
        for i in 0..7u64 {
            // transmission i starts at t_i + i * (time spent inside the previous send_to calls)
            let t = t_send(i as usize) + i * send_delay_ms;
            for d in [-1i64, 0, 1, 2, 3, 4, 5] {
                let k = t as i64 + d;
                if k >= 0 {
                    grid.push(k as u64);
                }
            }
        }
        if tier == Tier::Thorough {
            grid.extend((0..=640).map(|k| k * 100 + 7));
            grid.extend(0..=520);
        }
        grid.sort();
        grid.dedup();
        for &after_ms in &grid {
            v.push(CleanupCase::Drop { after_ms, send_delay_ms });
        }
    }
    for at in 0..7 {
        for send_delay_ms in [0u64, 3] {
            v.push(CleanupCase::SendErr { at, send_delay_ms });
        }
    }
    v
}

pub fn check_cleanup(case: &CleanupCase, out: &mut CaseOut) {
    out.nontrivial(case);
    let (fail_on, send_delay_ms) = match case {
        CleanupCase::Drop { send_delay_ms, .. } => (None, *send_delay_ms),
        CleanupCase::SendErr { at, send_delay_ms } => (Some(*at), *send_delay_ms),
    };
    let rt = runtime();
    let bytes = request_bytes();
    rt.block_on(async {
        let t0 = Instant::now();
        let ep = StunEndpoint::new(MockUser {
            t0,
            sends: Mutex::new(vec![]),
            received: Mutex::new(vec![]),
            fail_on,
            send_delay_ms,
        });
        let tp = MockTp { reliable: false };
        let req = Request { bytes: &bytes, tsx_id: tid_u128(&TID), transport: &tp };
        match case {
            CleanupCase::Drop { after_ms, .. } => {
                let r = tokio::time::timeout(Duration::from_millis(*after_ms), ep.send_request(req, target())).await;
                let pending = ep.verif_pending();
                let n_sends = ep.user().sends.lock().len();
                match r {
                    Err(_) => {
                        out.class(if n_sends > 0 && send_delay_ms > 0 && {
                            let last = ep.user().sends.lock().last().unwrap().0;
                            after_ms * 1000 < last + send_delay_ms * 1000
                        } {
                            "dropped-inside-send_to"
                        } else {
                            "dropped-while-waiting"
                        });
                        if pending != 0 {
                            out.fail("c20.client/pending-after-drop", format!("{pending} transaction entries after the future was dropped at {after_ms} ms"));
                        }
                    }
                    Ok(Ok(None)) => {
                        out.class("completed-before-drop");
                        if pending != 0 {
                            out.fail("c20.client/pending-after-return", format!("{pending} transaction entries after None"));
                        }
                    }
                    Ok(other) => out.fail("c20.client/unexpected-result", format!("unanswered request returned {:?}", other.map(|o| o.map(|m| m.tsx_id)))),
                }
                // a late response must now go to the user, not to a stale entry
                ep.receive(response(TID), target(), MockTp { reliable: false }).await;
                if ep.user().received.lock().len() != 1 {
                    out.fail("c20.client/late-response-not-forwarded", "response after the call ended was not handed to StunEndpointUser::receive");
                }
                if ep.verif_pending() != 0 {
                    out.fail("c20.client/pending-after-drop", "entry left after late response");
                }
            }
            CleanupCase::SendErr { at, .. } => {
                out.class("send_to-error");
                let r = ep.send_request(req, target()).await;
                let pending = ep.verif_pending();
                let n_sends = ep.user().sends.lock().len();
                match r {
                    Err(e) if e.kind() == io::ErrorKind::ConnectionRefused => {}
                    Err(e) => out.fail("c20.client/send-error-changed", format!("{e}")),
                    Ok(m) => out.fail("c20.client/send-error-swallowed", format!("send_to failed but the call returned Ok({:?})", m.map(|m| m.tsx_id))),
                }
                if n_sends != at + 1 {
                    out.fail("c20.client/transmission-count", format!("{n_sends} transmissions, send_to failed at the {}th", at + 1));
                }
                if pending != 0 {
                    out.fail("c20.client/pending-after-error", format!("{pending} transaction entries after send_to failed"));
                }
            }
        }
    });
}
